"""Unchanged tree: a CancellableAction whose function raises StopIteration does not report the outcome through
itself (run() raises TypeError and leaves the action pending), and a second run() is then NOT refused."""
import asyncio
import sys

from plumpy import futures


async def main():
    calls = []

    def fn():
        calls.append(1)
        raise StopIteration('boom')

    act = futures.CancellableAction(fn)
    problems = []
    try:
        act.run()
    except BaseException as exc:
        problems.append(f'run() raised {type(exc).__name__}: {exc} (the outcome should be reported through the action)')
    if not act.done():
        problems.append('the action is still pending after its function ran and failed')
    try:
        act.run()
    except futures.InvalidStateError:
        pass
    else:
        problems.append(f'a second run() was not refused; the action now ends with {act.exception()!r}')
    return problems


problems = asyncio.run(main())
for p in problems:
    print('VIOLATION:', p)
sys.exit(1 if problems else 0)
