# -*- coding: utf-8 -*-
"""Histories for which the UNCHANGED tree does not reproduce the uninterrupted execution after a restore (C08).

Run as:  PYTHONPATH=<tree>/src /venv/bin/python already-failing.py     (exits 1 and prints what differs)

1. ``Aliased``: an object that is both in the context and among the outputs.  ``Process.save_instance_state`` copies the
   outputs on their own (``encode_input_args`` -> ``copy.deepcopy``), the context is copied/pickled with the rest of the
   bundle, so after a restore the output value and the context value are two objects.  A later step that changes the
   object through the context changes the output in the uninterrupted run, but not after a crash in between.

2. ``Derived``: an outline that names a step of the base class explicitly (``Base.prepare``) in a work chain whose subclass
   overrides that method.  The live stepper calls the function the outline holds (``Base.prepare``), a stepper recreated
   from a checkpoint looks the step up by NAME on the class of the work chain (``_FunctionStepper.load_instance_state``:
   ``getattr(self._workchain.__class__, saved_state['_fn'])``) and calls ``Derived.prepare``.
"""

import asyncio
import sys

import plumpy
from plumpy import WorkChain

TRACE = []


class Aliased(WorkChain):
    @classmethod
    def define(cls, spec):
        super().define(spec)
        spec.outputs.dynamic = True
        spec.outline(cls.start, cls.add)

    def start(self):
        TRACE.append('start')
        self.ctx.found = []
        self.out('found', self.ctx.found)

    def add(self):
        TRACE.append('add')
        self.ctx.found.append(1)


class Base(WorkChain):
    @classmethod
    def define(cls, spec):
        super().define(spec)
        spec.outputs.dynamic = True
        spec.outline(cls.begin, Base.prepare, cls.finish)

    def begin(self):
        TRACE.append('begin')

    def prepare(self):
        TRACE.append('Base.prepare')
        self.ctx.prepared_by = 'Base'

    def finish(self):
        TRACE.append('finish')
        self.out('prepared_by', self.ctx.prepared_by)


class Derived(Base):
    def prepare(self):
        TRACE.append('Derived.prepare')
        self.ctx.prepared_by = 'Derived'


def execute(cls, persister, crash_points):
    del TRACE[:]
    loop = asyncio.new_event_loop()
    proc = cls(loop=loop)
    pid = proc.pid
    persister.save_checkpoint(proc)
    boundary = 0
    while not proc.has_terminated():
        loop.run_until_complete(proc.step())
        persister.save_checkpoint(proc)
        boundary += 1
        if boundary in crash_points and not proc.has_terminated():
            loop.close()
            del proc
            loop = asyncio.new_event_loop()
            proc = persister.load_checkpoint(pid).unbundle(plumpy.LoadSaveContext(loop=loop))
    outcome = {'steps': list(TRACE), 'outputs': dict(proc.outputs), 'context': dict(vars(proc.ctx)), 'state': proc.state}
    loop.close()
    return outcome, boundary


def main():
    failures = 0
    for cls in (Aliased, Derived):
        reference, boundaries = execute(cls, plumpy.InMemoryPersister(), ())
        print(f'{cls.__name__}: uninterrupted: {reference}')
        for crash_point in range(1, boundaries):
            outcome, _ = execute(cls, plumpy.InMemoryPersister(), (crash_point,))
            if outcome != reference:
                failures += 1
                print(f'{cls.__name__}: VIOLATION, crash at boundary {crash_point}: {outcome}')
    return 1 if failures else 0


if __name__ == '__main__':
    sys.exit(main())
