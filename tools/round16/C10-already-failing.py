# -*- coding: utf-8 -*-
"""Histories / inputs for which the UNCHANGED tree already violates C10 ("if an awaited item fails or is killed the
work chain ends EXCEPTED with that error and the following step never runs").

Run as: PYTHONPATH=<tree>/src /venv/bin/python already-failing.py      (prints one line per case, exits 1 if any fails)

Case 1  an awaited child process that ends EXCEPTED because one of its termination hooks (``on_finished``; the same
        goes for ``on_terminated`` / a failing listener-free hook) raises AFTER ``on_finish`` has resolved its future:
        ``Process.on_except`` replaces the (done) future, the parent holds the old one, sees a success and runs on.
Case 2  an awaited future that fails with an exception that is a ``plumpy.process_states.Interruption``
        (``KillInterruption`` / ``PauseInterruption``): ``Process.step`` takes the exception coming out of the wait for
        a kill / pause request: the work chain ends KILLED, resp. is paused and can never be played again.
Case 3  an awaited task that fails with a ``BaseException`` that is neither ``Exception`` nor ``CancelledError``:
        ``Waiting._awaitable_done`` does not catch it, the failure is dropped (raised into the event loop), and as soon
        as the other items are through the next step runs.
"""
import asyncio
import sys

import plumpy
from plumpy import ToContext, WorkChain, process_states

ran = []


class HookFails(plumpy.Process):
    @classmethod
    def define(cls, spec):
        super().define(spec)
        spec.outputs.dynamic = True

    async def run(self):
        self.out('v', 1)

    def on_finished(self):
        super().on_finished()
        raise RuntimeError('boom in on_finished')


class AwaitChild(WorkChain):
    @classmethod
    def define(cls, spec):
        super().define(spec)
        spec.outline(cls.s1, cls.s2)

    def s1(self):
        self.child = self.launch(HookFails)
        return ToContext(a=self.child)

    def s2(self):
        ran.append('case1')


class AwaitFutures(WorkChain):
    @classmethod
    def define(cls, spec):
        super().define(spec)
        spec.outline(cls.s1, cls.s2)

    def s1(self):
        self.fut = asyncio.Future()
        self.other = asyncio.Future()
        return ToContext(a=self.fut, b=self.other)

    def s2(self):
        ran.append('case2')


class Abort(BaseException):
    pass


async def main():
    loop = asyncio.get_event_loop()
    loop.set_exception_handler(lambda *_: None)  # keep the output short
    bad = []

    # Case 1
    wc = AwaitChild()
    await asyncio.wait_for(wc.step_until_terminated(), 2)
    ok = wc.state == plumpy.ProcessState.EXCEPTED and 'case1' not in ran
    print(f'case 1: child {wc.child.state}, work chain {wc.state}, next step ran: {"case1" in ran}  ->', 'ok' if ok else 'VIOLATION')
    bad.append(not ok)

    # Case 2
    for exc in (process_states.KillInterruption('k'), process_states.PauseInterruption('p')):
        wc = AwaitFutures()
        task = loop.create_task(wc.step_until_terminated())
        await asyncio.sleep(0.01)
        wc.fut.set_exception(exc)
        wc.other.set_result(1)
        await asyncio.sleep(0.05)
        if wc.paused:
            wc.play()
            await asyncio.sleep(0.05)
        ok = wc.state == plumpy.ProcessState.EXCEPTED
        print(f'case 2 ({type(exc).__name__}): work chain {wc.state}, paused={wc.paused}  ->', 'ok' if ok else 'VIOLATION')
        bad.append(not ok)
        task.cancel()

    # Case 3
    async def aborts():
        raise Abort()

    class AwaitTask(WorkChain):
        @classmethod
        def define(cls, spec):
            super().define(spec)
            spec.outline(cls.s1, cls.s2)

        def s1(self):
            self.other = asyncio.Future()
            return ToContext(a=self.loop.create_task(aborts()), b=self.other)

        def s2(self):
            ran.append('case3')

    wc2 = AwaitTask()
    task2 = loop.create_task(wc2.step_until_terminated())
    await asyncio.sleep(0.05)
    wc2.other.set_result(1)
    await asyncio.sleep(0.05)
    ok = wc2.state == plumpy.ProcessState.EXCEPTED and 'case3' not in ran
    print(f'case 3: work chain {wc2.state}, next step ran: {"case3" in ran}  ->', 'ok' if ok else 'VIOLATION')
    bad.append(not ok)
    task2.cancel()

    return 1 if any(bad) else 0


if __name__ == '__main__':
    sys.exit(asyncio.run(main()))
