# -*- coding: utf-8 -*-
"""Histories / inputs for which the UNCHANGED tree already departs from the C09 statement.

Run as:  PYTHONPATH=<tree>/src /venv/bin/python already-failing.py
Exits 1 and lists the findings that reproduce (all five do on the unchanged tree), 0 if none does.
"""
import sys

import plumpy
from plumpy.workchains import ToContext, WorkChain, if_

persister = plumpy.InMemoryPersister()
LOG = []
findings = []


# 1. ``_IfStepper.step`` counts ``_pos`` up while it asks the predicates and starts counting from the stored ``_pos`` (not
#    from 0) when it is entered again.  A checkpoint written from inside an elif_ predicate stores ``_pos`` >= 1 without a
#    branch stepper: after loading, the predicates are asked again from the first one but the count goes on from the stored
#    value, so the WRONG branch runs (here: p1 says yes, yet the else_ body ``c`` is executed).
class PredicateCheckpoint(WorkChain):
    @classmethod
    def define(cls, spec):
        super().define(spec)
        spec.outline(cls.s0, if_(cls.p0)(cls.a).elif_(cls.p1)(cls.b).else_(cls.c), cls.end)

    def s0(self):
        LOG.append('s0')

    def p0(self):
        LOG.append('p0')
        return False

    def p1(self):
        LOG.append('p1')
        persister.save_checkpoint(self, 'in-predicate')
        return True

    def a(self):
        LOG.append('a')

    def b(self):
        LOG.append('b')

    def c(self):
        LOG.append('c')

    def end(self):
        LOG.append('end')


chain = PredicateCheckpoint()
chain.execute()
assert LOG == ['s0', 'p0', 'p1', 'b', 'end'], LOG
del LOG[:]
persister.load_checkpoint(chain.pid, 'in-predicate').unbundle().execute()
if LOG != ['p0', 'p1', 'b', 'end']:
    findings.append(f'1. checkpoint written inside an elif_ predicate: after loading the calls are {LOG} (p1 said yes, b expected)')


# 2. Same root cause without any checkpoint: a BaseException (Ctrl-C) that comes out of an elif_ predicate leaves the live
#    stepper with ``_pos`` advanced; executing the (still RUNNING) process again takes the wrong branch.
class InterruptedPredicate(WorkChain):
    interrupt = True

    @classmethod
    def define(cls, spec):
        super().define(spec)
        spec.outline(if_(cls.p0)(cls.a).elif_(cls.p1)(cls.b).else_(cls.c))

    def p0(self):
        LOG.append('p0')
        return False

    def p1(self):
        LOG.append('p1')
        if InterruptedPredicate.interrupt:
            InterruptedPredicate.interrupt = False
            raise KeyboardInterrupt
        return True

    def a(self):
        LOG.append('a')

    def b(self):
        LOG.append('b')

    def c(self):
        LOG.append('c')


del LOG[:]
chain = InterruptedPredicate()
try:
    chain.execute()
except KeyboardInterrupt:
    pass
del LOG[:]
try:
    chain.execute()
except Exception as exception:  # (an if_ without else_ ends in an IndexError instead)
    LOG.append(repr(exception))
if LOG != ['p0', 'p1', 'b']:
    findings.append(f'2. KeyboardInterrupt inside an elif_ predicate, then execute() again: calls {LOG} (p0, p1, b expected)')


# 3. A checkpoint written while the RUNNING state of a step is being left (``on_exit_running`` / an EXITING_STATE hook; the
#    same holds for ``on_run``, where the old state is still the current one) holds the stepper AFTER the step but the state
#    BEFORE the transition.  When that step returned a stop value, the loaded chain does not stop: it goes on with the next
#    step and finishes with another result.
class ExitCheckpoint(WorkChain):
    @classmethod
    def define(cls, spec):
        super().define(spec)
        spec.outline(cls.s0, cls.s1, cls.s2)

    def on_exit_running(self):
        super().on_exit_running()
        persister.save_checkpoint(self, f'after-{len(LOG)}')

    def s0(self):
        LOG.append('s0')

    def s1(self):
        LOG.append('s1')
        return 7

    def s2(self):
        LOG.append('s2')


del LOG[:]
chain = ExitCheckpoint()
chain.execute()
assert (LOG, chain.result()) == (['s0', 's1'], 7)
del LOG[:]
loaded = persister.load_checkpoint(chain.pid, 'after-2').unbundle()
loaded.execute()
if LOG or loaded.result() != 7:
    findings.append(
        f'3. checkpoint written in on_exit_running after a step returned 7: the loaded chain calls {LOG} and ends with '
        f'{loaded.result()!r}'
    )


# 4. ``_FunctionStepper.load_instance_state`` looks the step up BY NAME on the class of the work chain instead of taking the
#    function written in the outline: with ``Parent.s0`` written explicitly, a loaded chain calls the override of the subclass.
class Parent(WorkChain):
    @classmethod
    def define(cls, spec):
        super().define(spec)
        spec.outline(Parent.s0, Parent.s1)

    def s0(self):
        LOG.append('Parent.s0')
        persister.save_checkpoint(self, 'in-s0')

    def s1(self):
        LOG.append('Parent.s1')


class Child(Parent):
    def s0(self):
        LOG.append('Child.s0')

    def s1(self):
        LOG.append('Child.s1')


del LOG[:]
chain = Child()
chain.execute()
assert LOG == ['Parent.s0', 'Parent.s1'], LOG
del LOG[:]
persister.load_checkpoint(chain.pid, 'in-s0').unbundle().execute()
if LOG != ['Parent.s0', 'Parent.s1']:
    findings.append(f'4. outline(Parent.s0, Parent.s1) in a subclass that overrides s0: the loaded chain calls {LOG}')


# 5. A step that happens to be called ``run`` replaces ``WorkChain.run``: the CREATED state calls it directly, its return
#    value is the result of the process and the outline is never stepped (tests/test_workchains.py::
#    test_tocontext_schedule_workchain does this and passes vacuously: its ``check`` step never runs).
class StepCalledRun(WorkChain):
    @classmethod
    def define(cls, spec):
        super().define(spec)
        spec.outline(cls.run, cls.check)

    def run(self):
        LOG.append('run')

    def check(self):
        LOG.append('check')


del LOG[:]
StepCalledRun().execute()
if LOG != ['run', 'check']:
    findings.append(f'5. a step named "run": calls {LOG} (run, check expected)')

for finding in findings:
    print(finding)
sys.exit(1 if findings else 0)
