# -*- coding: utf-8 -*-
"""C13 on the UNCHANGED tree: two histories/inputs for which the property statement does not hold.

Run as:  PYTHONPATH=<tree>/src /venv/bin/python already-failing.py     (exits 1 and prints what went wrong)

1. Keyword arguments of Continue(f, **k) whose names collide with parameters of the plumbing the command passes through
   (``State.create_state(state_label, ...)``, ``Running.__init__(process, run_fn, ...)``): instead of f(**k) being the next
   step the process ends EXCEPTED with a TypeError ("got multiple values for argument ...").
   Continue(self.f, 1, process=7) / run_fn=7 / state_label=7.

2. A resume value delivered while the process is paused lives only in the wait future of the WAITING state: a checkpoint
   taken after ``resume(v)`` (the call returned normally) and before the process is played does not contain it, so the
   restored process, once played, never runs f(v) -- it waits for a second resume -- while the original runs f(v).
"""

import asyncio
import sys

import plumpy
from plumpy import Continue, Wait

CALLS = []


class Collide(plumpy.Process):
    KEY = None

    def run(self):
        return Continue(self.f, 1, **{self.KEY: 7})

    def f(self, *args, **kwargs):
        CALLS.append((args, kwargs))
        return 'done'


class Process_(Collide):
    KEY = 'process'


class RunFn(Collide):
    KEY = 'run_fn'


class StateLabel(Collide):
    KEY = 'state_label'


class Harmless(Collide):
    KEY = 'harmless'


class Waiter(plumpy.Process):
    def run(self):
        return Wait(self.f)

    def f(self, *args, **kwargs):
        CALLS.append((args, kwargs))
        return 'done'


def keyword_collisions(loop):
    problems = []
    for cls in (Harmless, Process_, RunFn, StateLabel):
        del CALLS[:]
        proc = cls(loop=loop)
        loop.run_until_complete(proc.step_until_terminated())
        expected = [((1,), {cls.KEY: 7})]
        if CALLS != expected or proc.state != plumpy.ProcessState.FINISHED:
            problems.append(
                f'Continue(f, 1, {cls.KEY}=7): f called with {CALLS} (expected {expected}), ended {proc.state} {proc.exception()!r}'
            )
    return problems


async def resume_while_paused(loop):
    del CALLS[:]
    proc = Waiter(loop=loop)
    task = loop.create_task(proc.step_until_terminated())
    await asyncio.sleep(0.01)
    assert proc.state == plumpy.ProcessState.WAITING
    await proc.pause()
    assert proc.paused
    proc.resume('value')
    await asyncio.sleep(0.01)

    restored = plumpy.Bundle(proc).unbundle(plumpy.LoadSaveContext(loop=loop))
    restored.play()
    problems = []
    try:
        await asyncio.wait_for(restored.step_until_terminated(), 0.5)
    except asyncio.TimeoutError:
        problems.append(
            f'resume(v) while paused, checkpoint, restore, play: restored process is still {restored.state}, f called with {CALLS}'
        )
    # The original, for comparison, does run f('value')
    proc.play()
    await asyncio.wait_for(task, 5)
    assert CALLS == [(('value',), {})], CALLS
    return problems


def main():
    loop = asyncio.new_event_loop()
    asyncio.set_event_loop(loop)
    problems = keyword_collisions(loop)
    problems += loop.run_until_complete(resume_while_paused(loop))
    for problem in problems:
        print('C13 VIOLATED on the unchanged tree:', problem)
    return 1 if problems else 0


if __name__ == '__main__':
    sys.exit(main())
