# -*- coding: utf-8 -*-
"""Borderline observations on the UNCHANGED tree for C04 (exit 1 when at least one of them is observed).

1. Two requesters ask for the same kill inside one step: the second kill() hands back the very same action as the first,
   so when the second requester withdraws its request (cancels the future it got, e.g. ``asyncio.wait_for`` timing out),
   the first requester's kill is withdrawn with it: the first kill is lost, its future ends cancelled and the process
   stays alive.
2. A process killed while paused still counts as paused; a later play() restores the status text from before the pause
   and so wipes the kill text from ``Process.status`` (``killed_msg()`` keeps it).
"""

import asyncio
import sys

import plumpy
from plumpy import ProcessState

FOUND = []


class Waiter(plumpy.Process):
    def run(self):
        return plumpy.Wait(self.done)

    def done(self):
        return True


async def shared_action():
    proc = Waiter()
    task = asyncio.ensure_future(proc.step_until_terminated())
    for _ in range(5):
        await asyncio.sleep(0)
    assert proc.state == ProcessState.WAITING

    first = proc.kill('first requester')
    second = proc.kill('second requester')
    second.cancel()  # the second requester gives up waiting
    await asyncio.wait([task], timeout=0.5)

    if proc.state != ProcessState.KILLED:
        FOUND.append(
            f'1. first kill lost: process is {proc.state}, first.cancelled()={first.cancelled()}, same object={first is second}'
        )
    proc.kill()
    await asyncio.wait([task], timeout=0.5)
    if not task.done():
        task.cancel()


async def status_after_play():
    proc = Waiter()
    proc.set_status('working')
    proc.pause('hold on')
    proc.kill('bye')
    assert proc.state == ProcessState.KILLED and proc.status == 'bye'
    proc.play()
    if proc.status != 'bye':
        FOUND.append(f'2. kill text gone from the status after play() on the killed process: status={proc.status!r}')


async def main():
    await shared_action()
    await status_after_play()


if __name__ == '__main__':
    plumpy.set_event_loop_policy()
    asyncio.get_event_loop().run_until_complete(main())
    for line in FOUND:
        print(line)
    sys.exit(1 if FOUND else 0)
