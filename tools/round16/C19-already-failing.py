# -*- coding: utf-8 -*-
"""
Histories / inputs for which the UNCHANGED tree already violates C19 ("any Savable round-trips its declared members
through the named loader").  Run as: PYTHONPATH=<tree>/src /venv/bin/python already-failing.py
Prints one line per case and exits 1 when at least one violation reproduces.
"""

import asyncio
import sys
import warnings

import plumpy
from plumpy.persistence import SavableFuture

warnings.simplefilter('ignore', DeprecationWarning)
violations = []


# 1) Multiple inheritance: the auto_persist decorator starts from `cls._auto_persist`, which the MRO resolves to the set
#    of the FIRST base only; what the second base declares is neither saved nor restored.
@plumpy.auto_persist('a')
class BaseA(plumpy.Savable):
    def __init__(self):
        self.a = 1


@plumpy.auto_persist('b')
class BaseB(plumpy.Savable):
    def __init__(self):
        self.b = 2


@plumpy.auto_persist('c')
class Both(BaseA, BaseB):
    def __init__(self):
        BaseA.__init__(self)
        BaseB.__init__(self)
        self.c = 3


loaded = plumpy.Savable.load(Both().save())
if not hasattr(loaded, 'b'):
    violations.append(f"1) member 'b' declared by the second base class is lost (declared set: {Both._auto_persist})")


# 2) A bound method with a private (name mangled) name: saved under method.__name__ ('__step'), but the attribute of
#    the object is '_Mangled__step', so the load fails with AttributeError.
@plumpy.auto_persist('callback')
class Mangled(plumpy.Savable):
    def __init__(self):
        self.callback = self.__step

    def __step(self):
        return 'stepped'


try:
    loaded = plumpy.Savable.load(Mangled().save())
    assert loaded.callback() == 'stepped' and loaded.callback.__self__ is loaded
except AttributeError as exc:
    violations.append(f'2) bound private method is not rebound, the load raises AttributeError: {exc}')


# 3) A subclass of SavableFuture that declares a member of its own: it is saved, but SavableFuture.recreate_from builds
#    the object with cls(loop=...) and never loads the declared members.
@plumpy.auto_persist('tag')
class TaggedFuture(SavableFuture):
    pass


loop = asyncio.new_event_loop()
future = TaggedFuture(loop=loop)
future.tag = 'important'
saved = future.save()
loaded = plumpy.Savable.load(saved, plumpy.LoadSaveContext(loop=loop))
if getattr(loaded, 'tag', None) != 'important':
    violations.append(f"3) member 'tag' of a SavableFuture subclass is saved ({saved['tag']!r}) but not restored")
loop.close()


# 4) An unknown class whose identifier has a relative module part is a TypeError, not a ValueError.
try:
    plumpy.Savable.load({'!!meta': {'class_name': '.gone:Klass'}})
except ValueError:
    pass
except TypeError as exc:
    violations.append(f'4) unknown class with identifier ".gone:Klass" raises TypeError, not ValueError: {exc}')

for line in violations:
    print(line)
print(f'{len(violations)} violation(s) reproduced on this tree')
sys.exit(1 if violations else 0)
