# -*- coding: utf-8 -*-
"""Unchanged tree: the empty tuple IS the "nothing specified" marker (``plumpy.ports.UNSPECIFIED = ()``; CPython has a
single empty tuple object), so an explicitly supplied ``()`` passes every check made with ``value is UNSPECIFIED``.

  * ``{'a': ()}`` for an optional port declared ``valid_type=int``: the type check is skipped, the process is created
    and ``inputs.a == ()`` (not of the declared type).  The port validator is skipped as well.
  * ``{'ns': ()}`` for a declared namespace: ``PortNamespace.validate`` turns it into ``{}``; the process is created and
    ``inputs.ns == ()``, which is not a (read-only) mapping.

Exits 1 when the violations are observed (they are, on the unchanged tree), 0 otherwise.
"""

import sys

import plumpy


def never(value, port):
    return 'never acceptable'


class Proc(plumpy.Process):
    @classmethod
    def define(cls, spec):
        super().define(spec)
        spec.input('a', valid_type=int, required=False)
        spec.input('v', validator=never, required=False)
        spec.input_namespace('ns', required=False)
        spec.input('ns.x', valid_type=int, required=False)


def main():
    found = []
    for inputs in ({'a': ()}, {'v': ()}, {'ns': ()}):
        try:
            proc = Proc(inputs)
        except (ValueError, TypeError):
            continue
        found.append(f'{inputs!r} accepted: inputs={proc.inputs!r}')

    # for comparison: any other value of a wrong type is refused
    for inputs in ({'a': (1,)}, {'v': (1,)}, {'ns': (1,)}, {'ns': []}):
        try:
            Proc(inputs)
        except (ValueError, TypeError):
            continue
        found.append(f'{inputs!r} accepted as well')

    for line in found:
        print(line)
    return 1 if found else 0


if __name__ == '__main__':
    sys.exit(main())
