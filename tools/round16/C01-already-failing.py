# -*- coding: utf-8 -*-
"""UNCHANGED tree: a process that has entered FINISHED is moved on to EXCEPTED.

Two processes share a ``kiwipy.LocalCommunicator`` (it delivers broadcasts synchronously).  A broadcast subscriber (it
never raises) reacts to "A has finished" by killing B, which is still CREATED.  A's state-change broadcast is sent from
``Process.on_entered``, i.e. after FINISHED has been entered.  Killing B closes B, whose cleanups take B's subscribers
out of the communicator's dictionary while ``fire_broadcast`` is still iterating it for A: ``RuntimeError: dictionary
changed size during iteration`` comes out of ``broadcast_send``, is not one of the exceptions ``on_entered`` tolerates,
fails the (already completed) transition and ``transition_failed`` routes A from FINISHED to EXCEPTED.

Exits 1 when the violation is observed (which it is on the unchanged tree), 0 otherwise.
"""
import sys

import kiwipy
import plumpy
from plumpy import ProcessState


class Simple(plumpy.Process):
    async def run(self):
        return 5


class Recorder(plumpy.ProcessListener):
    def __init__(self):
        super().__init__()
        self.events = []

    def on_process_finished(self, process, outputs):
        self.events.append('finished')

    def on_process_excepted(self, process, reason):
        self.events.append(f'excepted ({reason})')


comm = kiwipy.LocalCommunicator()
a = Simple(communicator=comm)
b = Simple(communicator=comm)
recorder = Recorder()
a.add_process_listener(recorder)


def on_broadcast(_comm, body, sender, subject, correlation_id):
    if sender == a.pid and subject.endswith('.finished'):
        b.kill('A is done, B is not needed any more')


comm.add_broadcast_subscriber(on_broadcast)

try:
    a.execute()
except Exception as exception:
    print(f'A.execute() raised {type(exception).__name__}: {exception}')

print('A:', a.state.value, '- listener of A saw', recorder.events, '- B:', b.state.value)
if recorder.events[:1] == ['finished'] and a.state != ProcessState.FINISHED:
    print('VIOLATION: A entered FINISHED and is now', a.state.value)
    sys.exit(1)
print('OK')
