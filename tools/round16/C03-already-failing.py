# -*- coding: utf-8 -*-
"""Histories / inputs for which the UNCHANGED tree already violates property C03 (unusual exception shapes).

Run as: PYTHONPATH=<tree>/src /venv/bin/python already-failing.py   (exits 1 when at least one case violates C03)

1. A state hook raises ``StopIteration``: ``on_except`` hands it to ``Future.set_exception``, which refuses it with a
   ``TypeError`` -> the transition into EXCEPTED fails as well, the TypeError comes out of ``step``/``execute`` and the
   process is left in the state it was leaving (e.g. CREATED, already exited), not closed.
2. The exception is immutable (e.g. a frozen dataclass): ``on_except`` does ``exception.__traceback__ = ...`` which goes
   through ``__setattr__`` and raises ``FrozenInstanceError`` -> for a failing *step function* the process does end
   EXCEPTED and closed, but with the FrozenInstanceError instead of "exactly that exception" (the one the step raised).
3. A step function raises ``asyncio.CancelledError`` (e.g. it asked a cancelled future for its result): it is not an
   ``Exception``, nothing turns it into EXCEPTED; it comes out of stepping and the process stays RUNNING, not closed.
"""

import asyncio
import dataclasses
import sys

import plumpy
from plumpy import ProcessState


class HookStopIteration(plumpy.Process):
    def on_run(self):
        super().on_run()
        raise StopIteration('raised by the on_run hook')

    def run(self):
        return 1


@dataclasses.dataclass(frozen=True)
class FrozenError(Exception):
    code: int = 3


class StepFrozen(plumpy.Process):
    def run(self):
        raise FrozenError(7)


class StepCancelled(plumpy.Process):
    def run(self):
        future = asyncio.Future()
        future.cancel()
        return future.result()


def attempt(cls, expected_type):
    proc = cls()
    stepping_error = None
    try:
        asyncio.get_event_loop().run_until_complete(asyncio.wait_for(proc.step_until_terminated(), 5))
    except BaseException as exc:  # noqa: BLE001
        stepping_error = exc
    ok = (
        stepping_error is None
        and proc.state == ProcessState.EXCEPTED
        and isinstance(proc.exception(), expected_type)
        and proc._closed
    )
    print(
        f'{cls.__name__}: stepping raised {stepping_error!r}; state={proc.state}; closed={proc._closed}; '
        f'exception()={proc.exception()!r} -> {"ok" if ok else "VIOLATES C03"}'
    )
    return ok


def main():
    results = [
        attempt(HookStopIteration, StopIteration),
        attempt(StepFrozen, FrozenError),
        attempt(StepCancelled, asyncio.CancelledError),
    ]
    return 0 if all(results) else 1


if __name__ == '__main__':
    sys.exit(main())
