# -*- coding: utf-8 -*-
"""UNCHANGED tree: a process that excepted with the (public, exported) ``plumpy.TransitionFailed`` is not stable under
save -> load -> save.  ``TransitionFailed.__init__(initial_state, final_state, traceback_str)`` composes its message from
its arguments, but copying / pickling / YAML-dumping an exception rebuilds it as ``cls(*exc.args)``, i.e. with the already
composed message as ``initial_state``: every round trip appends another ' -> None' to the message (the same family as
the ``EventError`` / ``PortValidationError`` problems that were fixed with ``__reduce__``).

Exits 1 (printing the difference) if the violation is there, 0 if not.
"""
import asyncio
import copy
import pickle
import sys

import yaml

import plumpy


class Failing(plumpy.Process):
    async def run(self):
        raise plumpy.TransitionFailed('stateA', 'stateB')


MEDIA = {
    'deepcopy': lambda bundle: copy.deepcopy(bundle),
    'pickle': lambda bundle: pickle.loads(pickle.dumps(bundle)),
    'yaml': lambda bundle: yaml.load(yaml.dump(bundle), Loader=yaml.UnsafeLoader),
}


def main():
    loop = asyncio.new_event_loop()
    asyncio.set_event_loop(loop)
    proc = Failing()
    try:
        proc.execute()
    except plumpy.TransitionFailed:
        pass
    assert proc.state == plumpy.ProcessState.EXCEPTED

    failures = []
    for name, travel in MEDIA.items():
        saved = plumpy.Bundle(proc)
        loaded = travel(saved).unbundle(plumpy.LoadSaveContext(loop=loop))
        saved_again = plumpy.Bundle(loaded)
        if str(loaded.exception()) != str(proc.exception()):
            failures.append(f'[{name}] outcome differs: {str(loaded.exception())!r} != {str(proc.exception())!r}')
        if str(loaded.future().exception()) != str(proc.future().exception()):
            failures.append(
                f'[{name}] future outcome differs: {str(loaded.future().exception())!r} != {str(proc.future().exception())!r}'
            )
        one = {k: v for k, v in saved['_state'].items() if k != 'traceback'}
        two = {k: v for k, v in saved_again['_state'].items() if k != 'traceback'}
        if one != two:
            failures.append(f"[{name}] saved state differs (traceback left out):\n    {one['ex_value']!r}\n    {two['ex_value']!r}")

    if failures:
        print('save -> load -> save is not stable for a process excepted with plumpy.TransitionFailed:')
        for failure in failures:
            print(' -', failure)
        return 1
    print('ok')
    return 0


if __name__ == '__main__':
    sys.exit(main())
