# -*- coding: utf-8 -*-
"""UNCHANGED tree: a continue task does not use the configured object loader for the state of the process.

``Process.load_instance_state`` recreates the state through ``Process.recreate_state``, which builds a fresh
``LoadSaveContext(process=self)`` *without* the loader of the load context it was given.  ``_ensure_object_loader`` then
falls back to the loader class named in the checkpoint and instantiates it anew (``loader_class()``), so

* the state class is loaded by a second, unconfigured instance of the loader class, not by the loader the launcher
  (and the persister) were configured with, and
* if the loader's constructor needs arguments the continue task fails with a TypeError, although the very same loader
  object was given to both the persister and the launcher.

Run: PYTHONPATH=<tree>/src python already-failing.py   (exits 1 and prints the violations on the unchanged tree)
"""

import asyncio
import sys

import plumpy
from plumpy import process_comms


class P(plumpy.Process):
    def run(self):
        pass


class RegistryLoader(plumpy.DefaultObjectLoader):
    """A loader with per-instance configuration (a registry of aliases)"""

    instances = []

    def __init__(self, registry=None):
        self.registry = dict(registry or {})
        self.loaded = []
        RegistryLoader.instances.append(self)

    def load_object(self, identifier):
        self.loaded.append(identifier)
        if identifier in self.registry:
            return self.registry[identifier]
        return super().load_object(identifier)

    def identify_object(self, obj):
        for alias, registered in self.registry.items():
            if registered is obj:
                return alias
        return super().identify_object(obj)


class StrictRegistryLoader(RegistryLoader):
    def __init__(self, registry):  # no default: cannot be instantiated without its configuration
        super().__init__(registry)


async def main():
    problems = []

    # 1. which loader object loads the classes of the checkpoint?
    configured = RegistryLoader({'the-process': P})
    persister = plumpy.InMemoryPersister(loader=configured)
    launcher = plumpy.ProcessLauncher(persister=persister, loader=configured)
    pid = await launcher(None, process_comms.create_create_body(P, persist=True, loader=configured))
    del configured.loaded[:]
    await launcher(None, process_comms.create_continue_body(pid))
    others = [inst for inst in RegistryLoader.instances if inst is not configured]
    for other in others:
        problems.append(
            f'continue task: a second {type(other).__name__} instance was made and used to load {other.loaded}; '
            f'the configured loader only loaded {configured.loaded}'
        )

    # 2. the same with a loader that cannot be built without its configuration
    strict = StrictRegistryLoader({'the-process': P})
    persister = plumpy.InMemoryPersister(loader=strict)
    launcher = plumpy.ProcessLauncher(persister=persister, loader=strict)
    pid = await launcher(None, process_comms.create_create_body(P, persist=True, loader=strict))
    try:
        await launcher(None, process_comms.create_continue_body(pid))
    except TypeError as exc:
        problems.append(f'continue task with a configured loader failed: TypeError: {exc}')

    return problems


if __name__ == '__main__':
    found = asyncio.run(main())
    for problem in found:
        print('VIOLATION (unchanged tree):', problem)
    sys.exit(1 if found else 0)
