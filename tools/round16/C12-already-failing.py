"""Histories / inputs for which the UNCHANGED tree already departs from the statement of C12.  Exits 1 if any shows.

1. ``UNSPECIFIED`` of plumpy.ports is the empty tuple ``()`` (interned by CPython) and ``Port.validate`` tests
   ``value is UNSPECIFIED``: an emitted empty tuple is taken for "no value".  On an optional port declared ``valid_type=int``
   with a validator that refuses everything, ``out('x', ())`` stores ``()`` and the process ends successful; on a required
   port declared ``valid_type=tuple`` the same value is refused ("required value was not provided").
2. ``PortNamespace.validate_dynamic_ports`` recurses into the leaf value and evaluates ``if port_values and not self.dynamic``:
   the truth value of the *value* is taken.  A value whose truth value is undefined (numpy array like) makes ``out()`` raise
   that error although the spec (``valid_type``) accepts the value.
3. ``get_port(create_dynamically=True)`` adds the namespace to the spec of the *class*, for good -- also when the value is then
   refused.  Whether ``out('a', 5)`` is accepted by a dynamic output namespace depends on what other instances emitted before.
4. ``close()`` called while running (public, "safe to call") drops the state event hooks: the process ends FINISHED and
   "successful" without its outputs ever being validated, and its future is never resolved.
"""
import sys

import plumpy

problems = []


def refuse(value, port):
    return 'refused by the validator'


# 1 -------------------------------------------------------------------------------------------------------------------
class EmptyTuple(plumpy.Process):
    @classmethod
    def define(cls, spec):
        super().define(spec)
        spec.output('x', valid_type=int, required=False, validator=refuse)

    async def run(self):
        self.out('x', tuple([]))


class EmptyTupleRequired(plumpy.Process):
    @classmethod
    def define(cls, spec):
        super().define(spec)
        spec.output('t', valid_type=tuple)

    async def run(self):
        self.out('t', ())


proc = EmptyTuple()
proc.execute()
if 'x' in proc.outputs:
    problems.append(f'1: out() stored {proc.outputs["x"]!r} on an int port with a refusing validator; successful={proc.is_successful}')
proc = EmptyTupleRequired()
try:
    proc.execute()
except ValueError as exc:
    problems.append(f'1: out() refused () on a port declared valid_type=tuple: {exc}')


# 2 -------------------------------------------------------------------------------------------------------------------
class Array:
    def __bool__(self):
        raise ValueError('the truth value of an array is ambiguous')


class Ambiguous(plumpy.Process):
    @classmethod
    def define(cls, spec):
        super().define(spec)
        spec.output_namespace('arrays', valid_type=Array, dynamic=True)

    async def run(self):
        self.out('arrays.first', Array())


proc = Ambiguous()
try:
    proc.execute()
except ValueError as exc:
    problems.append(f'2: out() raised for an Array on a namespace declared valid_type=Array: {exc}')


# 3 -------------------------------------------------------------------------------------------------------------------
class Dynamic(plumpy.Process):
    emit = ()

    @classmethod
    def define(cls, spec):
        super().define(spec)
        spec.outputs.dynamic = True
        spec.outputs.valid_type = int

    async def run(self):
        for port, value in self.emit:
            try:
                self.out(port, value)
            except ValueError:
                pass


def run_dynamic(*emit):
    process = Dynamic()
    process.emit = emit
    process.execute()
    return process.outputs


first = run_dynamic(('a', 5))
run_dynamic(('a.b', 'refused: not an int'))  # nothing is stored, but the class spec now has a namespace 'a'
second = run_dynamic(('a', 5))
if first != second:
    problems.append(f'3: the same emission on the same spec gives {first} first and {second} after another instance ran')


# 4 -------------------------------------------------------------------------------------------------------------------
class ClosesItself(plumpy.Process):
    @classmethod
    def define(cls, spec):
        super().define(spec)
        spec.output('needed', valid_type=int)

    async def run(self):
        self.close()
        return 3


proc = ClosesItself()
try:
    proc.execute()
except Exception:  # InvalidStateError: the future was never resolved
    pass
if proc.state == plumpy.ProcessState.FINISHED and proc.is_successful:
    problems.append(f"4: FINISHED and successful with outputs {proc.outputs}, the required 'needed' is missing")

for problem in problems:
    print('VIOLATION', problem)
sys.exit(1 if problems else 0)
