# -*- coding: utf-8 -*-
"""C14 on the UNCHANGED tree: the two persisters are not equivalent for a process that excepted with an exception whose
constructor does not accept ``exception.args`` (very common: ``def __init__(self, code, detail): super().__init__(text)``).

The exception object sits in the process' ``SavableFuture`` and goes into the saved state as an object
(``SavableFuture.save_instance_state``: ``out_state['exception'] = self.exception()``).

* ``InMemoryPersister.save_checkpoint`` deep-copies the state, which rebuilds the exception with ``cls(*args)``: the save
  raises ``TypeError`` and nothing is stored.
* ``PicklePersister.save_checkpoint`` only *dumps* the pickle, which works, and writes the file.  Reading it back rebuilds
  the exception and fails: ``load_checkpoint`` of that key raises, and - because listing unpickles every file - so do
  ``get_checkpoints()``, ``get_process_checkpoints(<any pid>)`` and ``delete_process_checkpoints(<any other pid>)``.
  One stored checkpoint makes the keys of all other processes unlistable and their checkpoints undeletable.

Exits 1 when the violation is there (it is, on the unchanged tree), 0 otherwise.
"""

import sys
import tempfile

import plumpy


class MyError(Exception):
    def __init__(self, code, detail):
        super().__init__(f'{code}: {detail}')
        self.code = code


class Failing(plumpy.Process):
    async def run(self):
        raise MyError(3, 'boom')


class Fine(plumpy.Process):
    async def run(self):
        return None


def attempt(function, *args):
    try:
        return 'ok', function(*args)
    except Exception as exception:
        return 'raises', type(exception).__name__


def history(persister):
    failing, fine = Failing(pid=1), Fine(pid=2)
    try:
        failing.execute()
    except MyError:
        pass
    assert failing.state == plumpy.ProcessState.EXCEPTED

    log = []
    log.append(('save (2, t)', attempt(persister.save_checkpoint, fine, 't')[0]))
    log.append(('save (1, t)', attempt(persister.save_checkpoint, failing, 't')[0]))
    outcome, value = attempt(persister.get_checkpoints)
    log.append(('list', (outcome, sorted(value) if outcome == 'ok' else value)))
    log.append(('load (1, t)', attempt(persister.load_checkpoint, 1, 't')[0]))
    log.append(('load (2, t)', attempt(persister.load_checkpoint, 2, 't')[0]))
    log.append(('delete all of 2', attempt(persister.delete_process_checkpoints, 2)[0]))
    outcome, value = attempt(persister.get_process_checkpoints, 2)
    log.append(('list 2', (outcome, value)))
    return log


def main():
    with tempfile.TemporaryDirectory() as directory:
        in_memory = history(plumpy.InMemoryPersister())
        pickled = history(plumpy.PicklePersister(directory))

    different = False
    for (operation, left), (_, right) in zip(in_memory, pickled):
        marker = '' if left == right else '   <-- differ'
        different = different or left != right
        print(f'{operation:16} in-memory: {left!s:45} pickle: {right!s}{marker}')

    if different:
        print('FAIL: the persisters are not observationally equivalent; the pickle persister stored a checkpoint it cannot '
              'read, which breaks listing and deleting for every other process')
        return 1
    return 0


if __name__ == '__main__':
    sys.exit(main())
