# -*- coding: utf-8 -*-
"""Histories for which the UNCHANGED tree already violates C02 (exits 1 and prints them when they are reproduced).

1. close() on a live process, then kill(): ``close`` drops the state event hooks, so the kill transition enters KILLED
   without ``on_kill``/``on_killed`` running: kill() answers True, the state is KILLED, but the process future stays
   pending for ever and no listener is told.
2. A cleanup that (indirectly) calls ``process.close()``: ``_closed`` is only set once ``on_close`` is over, so the
   nested close runs ``on_close`` -- and with it every cleanup, including this one -- again, recursively, until the
   recursion limit is hit (the RecursionError is then logged as "a failing cleanup").  Registered cleanups run a few
   hundred times instead of exactly once, although close() is documented as safe to call several times.
"""

import logging
import sys

import plumpy

logging.disable(logging.CRITICAL)


class Recorder(plumpy.ProcessListener):
    def __init__(self):
        super().__init__()
        self.terminal = []

    def on_process_finished(self, process, outputs):
        self.terminal.append('finished')

    def on_process_excepted(self, process, reason):
        self.terminal.append('excepted')

    def on_process_killed(self, process, msg):
        self.terminal.append('killed')


class Five(plumpy.Process):
    def run(self):
        return 5


def main():
    found = []

    # 1. close, then kill
    proc = Five()
    recorder = Recorder()
    proc.add_process_listener(recorder)
    proc.close()
    answer = proc.kill('bye')
    print('1.', 'kill() ->', answer, '| state', proc.state, '| future done:', proc.future().done(), '| listeners:', recorder.terminal)
    if proc.state == plumpy.ProcessState.KILLED and (not proc.future().done() or recorder.terminal != ['killed']):
        found.append('closed-then-killed process is KILLED but its future is pending / its listeners were not told')

    # 2. a cleanup that closes the process
    proc = Five()
    runs = []

    def cleanup():
        runs.append(1)
        proc.close()

    proc.add_cleanup(cleanup)
    proc.execute()
    print('2.', 'state', proc.state, '| the cleanup ran', len(runs), 'time(s)')
    if len(runs) != 1:
        found.append(f'a cleanup that calls close() ran {len(runs)} times')

    if found:
        print('\nC02 violated on this tree:')
        for item in found:
            print('  -', item)
        return 1
    print('\nnot reproduced')
    return 0


if __name__ == '__main__':
    sys.exit(main())
