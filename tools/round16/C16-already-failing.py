# -*- coding: utf-8 -*-
"""Borderline finding on the UNCHANGED tree (C16, "each completed transition announced once, in order").

A process whose ``on_running`` hook (run by ``on_entered`` *before* the broadcast) raises: the process has entered RUNNING
(``on_run`` ran, ``_state`` is the running state), the failure turns it into EXCEPTED -- and what is announced is
``state_changed.None.created`` followed by ``state_changed.running.excepted``: observers are told that the process left a
state they were never told it had entered (the announcements do not chain: <to> of one is not <from> of the next).
Whether created->running counts as a "completed" transition is debatable, hence "borderline".  Exits 1 if the chain is broken.
"""

import sys

import kiwipy

import plumpy


class FailsOnRunning(plumpy.Process):
    def on_running(self):
        super().on_running()
        raise RuntimeError('hook failed')

    def run(self):
        pass


plumpy.set_event_loop_policy()
comm = kiwipy.LocalCommunicator()
announced = []
comm.add_broadcast_subscriber(lambda _c, body, sender, subject, correlation_id: announced.append(subject))
proc = FailsOnRunning(communicator=comm)
try:
    proc.execute()
except RuntimeError:
    pass

print(proc.state, announced)
labels = [subject.split('.')[1:] for subject in announced]
broken = [(a, b) for a, b in zip(labels, labels[1:]) if a[1] != b[0]]
if broken:
    print('announcements do not chain:', broken)
    sys.exit(1)
