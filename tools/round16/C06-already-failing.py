# -*- coding: utf-8 -*-
"""BORDERLINE observation on the UNCHANGED tree (checkpoints are not part of the interleavings C06 quantifies over).

A process that is WAITING and paused is resumed with a value (the wake-up is accepted: the wait future holds the value).  A
checkpoint taken now does not contain the wake-up: ``Waiting.load_instance_state`` always arms a fresh, pending wait future.
The process recreated from that checkpoint is played and stepped, but stays WAITING forever, whereas the original one
continues with the value once played.  Exits 1 when the recreated process does not continue.
"""
import asyncio
import sys

import plumpy


class P(plumpy.Process):
    got = []

    def run(self):
        return plumpy.Wait(self.proceed)

    def proceed(self, *args):
        P.got.append(args)


async def until(pred, turns=200):
    for _ in range(turns):
        if pred():
            return True
        await asyncio.sleep(0)
    return pred()


async def main():
    proc = P()
    task = asyncio.ensure_future(proc.step_until_terminated())
    await until(lambda: proc.state == plumpy.ProcessState.WAITING)
    await asyncio.sleep(0)
    await proc.pause()
    proc.resume('v')  # accepted while paused
    loaded = plumpy.Bundle(proc).unbundle()  # checkpoint written after the wake-up

    proc.play()
    original_ok = await until(proc.has_terminated)

    task2 = asyncio.ensure_future(loaded.step_until_terminated())
    loaded.play()
    loaded_ok = await until(loaded.has_terminated)
    print(f'original: terminated={original_ok} state={proc.state}; recreated: terminated={loaded_ok} state={loaded.state}')
    print('continuation calls:', P.got)
    for t in (task, task2):
        t.cancel()
    return 0 if (original_ok and loaded_ok) else 1


if __name__ == '__main__':
    plumpy.set_event_loop_policy()
    sys.exit(asyncio.get_event_loop().run_until_complete(main()))
