"""Histories for which the UNCHANGED tree seems to violate the C15 statement (exit 1 if any is observed)."""
from plumpy.process_spec import ProcessSpec


def expose(src, dst, namespace=None, exclude=None, include=None, options=None):
    dst._expose_ports(None, src.inputs, dst.inputs, dst._exposed_inputs, namespace, exclude, include, options)


problems = []

# 1. "with the source namespace's properties": absorb applies the properties in dir() order, `dynamic` before
#    `valid_type`, and the valid_type setter forces dynamic=True -> a source with valid_type set and dynamic=False
#    is exposed as dynamic=True.
src = ProcessSpec(); src.input('a'); src.inputs.valid_type = str; src.inputs.dynamic = False
dst = ProcessSpec(); expose(src, dst, 'ns')
if dst.inputs['ns'].dynamic != src.inputs.dynamic:
    problems.append(f'1: source dynamic={src.inputs.dynamic}, exposed namespace dynamic={dst.inputs["ns"].dynamic}')

# 2. "unless overridden by namespace options": same ordering, the override dynamic=False is undone by the source's
#    valid_type that is applied after it.
src = ProcessSpec(); src.input('a'); src.inputs.valid_type = str
dst = ProcessSpec(); expose(src, dst, 'ns', options={'dynamic': False})
if dst.inputs['ns'].dynamic is not False:
    problems.append(f'2: namespace_options dynamic=False ignored, exposed namespace dynamic={dst.inputs["ns"].dynamic}')

# 3. "the copy is independent": property values of a namespace (top level: setattr, nested: copy.copy) are shared,
#    so an in-place change of a namespace default of the source shows through to the destination.
src = ProcessSpec(); src.input_namespace('sub', default={'k': 1}); src.input('sub.x', required=False)
src.inputs.default = {'top': 1}
dst = ProcessSpec(); expose(src, dst, 'ns')
src.inputs['sub'].default['k'] = 2
src.inputs.default['top'] = 2
if dst.inputs['ns']['sub'].default != {'k': 1} or dst.inputs['ns'].default != {'top': 1}:
    problems.append(f"3: destination defaults follow the source: {dst.inputs['ns']['sub'].default} {dst.inputs['ns'].default}")

# 4. "leaves other ports of the destination in place": a nested namespace of the destination with the same name as
#    an exposed nested namespace is replaced wholesale, its other ports are lost (e.g. two exposures with
#    include=('sub.x',) and then include=('sub.y',) leave only sub.y).
src = ProcessSpec(); src.input('sub.x'); src.input('sub.y')
dst = ProcessSpec(); expose(src, dst, 'ns', include=('sub.x',)); expose(src, dst, 'ns', include=('sub.y',))
if sorted(dst.inputs['ns']['sub']) != ['x', 'y']:
    problems.append(f"4: after exposing sub.x and then sub.y the destination holds {sorted(dst.inputs['ns']['sub'])}")

for problem in problems:
    print(problem)
raise SystemExit(1 if problems else 0)
