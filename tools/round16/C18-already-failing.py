# -*- coding: utf-8 -*-
"""Two overridable hooks of a process that the UNCHANGED tree runs outside the process scope (borderline w.r.t. C18:
"while a ... hook ... of a process executes, Process.current() is that process").

1. ``Process.init()`` (a ``super_check`` hook, "common initialisation logic, after create or load, goes here") is called by
   the metaclass / by ``recreate_from`` without a process scope: a child created inside a parent's step sees the PARENT as
   the current process in its ``init`` (and ``None`` when created at top level), whereas ``on_create`` sees the child.
2. ``Process.callback_excepted()`` is called by ``ProcessCallback.run`` after ``_run_task`` (and with it the scope) has
   ended: it sees whoever scheduled the callback (or ``None``).

Exits non-zero if either is observed.
"""

import asyncio
import sys

import plumpy
from plumpy import Process

problems = []


class Child(Process):
    def init(self):
        super().init()
        if Process.current() is not self:
            problems.append(f'Child.init: Process.current() is {Process.current()!r}, not the child')

    def on_create(self):
        super().on_create()
        assert Process.current() is self  # (this one is fine)

    def callback_excepted(self, callback, exception, trace):
        if Process.current() is not self:
            problems.append(f'Child.callback_excepted: Process.current() is {Process.current()!r}, not the child')
        super().callback_excepted(callback, exception, trace)


def failing():
    raise RuntimeError('callback fails')


class Parent(Process):
    async def run(self):
        child = Child()  # init() of the child runs here, inside the parent's step
        child.call_soon(failing)
        await asyncio.sleep(0.01)
        assert child.is_excepted


Child()  # at top level: init() sees None
asyncio.get_event_loop().run_until_complete(Parent().step_until_terminated())

if problems:
    print('unchanged tree: hooks running outside the process scope:')
    for line in problems:
        print('  ' + line)
    sys.exit(1)
print('ok')
