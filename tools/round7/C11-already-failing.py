"""Inputs for which the UNCHANGED tree already departs from the C11 statement.

Run as: PYTHONPATH=<tree>/src /venv/bin/python already-failing.py   (exits 1 if a violation is observed)

1. ``UNSPECIFIED`` is the empty tuple ``()``, which CPython interns: a *supplied* value ``()`` is identical to the
   "not supplied" marker.  For an optional port with ``valid_type=int`` the value ``()`` skips the type check (and the
   port validator) and shows up in ``inputs``; for a required port with ``valid_type=tuple`` the conforming value
   ``()`` is rejected as "required value was not provided".  A declared ``default=()`` is likewise "no default".
2. The clone of the raw inputs made in ``Process.on_create`` turns every ``dict`` instance into a plain ``dict``, also
   the *value of a leaf port*: a port with ``valid_type=OrderedDict`` (or any dict subclass) rejects a conforming value.
"""
import collections
import sys

import plumpy


def make(define):
    class Proc(plumpy.Process):
        @classmethod
        def define(cls, spec):
            super().define(spec)
            define(spec)

        def run(self):
            pass

    return Proc


problems = []

# 1a: value of the wrong type accepted, validator not run
calls = []


def validator(value, port):
    calls.append(value)
    return 'never acceptable'


P = make(lambda spec: spec.input('x', valid_type=int, required=False, validator=validator))
try:
    proc = P({'x': ()})
    problems.append(f"1a: x=() accepted for valid_type=int with an always-failing validator; inputs={dict(proc.inputs)}, validator calls={calls}")
except ValueError:
    pass

# 1b: conforming value rejected as missing
P = make(lambda spec: spec.input('t', valid_type=tuple))
try:
    P({'t': ()})
except ValueError as exc:
    problems.append(f'1b: t=() rejected for a required port with valid_type=tuple: {exc}')

# 1c: declared default () is not applied
P = make(lambda spec: spec.input('t', valid_type=tuple, default=()))
try:
    proc = P()
    if 't' not in proc.inputs:
        problems.append(f'1c: declared default () not applied; inputs={dict(proc.inputs)}')
except ValueError as exc:
    problems.append(f'1c: process with declared default () cannot be created without inputs: {exc}')

# 2: dict subclass given for a leaf port becomes a plain dict before validation
P = make(lambda spec: spec.input('od', valid_type=collections.OrderedDict))
try:
    P({'od': collections.OrderedDict(a=1)})
except ValueError as exc:
    problems.append(f'2: OrderedDict value rejected for valid_type=OrderedDict: {exc}')

for problem in problems:
    print(problem)
sys.exit(1 if problems else 0)
