# -*- coding: utf-8 -*-
"""C15 on the UNCHANGED tree: the properties of the exposed namespace are not always those of the source / the overrides.

`PortNamespace.absorb` copies the mutable properties in the order of `dir()`: ..., `dynamic`, ..., `valid_type`, ...
The `valid_type` setter sets `dynamic = True` whenever the type is not None, so it undoes what was just set for `dynamic`:

 (1) a source namespace with `valid_type=int` and `dynamic=False` (legal: set the type, then switch `dynamic` off)
     is exposed as a *dynamic* namespace - both for the namespace that is exposed and for namespaces nested in it;
 (2) `namespace_options={'dynamic': False}` is ignored when the source namespace has a `valid_type`.

Observable: the exposed namespace accepts ports that the source namespace rejects.

 (3) (borderline) an exposure that is rejected because include is given together with an (empty) exclude has already
     created the requested namespace in the destination: `_expose_ports` only tests `if exclude and include is not
     None` before it calls `create_port_namespace`, the full check is in `absorb`, after the creation.
"""
import sys

from plumpy.process_spec import ProcessSpec

problems = []


def expose(source, namespace, options=None, exclude=None, include=None):
    destination = ProcessSpec()
    destination._expose_ports(
        None, source.inputs, destination.inputs, destination._exposed_inputs, namespace, exclude, include, options
    )
    return destination


# (1)
source = ProcessSpec()
source.input('a')
source.input('nested.b')
for namespace in (source.inputs, source.inputs['nested']):
    namespace.valid_type = int
    namespace.dynamic = False
assert source.inputs.dynamic is False and source.inputs.valid_type is int

destination = expose(source, 'sub')
for path in ('sub', 'sub.nested'):
    exposed = destination.inputs.get_port(path)
    if exposed.dynamic is not False:
        problems.append(f'(1) `{path}`: dynamic={exposed.dynamic} but the source namespace has dynamic=False')

values = {'a': 1, 'nested': {'b': 2}, 'extra': 3}
if source.inputs.validate(values) is not None and destination.inputs['sub'].validate(values) is None:
    problems.append('(1) the exposed namespace accepts the undeclared port `extra`, the source namespace rejects it')

# (2)
source = ProcessSpec()
source.input('a')
source.inputs.valid_type = int  # (implies dynamic=True)
destination = expose(source, 'sub', options={'dynamic': False})
if destination.inputs['sub'].dynamic is not False:
    problems.append("(2) namespace_options={'dynamic': False} was not applied: dynamic=True")

# (3)
source = ProcessSpec()
source.input('a')
destination = ProcessSpec()
destination.input('own')
try:
    destination._expose_ports(
        None, source.inputs, destination.inputs, destination._exposed_inputs, 'sub', (), ('a',), None
    )
except ValueError:
    if list(destination.inputs) != ['own']:
        problems.append(f'(3) rejected exposure (exclude=(), include=("a",)) changed the destination: {list(destination.inputs)}')
else:
    problems.append('(3) include together with exclude was not rejected')

if problems:
    print('C15 violated on this tree:')
    for problem in problems:
        print('  -', problem)
    sys.exit(1)
print('ok')
