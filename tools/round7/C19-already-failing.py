# -*- coding: utf-8 -*-
"""Histories/inputs for which the UNCHANGED tree already violates C19 (run with PYTHONPATH=<tree>/src).

Exits 1 and lists the violations it observed, exits 0 if none of them shows (i.e. they were fixed).
"""

import asyncio
import sys

from plumpy import Savable, SavableFuture, auto_persist

asyncio.set_event_loop(asyncio.new_event_loop())
found = []


# 1. Two bases that each declare members: the class takes the declarations of the first base in the MRO only,
#    so a member declared by the second base is neither saved nor restored.
@auto_persist('a')
class A(Savable):
    pass


@auto_persist('b')
class B(Savable):
    pass


@auto_persist('c')
class C(A, B):
    def __init__(self):
        self.a, self.b, self.c = 1, 2, 3


state = C().save()
restored = Savable.load(state)
if 'b' not in state or getattr(restored, 'b', None) != 2:
    found.append(f"multiple inheritance: member 'b' declared by the second base is lost (saved keys: {sorted(state)})")


# 2. A bound method with a private (name mangled) name is saved by its __name__, which is not the attribute name:
#    the state cannot be loaded.
@auto_persist('callback')
class Private(Savable):
    def __init__(self):
        self.callback = self.__hidden

    def __hidden(self):
        return 'hidden'


try:
    restored = Savable.load(Private().save())
    assert restored.callback.__self__ is restored and restored.callback() == 'hidden'
except Exception as exc:
    found.append(f'private method member: not rebound on load ({type(exc).__name__}: {exc})')


# 3. A member declared on a subclass of SavableFuture is saved, but SavableFuture.recreate_from never loads members:
#    the restored future has whatever the constructor sets.
@auto_persist('label')
class Labelled(SavableFuture):
    def __init__(self, *args, **kwargs):
        super().__init__(*args, **kwargs)
        self.label = 'default'


future = Labelled()
future.label = 'mine'
future.set_result(3)
restored = Savable.load(future.save())
if getattr(restored, 'label', None) != 'mine':
    found.append(f"SavableFuture subclass: declared member 'label' restored as {getattr(restored, 'label', None)!r}")


# 4. A method member bound through super() comes back as the override of the subclass (saved by name only).
@auto_persist('callback')
class Parent(Savable):
    def handle(self):
        return 'parent'


class Child(Parent):
    def __init__(self):
        self.callback = super().handle

    def handle(self):
        return 'child'


child = Child()
restored = Savable.load(child.save())
if restored.callback() != child.callback():
    found.append(f'super() bound method: was {child.callback()!r}, restored method gives {restored.callback()!r}')


# 5. (minor) an unknown/invalid class identifier that is not a ValueError
for identifier in ('.loaders:X', 'builtins:dict'):
    try:
        Savable.load({'!!meta': {'class_name': identifier}})
    except ValueError:
        pass
    except Exception as exc:
        found.append(f'class identifier {identifier!r}: {type(exc).__name__} instead of ValueError ({exc})')

for line in found:
    print(' -', line)
sys.exit(1 if found else 0)
