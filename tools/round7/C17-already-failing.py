# -*- coding: utf-8 -*-
"""C17: histories / inputs for which the UNCHANGED tree does not do what the property statement says.

Run as:  PYTHONPATH=<tree>/src /venv/bin/python already-failing.py
Prints one line per case; exits 1 if at least one case reproduces.
"""

import asyncio
import sys
import tempfile

import plumpy
from plumpy import process_comms

SIDE_EFFECTS = []


class Proc(plumpy.Process):
    TEXT = 'Proc'

    @classmethod
    def define(cls, spec):
        super().define(spec)
        spec.output('who')

    def run(self):
        self.out('who', f'{self.TEXT} {self.pid}')


def not_a_process(*args, **kwargs):
    """A module level callable that is not a process class"""
    SIDE_EFFECTS.append((args, kwargs))


class CountingPersister(plumpy.InMemoryPersister):
    """A persister that (legally) has a length: the number of processes it holds"""

    def __len__(self):
        return len(self._checkpoints)


class AliasLoader(plumpy.DefaultObjectLoader):
    """A loader that is configured per instance: it knows classes by the aliases it was given"""

    def __init__(self, aliases=None):
        self._aliases = dict(aliases or {})

    def identify_object(self, obj):
        for alias, known in self._aliases.items():
            if known is obj:
                return alias
        return super().identify_object(obj)

    def load_object(self, identifier):
        if identifier in self._aliases:
            return self._aliases[identifier]
        return super().load_object(identifier)


async def case_pickle_filename_collision():
    """continue of (pid='job.final', untagged) resumes the checkpoint of (pid='job', tag='final'): same file name"""
    with tempfile.TemporaryDirectory() as directory:
        persister = plumpy.PicklePersister(directory)
        launcher = plumpy.ProcessLauncher(persister=persister)
        task = process_comms.create_create_body(Proc, persist=True, init_kwargs={'pid': 'job.final'})
        await launcher(None, task)
        other = Proc(pid='job')
        persister.save_checkpoint(other, tag='final')
        reply = await launcher(None, process_comms.create_continue_body('job.final'))
        if reply != {'who': 'Proc job.final'}:
            return f"continue of pid 'job.final' (untagged) replied {reply!r}: it resumed the checkpoint of pid 'job', tag 'final'"
    return None


async def case_falsy_persister_rejected():
    """a launcher that has a persister rejects persist/continue tasks with 'no persister' while the persister is empty"""
    persister = CountingPersister()
    launcher = plumpy.ProcessLauncher(persister=persister)
    try:
        await launcher(None, process_comms.create_create_body(Proc, persist=True))
    except plumpy.TaskRejected as exc:
        return f'create(persist=True) with an (empty, hence falsy) persister was rejected: {exc}'
    return None


async def case_non_process_callable_executed():
    """a launch task naming something that is not a process class is executed (the callable is called), not rejected"""
    launcher = plumpy.ProcessLauncher()
    task = {
        'task': 'launch',
        'args': {'process_class': f'{__name__}:not_a_process', 'persist': False, 'nowait': True, 'init_args': (1, 2)},
    }
    try:
        await launcher(None, task)
    except plumpy.TaskRejected:
        return None
    except Exception as exc:
        if SIDE_EFFECTS:
            return f'launch of a non-process callable called it with {SIDE_EFFECTS[0]!r} before failing with {type(exc).__name__}'
    return None


async def case_missing_task_type():
    """a task without a task type fails with KeyError instead of being rejected"""
    launcher = plumpy.ProcessLauncher()
    try:
        await launcher(None, {'args': {}})
    except plumpy.TaskRejected:
        return None
    except Exception as exc:
        return f'a task without a task type raised {type(exc).__name__} instead of TaskRejected'
    return 'a task without a task type was accepted'


async def case_configured_loader_instance_not_used():
    """the loader *instance* given to launcher and persister is not the one that loads the state objects of a checkpoint:
    a new, unconfigured instance of its class is made from the identifier stored in the checkpoint"""
    used = []

    class Spy(AliasLoader):
        def load_object(self, identifier):
            used.append(self)
            return super().load_object(identifier)

    globals()['Spy'] = Spy  # loadable as <module>:Spy, as `Savable.save` requires of the loader class
    Spy.__qualname__ = 'Spy'
    loader = Spy({'the-process': Proc})
    persister = plumpy.InMemoryPersister(loader=loader)
    launcher = plumpy.ProcessLauncher(persister=persister, loader=loader)
    pid = await launcher(None, process_comms.create_create_body(Proc, persist=True, loader=loader))
    del used[:]
    await launcher(None, process_comms.create_continue_body(pid))
    others = [instance for instance in used if instance is not loader]
    if others:
        return (
            f'during the continue task {len(others)} of {len(used)} object loads went through other loader instances '
            'than the configured one (made by calling the loader class without arguments)'
        )
    return None


async def main():
    reproduced = 0
    for case in (
        case_pickle_filename_collision,
        case_falsy_persister_rejected,
        case_non_process_callable_executed,
        case_missing_task_type,
        case_configured_loader_instance_not_used,
    ):
        try:
            finding = await case()
        except Exception as exc:  # noqa: BLE001
            finding = f'(case itself failed: {type(exc).__name__}: {exc})'
        if finding:
            reproduced += 1
            print(f'REPRODUCED {case.__name__}: {finding}')
        else:
            print(f'not reproduced {case.__name__}')
    return reproduced


if __name__ == '__main__':
    sys.exit(1 if asyncio.run(main()) else 0)
