# -*- coding: utf-8 -*-
"""Candidate violation of C18 on the UNCHANGED tree: the ``callback_excepted`` hook runs outside the process scope.

``Process.call_soon(cb)`` runs ``cb`` through ``_run_task`` (inside the scope).  When ``cb`` raises, the exception leaves
``_run_task`` -- and with it the scope -- and only then ``events.ProcessCallback.run`` calls
``process.callback_excepted(...)``.  A subclass that overrides this (public, overridable) hook therefore observes
``Process.current()`` being whatever the task inherited: ``None`` when the callback was scheduled from plain code, the
*scheduling* process when it was scheduled from another process's step -- not the process whose hook is running.
(The base implementation goes on to ``fail()`` -> ``transition_to()``, which opens its own scope, so ``on_except`` and
``on_excepted`` are fine; only the override's own code is affected.)

Exits 1 if the violation is observed, 0 otherwise.
"""

import asyncio
import sys

import plumpy
from plumpy import Process

seen = []


class Victim(plumpy.Process):
    def run(self):
        return plumpy.Wait(msg='wait for ever')

    def callback_excepted(self, callback, exception, trace):
        seen.append(('callback_excepted', Process.current()))
        super().callback_excepted(callback, exception, trace)

    def on_except(self, exc_info):
        seen.append(('on_except', Process.current()))
        super().on_except(exc_info)


def bad():
    raise RuntimeError('scheduled callback fails')


class Scheduler(plumpy.Process):
    """Schedules the failing callback of the victim from inside its own step"""

    def __init__(self, victim):
        super().__init__()
        self.victim = victim

    async def run(self):
        self.victim.call_soon(bad)
        await asyncio.sleep(0.05)


def main():
    plumpy.set_event_loop_policy()
    loop = asyncio.get_event_loop()

    problems = []

    # 1. scheduled from plain code
    victim = Victim()
    victim.call_soon(bad)
    try:
        victim.execute()
    except RuntimeError:
        pass
    for where, current in seen:
        if current is not victim:
            problems.append(f'(scheduled from plain code) in {where}: Process.current() is {current!r}, not the victim')
    del seen[:]

    # 2. scheduled from another process's step
    victim = Victim()
    scheduler = Scheduler(victim)

    async def both():
        await asyncio.gather(victim.step_until_terminated(), scheduler.step_until_terminated())

    loop.run_until_complete(both())
    for where, current in seen:
        if current is not victim:
            problems.append(f'(scheduled from a step of {scheduler!r}) in {where}: Process.current() is {current!r}')

    if problems:
        print('C18 violated on this tree:')
        for problem in problems:
            print('  -', problem)
        return 1
    print('ok')
    return 0


if __name__ == '__main__':
    sys.exit(main())
