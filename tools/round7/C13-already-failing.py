# -*- coding: utf-8 -*-
"""Histories / inputs for which the UNCHANGED tree already violates C13
("a step's return value alone decides what happens next, with exact arguments, also across a checkpoint restore").

Run as:  PYTHONPATH=<tree>/src /venv/bin/python already-failing.py
Exits 1 and lists the violations found (4 on the unchanged tree), exits 0 if none is found.

 1. Continue(f, process=...) / run_fn=... / state_label=...  -- a keyword argument whose name is that of a parameter
    of Running.__init__ / StateMachine.create_state clashes in _action_command(): TypeError, the process ends
    EXCEPTED instead of running f(**k).
 2. Wait(f); resume(v); checkpoint; restore  -- the value handed to resume() lives only in the (unsaved) future of the
    Waiting state: a checkpoint taken after resume(v) but before the stepping coroutine consumed it restores a process
    that waits for ever, f(v) never runs.
 3. Bundle(proc) restored twice  -- load_members() hands the very objects of the bundle to the loaded state: a step
    that modifies its (mutable) argument modifies the checkpoint, so the second restore runs the step with different
    arguments than were returned in Continue(f, *a).  (InMemoryPersister copies on load, a Bundle / PicklePersister
    bundle kept by the caller does not.)
 4. Continue(self.__private_step, ...) + restore  -- states are saved with ``fn.__name__`` and loaded with
    ``getattr(process, name)``: a name-mangled method cannot be found again, the checkpoint cannot be loaded.
"""

import asyncio
import sys

import plumpy
from plumpy import Continue, Process, ProcessState, Wait
from plumpy.persistence import Bundle

plumpy.set_event_loop_policy()


class KeywordClash(Process):
    seen = None

    def run(self):
        return Continue(self.work, 1, process='silicon')

    def work(self, *args, **kwargs):
        KeywordClash.seen = (args, kwargs)
        return 'done'


class WaitForValue(Process):
    def run(self):
        return Wait(self.after)

    def after(self, *args):
        return ('after', args)


class Collect(Process):
    def run(self):
        return Continue(self.collect, [1])

    def collect(self, items):
        items.append('x')
        return list(items)


class PrivateStep(Process):
    def run(self):
        return Continue(self.__finish, 7)

    def __finish(self, number):
        return number


async def main():
    violations = []

    # 1 ----------------------------------------------------------------------------------------------------------
    proc = KeywordClash()
    await proc.step_until_terminated()
    if proc.state != ProcessState.FINISHED or KeywordClash.seen != ((1,), {'process': 'silicon'}):
        violations.append(
            f"1. Continue(f, 1, process='silicon'): state {proc.state}, f called with {KeywordClash.seen!r}, "
            f'exception {proc.exception()!r}'
        )

    # 2 ----------------------------------------------------------------------------------------------------------
    proc = WaitForValue()
    await proc.step()  # CREATED -> RUNNING
    await proc.step()  # RUNNING -> WAITING
    assert proc.state == ProcessState.WAITING
    proc.resume('value')
    restored = Bundle(proc).unbundle()
    try:
        await asyncio.wait_for(restored.step_until_terminated(), 1)
    except asyncio.TimeoutError:
        violations.append(
            f'2. Wait(f); resume(v); checkpoint; restore: the restored process is still {restored.state}, f(v) never ran'
        )
    else:
        if restored.result() != ('after', ('value',)):
            violations.append(f'2. restored process finished with {restored.result()!r}')
    await proc.step_until_terminated()
    assert proc.result() == ('after', ('value',)), proc.result()  # (the original process does get the value)

    # 3 ----------------------------------------------------------------------------------------------------------
    proc = Collect()
    await proc.step()
    await proc.step()  # now RUNNING(collect, [1])
    bundle = Bundle(proc)
    first = bundle.unbundle()
    await first.step_until_terminated()
    second = bundle.unbundle()
    await second.step_until_terminated()
    if first.result() != [1, 'x'] or second.result() != [1, 'x']:
        violations.append(
            f'3. the same checkpoint restored twice: collect([1]) gave {first.result()!r}, then {second.result()!r}'
        )

    # 4 ----------------------------------------------------------------------------------------------------------
    proc = PrivateStep()
    await proc.step()
    await proc.step()  # now RUNNING(__finish, 7)
    try:
        restored = Bundle(proc).unbundle()
        await restored.step_until_terminated()
        if restored.result() != 7:
            violations.append(f'4. restored process finished with {restored.result()!r}')
    except Exception as exc:  # noqa: BLE001
        violations.append(f'4. Continue(self.__finish, 7) + restore: {type(exc).__name__}: {exc}')

    return violations


if __name__ == '__main__':
    found = asyncio.get_event_loop().run_until_complete(main())
    if found:
        print('C13 violated on this tree:')
        for violation in found:
            print('  -', violation)
        sys.exit(1)
    print('no violation found')
    sys.exit(0)
