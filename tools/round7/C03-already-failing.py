# -*- coding: utf-8 -*-
"""Histories for which the UNCHANGED tree already violates C03 (run: PYTHONPATH=<tree>/src /venv/bin/python already-failing.py).

Exits 1 and prints one line per violation that is observed; exits 0 if none of them shows (i.e. all were fixed).

 1. StopIteration raised by a state hook (e.g. a bare ``next()`` on an exhausted iterator): ``on_except`` hands it to
    ``Future.set_exception`` which refuses it with a TypeError; that happens while the failed transition is being turned
    into EXCEPTED, so it is re-raised: stepping raises TypeError, the process is left in the state it was in.
 2. A callback scheduled with ``call_soon`` that cancels its own handle while it runs and then fails: ``cancel()`` wipes
    ``ProcessCallback._process``, so ``run()`` dies with AttributeError on ``None.callback_excepted`` in the task of the
    callback (event loop: 'Task exception was never retrieved'); the process is not failed.
 3. Re-entrant execution: a hook that runs the loop re-entrantly (``Child().execute()`` inside ``on_finish``) lets a failing
    scheduled callback of the same process run while ``_transitioning`` is set: ``fail()`` -> ``transition_to`` trips the
    ``assert not self._transitioning`` (outside the catch-all), the AssertionError escapes into the task of the callback
    and the process ends FINISHED although a scheduled callback failed while it was still live.
 4. (marginal) A WorkChain waiting for two awaitables that both fail in the same loop iteration: the second
    ``_awaitable_done`` calls ``set_exception`` on the already resolved waiting future: InvalidStateError in a loop
    callback (the work chain itself ends EXCEPTED with the first exception, as it should).
"""
import asyncio
import gc
import sys

import plumpy
from plumpy import ProcessState

FOUND = []
LOOP_ERRORS = []


def found(msg):
    FOUND.append(msg)
    print('VIOLATION:', msg)


def drain_loop_errors(label):
    gc.collect()
    for ctx in LOOP_ERRORS:
        found(f"{label}: escaped into the event loop: {ctx.get('message')}: {ctx.get('exception')!r}")
    del LOOP_ERRORS[:]


async def stepping(proc, label):
    try:
        await asyncio.wait_for(proc.step_until_terminated(), timeout=2)
    except asyncio.TimeoutError:
        pass
    except BaseException as exc:
        found(f'{label}: stepping raised {exc!r} (process left {proc.state})')


# 1 ---------------------------------------------------------------------------------------------------------------
class StopIterationInHook(plumpy.Process):
    async def run(self):
        return 1

    def on_run(self):
        super().on_run()
        next(iter(()))  # raises StopIteration


async def case_1():
    proc = StopIterationInHook()
    await stepping(proc, 'case 1')
    if proc.state != ProcessState.EXCEPTED or not isinstance(proc.exception(), StopIteration):
        found(f'case 1: process ended {proc.state} with {proc.exception()!r}, expected EXCEPTED with the StopIteration')
    drain_loop_errors('case 1')


# 2 ---------------------------------------------------------------------------------------------------------------
class SelfCancellingCallback(plumpy.Process):
    async def run(self):
        self.handle = self.call_soon(self.callback)
        return plumpy.Wait(self.second)

    def callback(self):
        self.handle.cancel()
        raise RuntimeError('callback failed after cancelling its own handle')

    def second(self):
        return 1


async def case_2():
    proc = SelfCancellingCallback()
    task = asyncio.ensure_future(stepping(proc, 'case 2'))
    await asyncio.sleep(0.1)
    if proc.state != ProcessState.EXCEPTED:
        found(f'case 2: the failing callback did not fail the process (state {proc.state})')
        proc.kill()
    await task
    await asyncio.sleep(0)
    drain_loop_errors('case 2')


# 3 ---------------------------------------------------------------------------------------------------------------
class Child(plumpy.Process):
    async def run(self):
        await asyncio.sleep(0.02)
        return 2


class ReentrantHook(plumpy.Process):
    async def run(self):
        self.call_soon(self.callback)
        return 1

    def callback(self):
        raise RuntimeError('scheduled callback failed')

    def on_finish(self, result, successful):
        super().on_finish(result, successful)
        Child().execute()  # runs the loop re-entrantly: the scheduled callback runs (and fails) in here


async def case_3():
    proc = ReentrantHook()
    await stepping(proc, 'case 3')
    await asyncio.sleep(0)
    if proc.state != ProcessState.EXCEPTED:
        found(f'case 3: process ended {proc.state}, a callback failed while it was live: expected EXCEPTED')
    drain_loop_errors('case 3')


# 4 ---------------------------------------------------------------------------------------------------------------
class FailingChild(plumpy.Process):
    async def run(self):
        raise ValueError(f'child {self.pid} failed')


class TwoFailingChildren(plumpy.WorkChain):
    @classmethod
    def define(cls, spec):
        super().define(spec)
        spec.outline(cls.first, cls.second)

    def first(self):
        return plumpy.ToContext(a=self.launch(FailingChild, pid=1), b=self.launch(FailingChild, pid=2))

    def second(self):
        pass


async def case_4():
    proc = TwoFailingChildren()
    await stepping(proc, 'case 4')
    await asyncio.sleep(0)
    if proc.state != ProcessState.EXCEPTED:
        found(f'case 4: work chain ended {proc.state}, expected EXCEPTED')
    drain_loop_errors('case 4')


async def main():
    asyncio.get_event_loop().set_exception_handler(lambda _loop, ctx: LOOP_ERRORS.append(ctx))
    for case in (case_1, case_2, case_3, case_4):
        await case()


if __name__ == '__main__':
    plumpy.set_event_loop_policy()
    asyncio.get_event_loop().run_until_complete(main())
    drain_loop_errors('at exit')
    print(f'{len(FOUND)} violation(s) observed on this tree')
    sys.exit(1 if FOUND else 0)
