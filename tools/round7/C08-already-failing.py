# -*- coding: utf-8 -*-
"""Histories / inputs for which the UNCHANGED tree does not reproduce the uninterrupted execution after a restore.

Run as ``PYTHONPATH=<tree>/src /venv/bin/python already-failing.py``: prints every case and exits 1 if any of them
diverges (which is what happens on the unchanged tree).

Every program is run one step at a time; at one step boundary it is saved to an ``InMemoryPersister`` (a ``PicklePersister``
behaves the same), the running instance is dropped and the checkpoint is loaded and continued in a fresh event loop.
"""

import asyncio
import sys

import plumpy


def fresh_loop():
    loop = asyncio.new_event_loop()
    asyncio.set_event_loop(loop)
    return loop


def describe(proc):
    info = {'state': proc.state.value, 'outputs': dict(proc.outputs)}
    if hasattr(proc, 'ctx'):
        info['ctx'] = dict(proc.ctx.__dict__)
    if proc.state == plumpy.ProcessState.FINISHED:
        info['result'] = proc.result()
    elif proc.state == plumpy.ProcessState.EXCEPTED:
        info['exception'] = repr(proc.exception())
    return info


def run(proc_class, crash_point=None):
    loop = fresh_loop()
    proc = proc_class(loop=loop)
    persister = plumpy.InMemoryPersister()
    boundary = 0
    while not proc.has_terminated():
        if boundary == crash_point:
            persister.save_checkpoint(proc)
            pid = proc.pid
            del proc
            loop.close()
            loop = fresh_loop()
            proc = persister.load_checkpoint(pid).unbundle(plumpy.LoadSaveContext(loop=loop))
        loop.run_until_complete(proc.step())
        boundary += 1
    info = describe(proc)
    loop.close()
    return info, boundary


# 1. An object shared by the context and the outputs is two objects after a restore ------------------------------------
class SharedWithOutputs(plumpy.WorkChain):
    """Emits a list kept in the context as an output and keeps filling it: outputs and context are saved by separate copies"""

    @classmethod
    def define(cls, spec):
        super().define(spec)
        spec.outputs.dynamic = True
        spec.outline(cls.start, cls.fill, cls.fill)

    def start(self):
        self.ctx.items = []
        self.out('items', self.ctx.items)

    def fill(self):
        self.ctx.items.append(len(self.ctx.items))


# 2. A continuation / outline step whose name is mangled (``__private``) cannot be rebound by name ---------------------
class PrivateContinuation(plumpy.Process):
    @classmethod
    def define(cls, spec):
        super().define(spec)
        spec.outputs.dynamic = True

    def run(self):
        self.out('a', 1)
        return plumpy.Continue(self.__second)

    def __second(self):
        self.out('b', 2)
        return 'done'


class PrivateOutlineStep(plumpy.WorkChain):
    @classmethod
    def define(cls, spec):
        super().define(spec)
        spec.outline(cls.first, cls.__second)

    def first(self):
        self.ctx.trace = ['first']

    def __second(self):
        self.ctx.trace.append('second')


# 3. ``Process.uuid`` is public but not part of the saved state ----------------------------------------------------------
class UsesUuid(plumpy.Process):
    @classmethod
    def define(cls, spec):
        super().define(spec)
        spec.outputs.dynamic = True

    def run(self):
        self.out('has_uuid', self.uuid is not None)
        return plumpy.Continue(self.again)

    def again(self):
        self.out('still_has_uuid', self.uuid is not None)


# 4. An outline that names the step of a base class runs that function, a restored one runs the override ---------------
class Base(plumpy.WorkChain):
    @classmethod
    def define(cls, spec):
        super().define(spec)
        spec.outline(Base.prepare, Base.work, Base.work)

    def prepare(self):
        self.ctx.trace = []

    def work(self):
        self.ctx.trace.append('Base.work')


class Derived(Base):
    def work(self):
        self.ctx.trace.append('Derived.work')


def main():
    diverging = 0
    for proc_class in (SharedWithOutputs, PrivateContinuation, PrivateOutlineStep, UsesUuid, Derived):
        reference, boundaries = run(proc_class)
        print(f'{proc_class.__name__}: uninterrupted -> {reference}')
        for crash_point in range(boundaries):
            try:
                got, _ = run(proc_class, crash_point)
            except Exception as exception:  # noqa: BLE001
                got = {'raised': repr(exception)}
            if got != reference:
                diverging += 1
                print(f'    crash at step boundary {crash_point} -> {got}')
    print(f'{diverging} diverging crash schedules')
    return 1 if diverging else 0


if __name__ == '__main__':
    sys.exit(main())
