# -*- coding: utf-8 -*-
"""Unchanged tree: a process that excepted with an exception whose constructor takes other arguments than what ends up
in ``args`` can be saved (``Bundle(proc)`` succeeds: the state stores ``yaml.dump(exception)``), but the bundle cannot
be loaded again: ``Excepted.load_instance_state`` rebuilds the exception with ``yaml.load`` as ``cls(*args)``.

Exits 1 when the saved process cannot be loaded (the violation), 0 when the round trip works.
"""

import asyncio
import sys
import warnings

import plumpy

warnings.simplefilter('ignore')


class StepFailed(Exception):
    def __init__(self, step, reason):
        super().__init__(f'step {step} failed: {reason}')
        self.step = step
        self.reason = reason


class Failing(plumpy.Process):
    async def run(self):
        raise StepFailed('relax', 'did not converge')


def main():
    loop = asyncio.new_event_loop()
    asyncio.set_event_loop(loop)
    proc = Failing()
    loop.run_until_complete(proc.step_until_terminated())
    assert proc.state == plumpy.ProcessState.EXCEPTED and isinstance(proc.exception(), StepFailed)

    bundle = plumpy.Bundle(proc)  # saving works
    print('saved: state', bundle['_state']['!!meta']['class_name'])
    try:
        loaded = bundle.unbundle(plumpy.LoadSaveContext(loop=loop))
    except Exception as exception:
        print(f'the saved process cannot be loaded: {type(exception).__name__}: {str(exception).splitlines()[0]}')
        return 1

    print('loaded:', loaded.state, repr(loaded.exception()))
    return 0


if __name__ == '__main__':
    sys.exit(main())
