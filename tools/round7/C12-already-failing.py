"""Histories / inputs for which the UNCHANGED tree already violates C12 (exit 1 if any of them reproduces)."""
import sys

import plumpy
from plumpy import Process, ProcessState

found = []


# 1. The "unspecified" sentinel of plumpy.ports is the empty tuple, and `() is ()` in CPython: an emitted `()` is
#    taken for "no value" by Port.validate, so type and validator are skipped.  It is stored, and at the end it is
#    again taken for "missing": a non-required int port holds `()` in a successful process.
class EmptyTuple(Process):
    @classmethod
    def define(cls, spec):
        super().define(spec)
        spec.output('count', valid_type=int, required=False, validator=lambda v, p: 'never acceptable')

    def run(self):
        self.out('count', ())


proc = EmptyTuple()
proc.execute()
if proc.state == ProcessState.FINISHED and proc.is_successful and proc.outputs == {'count': ()}:
    found.append(f"1. out('count', ()) accepted on an int port whose validator rejects everything; successful, outputs {proc.outputs}")


# 2. out() on a nested path creates the intermediate namespaces in the (class level, sealed) spec *before* the value
#    is validated, and keeps them.  (a) a rejected emission changes what is accepted afterwards, (b) so does what
#    another instance of the class emitted, (c) a value that was accepted and stored makes the process unsuccessful.
def make():
    class Dyn(Process):
        @classmethod
        def define(cls, spec):
            super().define(spec)
            spec.input('mode', valid_type=str)
            spec.output_namespace('dyn', valid_type=int, dynamic=True)

        def run(self):
            mode = self.inputs.mode
            if mode == 'a':
                try:
                    self.out('dyn.sub.x', 'not an int')  # rejected
                except ValueError:
                    pass
                self.out('dyn.sub', 5)  # an int in the dynamic int namespace
            elif mode == 'b1':
                self.out('dyn.sub.x', 1)
            elif mode == 'b2':
                self.out('dyn.sub', 5)
            elif mode == 'c':
                self.out('dyn.sub', 5)  # accepted and stored
                try:
                    self.out('dyn.sub.x', 6)
                except TypeError:
                    pass

    return Dyn


reference = make()(inputs={'mode': 'b2'})
reference.execute()
assert reference.is_successful and reference.outputs == {'dyn': {'sub': 5}}

proc = make()(inputs={'mode': 'a'})
try:
    proc.execute()
except ValueError as exc:
    found.append(f"2a. out('dyn.sub', 5) raises after a *rejected* out('dyn.sub.x', 'not an int'): {exc}")

cls = make()
cls(inputs={'mode': 'b1'}).execute()
proc = cls(inputs={'mode': 'b2'})
try:
    proc.execute()
except ValueError as exc:
    found.append(f"2b. out('dyn.sub', 5) raises because another instance emitted 'dyn.sub.x' before: {exc}")

proc = make()(inputs={'mode': 'c'})
proc.execute()
if proc.outputs == {'dyn': {'sub': 5}} and not proc.is_successful:
    found.append(f'2c. outputs {proc.outputs} (accepted by out()) but the process is unsuccessful')


# 3. In out() the port's validation runs inside the `try` whose `except KeyError` means "no such port": a validator
#    that raises KeyError (e.g. indexing a malformed value) is taken for that, and the value is then only checked
#    against the dynamic rules of the namespace: stored, and reported to listeners as a dynamic output.
def needs_energy(value, port):
    if value['energy'] > 0:
        return 'energy must be negative'


class Swallow(Process):
    @classmethod
    def define(cls, spec):
        super().define(spec)
        spec.outputs.dynamic = True
        spec.output('result', valid_type=dict, validator=needs_energy)

    def run(self):
        self.out('result', {'forces': []})
        self.stored = dict(self.outputs)


proc = Swallow()
try:
    proc.execute()
except KeyError:
    pass
if getattr(proc, 'stored', None) == {'result': {'forces': []}}:
    found.append(f"3. out('result', {{'forces': []}}) stored although the port validator raised KeyError; final state {proc.state}")

for line in found:
    print(line)
sys.exit(1 if found else 0)
