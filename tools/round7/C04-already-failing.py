# -*- coding: utf-8 -*-
"""Histories for which the UNCHANGED tree violates C04 (run: PYTHONPATH=<tree>/src /venv/bin/python already-failing.py;
exits 1 when at least one violation is observed, which is the case on the unchanged tree).

H1 (clearest, control requests only): inside one step a kill is requested and withdrawn (its action cancelled), then the
   future of the process is cancelled.  ``Process.step`` honours a cancelled future only ``if ... not self._killing``,
   but the withdrawn action is still sitting in ``_killing`` (it is only forgotten lazily, by the next kill()/pause()):
   the step goes on to FINISHED with a cancelled future, ``on_finish`` fails with InvalidStateError and the process ends
   EXCEPTED although its step did not fail.  Expected: KILLED ('Killed by future being cancelled').
   Candidate fix: call ``self._forget_withdrawn_requests()`` before that check in step().

H2 (state-event callback instead of a ProcessListener): kill() issued from an EXITING_STATE callback while the step
   transitions RUNNING -> FINISHED: the action is created, the transition completes, the "newer requests" loop stops
   because the process has terminated and the action is cancelled: the process ends FINISHED, the kill is lost.

H3 (re-entrant): kill() issued from an EXITING_STATE callback (or an on_exit_* hook) during the transition of a kill
   of a process that is not being stepped: the inner kill() raises AssertionError ('Cannot call transition_to when
   already transitioning state'), which fails the outer transition: the process ends EXCEPTED, outer kill() -> False.
"""
import sys

from plumpy import Process, ProcessState
from plumpy.base.state_machine import StateEventHook

violations = []


class WithdrawThenCancel(Process):
    def run(self):
        request = self.kill('first')
        request.cancel()  # withdrawn by its requester
        self.future().cancel()  # same effect as kill(), says C04


proc = WithdrawThenCancel()
try:
    proc.execute()
except BaseException as exc:  # noqa: BLE001
    print('H1 execute() raised', type(exc).__name__, exc)
print('H1 final state:', proc.state)
if proc.state != ProcessState.KILLED:
    violations.append('H1')


class Plain(Process):
    def run(self):
        return 5


seen = {}
proc = Plain()


def kill_on_exit_running(process, _hook, _state):
    if process.state == ProcessState.RUNNING:
        seen['request'] = process.kill('from exiting callback')


proc.add_state_event_callback(StateEventHook.EXITING_STATE, kill_on_exit_running)
try:
    proc.execute()
except BaseException as exc:  # noqa: BLE001
    print('H2 execute() raised', type(exc).__name__, exc)
print('H2 final state:', proc.state, 'kill request:', seen.get('request'))
if proc.state != ProcessState.KILLED:
    violations.append('H2')


proc = Plain()


def kill_again(process, _hook, _state):
    try:
        seen['inner'] = process.kill('again')
    except BaseException as exc:  # noqa: BLE001
        seen['inner'] = f'RAISED {type(exc).__name__}: {exc}'
        raise


proc.add_state_event_callback(StateEventHook.EXITING_STATE, kill_again)
try:
    outer = proc.kill('direct')
except BaseException as exc:  # noqa: BLE001
    outer = f'RAISED {type(exc).__name__}: {exc}'
print('H3 outer kill():', outer, '| inner kill():', seen.get('inner'), '| final state:', proc.state)
if proc.state != ProcessState.KILLED:
    violations.append('H3')

if violations:
    print('C04 violated on this tree by:', ', '.join(violations))
    sys.exit(1)
print('no violation')
