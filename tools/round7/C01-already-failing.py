"""UNCHANGED tree: a communicator that was closed while the process runs makes FINISHED -> EXCEPTED.

`Process.on_entered` broadcasts the state change *after* the new state has been entered and only tolerates
`ConnectionClosed`, `ChannelInvalidStateError` and `kiwipy.TimeoutError`.  A closed kiwipy communicator raises
`kiwipy.CommunicatorClosed` from `broadcast_send` (that is what `RmqThreadCommunicator` does after `close()`), which is
none of the three.  The exception escapes from the ENTERED hook of the FINISHED state, `transition_to` hands it to
`transition_failed`, whose terminal guard only looks at the state the transition *started* from (RUNNING), so the
process that has already entered FINISHED (listeners were told, the future carries the outputs) is moved on to EXCEPTED.
No lifecycle hook of the process raises; the fault is the communicator being closed at a particular point.
"""
import asyncio
import sys

import kiwipy

import plumpy
from plumpy import ProcessState


class Comm:
    """Minimal in-memory communicator that can be closed"""

    def __init__(self):
        self.closed = False
        self.sent = []

    def add_rpc_subscriber(self, subscriber, identifier=None):
        return identifier

    def remove_rpc_subscriber(self, identifier):
        pass

    def add_broadcast_subscriber(self, subscriber, identifier=None):
        return identifier

    def remove_broadcast_subscriber(self, identifier):
        pass

    def broadcast_send(self, body, sender=None, subject=None, correlation_id=None):
        if self.closed:
            raise kiwipy.CommunicatorClosed()
        self.sent.append(subject)
        return True


class Proc(plumpy.Process):
    async def run(self):
        await asyncio.sleep(0)
        return 5


class Recorder(plumpy.ProcessListener):
    def __init__(self):
        super().__init__()
        self.seen = []

    def on_process_finished(self, process, outputs):
        self.seen.append(('finished', process.state))

    def on_process_excepted(self, process, reason):
        self.seen.append(('excepted', process.state))


def main():
    plumpy.set_event_loop_policy()
    loop = asyncio.get_event_loop()
    comm = Comm()
    proc = Proc(communicator=comm, loop=loop)
    recorder = Recorder()
    proc.add_process_listener(recorder)

    async def drive():
        await proc.step()  # CREATED -> RUNNING
        comm.closed = True  # the communicator is closed while the process is running
        try:
            await proc.step_until_terminated()
        except Exception as exc:  # noqa
            print('stepping raised', type(exc).__name__, exc)

    loop.run_until_complete(drive())
    print('listener saw   :', recorder.seen)
    print('final state    :', proc.state)
    if ('finished', ProcessState.FINISHED) in recorder.seen and proc.state != ProcessState.FINISHED:
        print('VIOLATION: FINISHED was entered and then left for', proc.state)
        return 1
    return 0


if __name__ == '__main__':
    sys.exit(main())
