# -*- coding: utf-8 -*-
"""
Candidate violation on the UNCHANGED tree (borderline: it needs a second PicklePersister whose directory lies inside the
directory of the first one).

PicklePersister.get_checkpoints walks the directory tree with os.walk, so it also visits sub-directories, but joins every
file name it finds with the TOP directory.  A pickle stored by another persister in a sub-directory is therefore
  * listed a second time by the outer persister when the outer one holds the same key (the listing is not "exactly the
    keys currently stored": it has a duplicate, and deleting the key from the outer persister ... still lists it once), or
  * makes the listing (and with it get_process_checkpoints / delete_process_checkpoints) of the outer persister raise
    FileNotFoundError when the outer one does not hold that key.
The in-memory persister has no counterpart of this, so the two are not observationally equivalent here.

(Also seen, not shown: loading a key that is not stored raises KeyError from the in-memory persister and
FileNotFoundError from the pickle persister; the Persister docstring promises a PersistenceError.)

Exits 1 when the misbehaviour is observed, 0 otherwise.
"""
import os
import sys
import tempfile

import plumpy


class DemoProcess(plumpy.Process):
    def run(self):
        pass


def main():
    problems = []
    with tempfile.TemporaryDirectory() as directory:
        outer = plumpy.PicklePersister(directory)
        inner = plumpy.PicklePersister(os.path.join(directory, 'archive'))

        proc_1 = DemoProcess(pid=1)

        outer.save_checkpoint(proc_1, 5)
        inner.save_checkpoint(proc_1, 5)
        listing = outer.get_checkpoints()
        if sorted(listing) != [(1, 5)]:
            problems.append(f'outer persister holds exactly (1, 5) but lists {listing}')

        outer.delete_checkpoint(1, 5)
        try:
            listing = outer.get_checkpoints()
        except Exception as exception:
            problems.append(f'outer persister holds nothing (its only key was deleted) but listing raised {exception!r}')
        else:
            if listing:
                problems.append(f'outer persister holds nothing but lists {listing}')

    with tempfile.TemporaryDirectory() as directory:
        outer = plumpy.PicklePersister(directory)
        inner = plumpy.PicklePersister(os.path.join(directory, 'archive'))
        outer.save_checkpoint(DemoProcess(pid=1), 5)
        inner.save_checkpoint(DemoProcess(pid=2), 5)
        for what, call in (
            ('get_checkpoints()', lambda: outer.get_checkpoints()),
            ('delete_process_checkpoints(1)', lambda: outer.delete_process_checkpoints(1)),
        ):
            try:
                call()
            except Exception as exception:
                problems.append(f'outer persister: {what} raised {exception!r}')

    if problems:
        print('misbehaviour on the unchanged tree:')
        for problem in problems:
            print('  -', problem)
        return 1
    print('ok')
    return 0


if __name__ == '__main__':
    sys.exit(main())
