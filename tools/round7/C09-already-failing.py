"""UNCHANGED tree: a checkpoint taken while an ``elif_`` predicate is being evaluated is loaded into the wrong branch.

``_IfStepper.step`` advances the persisted ``_pos`` while it walks over the predicates, but always walks over *all*
conditionals from the first one.  A checkpoint saved from inside the 2nd (3rd, ...) predicate therefore stores
``_pos`` = 1 (2, ...) with no child stepper; the loaded chain re-evaluates the predicates from the first one while
counting on from the stored ``_pos``, so it ends up one (or more) branch too far: it runs the ``else_`` body although
the ``elif_`` predicate is true (or skips the ``if_`` altogether when there is no later branch).

Saving a checkpoint from inside a step/predicate is what e.g. tests/test_workchains.py::test_listener_persistence does.
"""
import sys

import plumpy
from plumpy import WorkChain, if_

persister = plumpy.InMemoryPersister()
LOG = []


class Chain(WorkChain):
    @classmethod
    def define(cls, spec):
        super().define(spec)
        spec.outline(
            cls.first,
            if_(cls.p_if)(cls.in_if).elif_(cls.p_elif)(cls.in_elif).else_(cls.in_else),
            cls.last,
        )

    def first(self):
        LOG.append('first')

    def p_if(self):
        LOG.append('p_if=False')
        return False

    def p_elif(self):
        LOG.append('p_elif=True')
        if not getattr(self, 'loaded_copy', False):
            persister.save_checkpoint(self, 'in-predicate')
        return True

    def in_if(self):
        LOG.append('in_if')

    def in_elif(self):
        LOG.append('in_elif')

    def in_else(self):
        LOG.append('in_else')

    def last(self):
        LOG.append('last')
        return 'done'


def main():
    chain = Chain()
    chain.execute()
    original = list(LOG)
    expected = ['first', 'p_if=False', 'p_elif=True', 'in_elif', 'last']
    if original != expected:
        print('original run wrong:', original)
        return 1

    del LOG[:]
    loaded = persister.load_checkpoint(chain.pid, 'in-predicate').unbundle()
    loaded.loaded_copy = True
    loaded.execute()
    # The loaded chain is in the RUNNING state that evaluates the if_: it must evaluate the predicates (again) and take
    # the elif_ branch, whose predicate is the first true one
    expected_loaded = ['p_if=False', 'p_elif=True', 'in_elif', 'last']
    if LOG != expected_loaded:
        print('VIOLATION (unchanged tree): loaded chain called', LOG, 'expected', expected_loaded)
        return 1
    print('ok')
    return 0


# --- second case ---------------------------------------------------------------------------------------------------
# A checkpoint taken while the chain LEAVES the RUNNING state of a step that stops it (``on_exit_running`` hook): the
# stepper has already advanced, the saved state is still that RUNNING state, and the ``Stop`` command the step produced
# is not part of it (``Running._command``, for which save/load support exists, is never set).  The loaded chain calls
# ``_do_step`` again: it goes on with the step after the one that stopped the chain and the result is lost.
LOG2 = []


class StopChain(WorkChain):
    @classmethod
    def define(cls, spec):
        super().define(spec)
        spec.outline(cls.a, cls.b, cls.c)

    def a(self):
        LOG2.append('a')

    def b(self):
        LOG2.append('b')
        return 7  # stops the chain

    def c(self):
        LOG2.append('c')

    def on_exit_running(self):
        super().on_exit_running()
        if not getattr(self, 'loaded_copy', False):
            persister.save_checkpoint(self, f'leaving-{LOG2[-1]}')


def main2():
    chain = StopChain()
    chain.execute()
    if LOG2 != ['a', 'b'] or chain.result() != 7:
        print('original run wrong:', LOG2, chain.result())
        return 1
    del LOG2[:]
    loaded = persister.load_checkpoint(chain.pid, 'leaving-b').unbundle()
    loaded.loaded_copy = True
    loaded.execute()
    if LOG2 != [] or loaded.result() != 7:
        print(f'VIOLATION 2 (unchanged tree): chain loaded from the checkpoint taken while leaving step b (which returned 7) '
              f'called {LOG2} and has result {loaded.result()!r}; expected no further call and result 7')
        return 1
    print('ok (2)')
    return 0


if __name__ == '__main__':
    first = main()
    second = main2()
    sys.exit(first or second)
