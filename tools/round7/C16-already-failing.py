# -*- coding: utf-8 -*-
"""C16, UNCHANGED tree: the chain of `state_changed.<from>.<to>` announcements has a gap when an "entered" hook fails.

`Process.on_entered` first calls the hook of the new state (`on_running`, `on_waiting`, ... which subclasses override,
calling super) and only then broadcasts.  When such a hook raises, the state machine has already switched to the new
state; `transition_failed` then moves the process on to EXCEPTED and *that* transition is announced with the new state as
its origin:  `state_changed.None.created`, `state_changed.running.excepted`  -- `created -> running` was never announced,
yet the next announcement says the process came from `running` (and `process.state` was observably RUNNING in between).
A subscriber that follows the announcements sees a transition out of a state the process never announced entering.

(Debatable whether `created -> running` counts as a "completed" transition; either that one is missing or the origin of
the following one is wrong.  Candidate fix: broadcast before/independently of the hooks (try/finally), or let
`transition_failed` announce with the state the failed transition started from.)

Run: PYTHONPATH=<tree>/src /venv/bin/python already-failing.py   -> exit 1 and the broken chain, on the unchanged tree
"""

import asyncio
import logging
import sys

import plumpy

logging.getLogger('plumpy').setLevel(logging.CRITICAL)


class StubCommunicator:
    def __init__(self):
        self.rpc, self.broadcast, self.sent = {}, {}, []

    def add_rpc_subscriber(self, subscriber, identifier=None):
        self.rpc[identifier] = subscriber
        return identifier

    def remove_rpc_subscriber(self, identifier):
        del self.rpc[identifier]

    def add_broadcast_subscriber(self, subscriber, identifier=None):
        self.broadcast[identifier] = subscriber
        return identifier

    def remove_broadcast_subscriber(self, identifier):
        del self.broadcast[identifier]

    def broadcast_send(self, body, sender=None, subject=None, correlation_id=None):
        self.sent.append((sender, subject))
        for subscriber in list(self.broadcast.values()):
            subscriber(self, body, sender, subject, correlation_id)
        return True


class FailsOnRunning(plumpy.Process):
    def on_running(self):
        super().on_running()
        raise RuntimeError('the on_running hook of the subclass fails')

    async def run(self):
        return 1


class FailsOnWaiting(plumpy.Process):
    def on_waiting(self):
        super().on_waiting()
        raise RuntimeError('the on_waiting hook of the subclass fails')

    async def run(self):
        return plumpy.Wait(self.after, 'waiting')

    async def after(self):
        return 1


def main():
    loop = asyncio.new_event_loop()
    asyncio.set_event_loop(loop)
    status = 0
    for cls in (FailsOnRunning, FailsOnWaiting):
        comm = StubCommunicator()
        proc = cls(pid='p', communicator=comm, loop=loop)
        try:
            loop.run_until_complete(asyncio.wait_for(proc.step_until_terminated(), 5))
        except Exception as exception:
            print(f'{cls.__name__}: step_until_terminated raised {exception!r}')
        subjects = [subject for _, subject in comm.sent]
        print(f'{cls.__name__}: final state {proc.state}; announced {subjects}')
        previous = 'None'
        for subject in subjects:
            _, origin, target = subject.split('.')
            if origin != previous:
                print(f'  BROKEN CHAIN: {subject!r} follows an announcement that ended in {previous!r}')
                status = 1
            previous = target
    return status


if __name__ == '__main__':
    sys.exit(main())
