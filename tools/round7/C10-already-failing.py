# -*- coding: utf-8 -*-
"""UNCHANGED tree: an awaited child that FAILS does not except the workchain when the failure happens in a hook that
runs after ``on_finish`` (here ``on_finished``; the same goes for an ENTERED_STATE callback, a communicator whose
broadcast of the state change raises, or ``on_terminated``).

Mechanism: ``Process.on_finish`` resolves the process future with the outputs while FINISHED is being *entered*.  When a
later hook of the same transition raises, ``transition_failed`` takes the child to EXCEPTED and ``on_except`` REPLACES
the (already done) future by a new one carrying the exception.  The workchain resolved ``child.future()`` when the child
was handed to the context, i.e. it holds the old future, which says "success": the barrier opens, the next step runs and
the workchain FINISHES although the awaited item ended EXCEPTED.

Statement violated: "If an awaited item fails ... the workchain ends EXCEPTED with that error and the following step
never runs."

Exit code 1 when the violation shows (it does on the unchanged tree), 0 otherwise.
"""
import sys

import plumpy
from plumpy import ToContext, WorkChain

RAN = []


class Child(plumpy.Process):
    @classmethod
    def define(cls, spec):
        super().define(spec)
        spec.outputs.dynamic = True

    async def run(self):
        self.out('v', 1)

    def on_finished(self):
        super().on_finished()
        raise RuntimeError('hook failed')


class Wc(WorkChain):
    @classmethod
    def define(cls, spec):
        super().define(spec)
        spec.outline(cls.s1, cls.s2)

    def s1(self):
        self.child = self.launch(Child)
        return ToContext(a=self.child)

    def s2(self):
        RAN.append(self.ctx.a)


wc = Wc()
try:
    wc.execute()
except Exception as exc:
    print('workchain raised', repr(exc))

print('child:', wc.child.state, repr(wc.child.exception()))
print('workchain:', wc.state, '; following step ran with:', RAN)
if wc.child.state == plumpy.ProcessState.EXCEPTED and (wc.state != plumpy.ProcessState.EXCEPTED or RAN):
    print('VIOLATION: the awaited child ended EXCEPTED, yet the following step ran / the workchain did not except')
    sys.exit(1)
sys.exit(0)
