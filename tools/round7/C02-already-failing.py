# -*- coding: utf-8 -*-
"""Histories for which the UNCHANGED tree violates the C02 statement.  Exits 1 listing the violations found.

1. close() on a live process (documented as "this process should not be ran anymore ... the state of the process will
   still be accessible", safe to call), followed by kill(): on_close dropped the state event hooks, so the KILLED state
   is entered without on_kill/on_killed -- state and killed_msg() say KILLED, but the future stays pending for ever and
   the listeners get no terminal notification.
2. a cleanup that (directly or indirectly) calls close() on its process: ``_closed`` is only set once all cleanups ran,
   so the nested close() runs every registered cleanup again -- cleanups do not run exactly once.
3. a communicator whose broadcast_send raises something other than the three exception types caught in on_entered
   (e.g. kiwipy.CommunicatorClosed after the communicator was shut down) on the terminal state change: the listeners
   were already told FINISHED, then the process is turned EXCEPTED and they are told again; the future first resolved
   to the outputs is replaced by one that raises.
"""

import sys

import kiwipy

import plumpy


class Recorder(plumpy.ProcessListener):
    def __init__(self):
        super().__init__()
        self.events = []

    def on_process_finished(self, process, outputs):
        self.events.append('finished')

    def on_process_excepted(self, process, reason):
        self.events.append('excepted')

    def on_process_killed(self, process, msg):
        self.events.append('killed')


class Waits(plumpy.Process):
    async def run(self):
        return plumpy.Wait(self.done)

    def done(self):
        return 5


class Quick(plumpy.Process):
    async def run(self):
        return 3


class ClosedCommunicator:
    """The communicator has been shut down: sending raises"""

    def add_rpc_subscriber(self, *args, **kwargs):
        return 'rpc'

    def add_broadcast_subscriber(self, *args, **kwargs):
        return 'broadcast'

    def remove_rpc_subscriber(self, *args):
        pass

    def remove_broadcast_subscriber(self, *args):
        pass

    def broadcast_send(self, body=None, sender=None, subject=None, correlation_id=None):
        if subject.endswith('finished'):
            raise kiwipy.CommunicatorClosed()
        return True


def main() -> int:
    violations = []

    # 1. close, then kill
    proc = Waits()
    recorder = Recorder()
    proc.add_process_listener(recorder)
    proc.close()
    outcome = proc.kill('stop it')
    if proc.state == plumpy.ProcessState.KILLED and proc.killed_msg()['message'] == 'stop it':
        if not proc.future().done():
            violations.append(f'1: kill() -> {outcome}, state KILLED, but the future is still pending')
        if recorder.events != ['killed']:
            violations.append(f'1: state KILLED, terminal notifications received by the listener: {recorder.events}')

    # 2. a cleanup closing its own process
    proc = Waits()
    calls = []

    def cleanup():
        calls.append(1)
        if len(calls) < 4:
            proc.close()

    proc.add_cleanup(cleanup)
    proc.kill('bye')
    if len(calls) != 1:
        violations.append(f'2: the registered cleanup ran {len(calls)} times')

    # 3. communicator failing on the terminal broadcast
    proc = Quick(communicator=ClosedCommunicator())
    recorder = Recorder()
    proc.add_process_listener(recorder)
    try:
        proc.execute()
    except Exception:
        pass
    if len(recorder.events) != 1:
        violations.append(f'3: process ended {proc.state}, terminal notifications received: {recorder.events}')

    for violation in violations:
        print('VIOLATION', violation)
    return 1 if violations else 0


if __name__ == '__main__':
    sys.exit(main())
