# -*- coding: utf-8 -*-
"""C05 on the UNCHANGED tree: a process bound to an event loop of its own (``Process(loop=...)``) that is paused while
that loop is not the running one (here: before it is started, from plain synchronous code) cannot be stepped any more.

``on_paused`` creates the future that represents the pause with ``persistence.SavableFuture()``, i.e. on the thread's
default loop, not on the loop of the process (the same mistake that commit 3de8232 fixed for the future of the waiting
state).  ``Process.step`` then awaits that future from a task of the process' loop and asyncio refuses:

    RuntimeError: Task ... got Future <SavableFuture pending> attached to a different loop

so instead of "nothing runs until play(), then the run is that of the uninterrupted process", ``step_until_terminated``
raises and the process never runs, whether or not it is played.

Candidate fix: ``self._paused = persistence.SavableFuture(loop=self._loop)`` in ``Process.on_paused``.

Exit status 0: pause/play was transparent, 1: violated (what happens on the unchanged tree).
"""

import asyncio
import sys

import plumpy


class Prog(plumpy.Process):
    def run(self):
        return 5


def main():
    loop = asyncio.new_event_loop()

    # uninterrupted run on a loop of its own: fine
    ref = Prog(loop=loop)
    loop.run_until_complete(ref.step_until_terminated())
    assert ref.result() == 5

    proc = Prog(loop=loop)
    proc.set_status('queued')
    assert proc.pause('hold on') is True and proc.paused

    async def drive():
        task = loop.create_task(proc.step_until_terminated())
        for _ in range(3):
            await asyncio.sleep(0)
        if task.done():
            # (the stepping coroutine must be blocked, waiting for play())
            return f'step_until_terminated() ended while the process is paused: {task.exception()!r}'
        proc.play()
        if proc.paused or proc.status != 'queued':
            return f'after play(): paused={proc.paused} status={proc.status!r}'
        await task
        return None

    try:
        problem = loop.run_until_complete(drive())
    except Exception as exc:
        problem = f'stepping the paused process raised {type(exc).__name__}: {exc}'

    if problem is None and (proc.state != plumpy.ProcessState.FINISHED or proc.result() != 5):
        problem = f'final state {proc.state}'

    if problem:
        print('PROPERTY VIOLATED (unchanged tree):', problem)
        return 1
    print('ok')
    return 0


if __name__ == '__main__':
    sys.exit(main())
