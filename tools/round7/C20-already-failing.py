# -*- coding: utf-8 -*-
"""Inputs for which the UNCHANGED tree already departs from the statement of C20 (exit 1 = violation shown).

1. ``unwrap_kiwi_future`` and "to any depth": the unwrapping recurses once per level when the levels are already
   resolved (``add_done_callback`` of a finished concurrent future calls back at once), two Python frames per level.
   A chain of some 500+ already resolved futures ends with ``RecursionError`` instead of the innermost value.
   (The same chain resolved one level at a time, outermost first, is unwrapped correctly: it is the order that matters.)

2. ``CancellableAction.run`` and "reports its outcome through itself": an action function failing with
   ``StopIteration`` (an ``Exception``) cannot be stored in an ``asyncio.Future``: ``run()`` raises ``TypeError`` to its
   caller and the action stays pending for ever (a second ``run()`` then "runs" ``None``: TypeError stored).
"""

import asyncio
import sys

import kiwipy

from plumpy import futures

violations = []

# 1 -------------------------------------------------------------------------------------------------------------------
DEPTH = 600
inner = kiwipy.Future()
inner.set_result('value')
for _ in range(DEPTH):
    outer = kiwipy.Future()
    outer.set_result(inner)
    inner = outer

import logging

logging.getLogger('concurrent.futures').setLevel(logging.CRITICAL)  # (the failing callbacks are logged at length)
unwrapped = futures.unwrap_kiwi_future(inner)
if not unwrapped.done():
    violations.append(f'depth {DEPTH}: unwrapping future left pending')
elif unwrapped.cancelled() or unwrapped.exception() is not None:
    violations.append(f'depth {DEPTH}: ended with {unwrapped.exception()!r} instead of the innermost value')
elif unwrapped.result() != 'value':
    violations.append(f'depth {DEPTH}: ended with {unwrapped.result()!r}')

# same depth, resolved outermost first one level at a time: fine
chain = [kiwipy.Future() for _ in range(DEPTH + 1)]
unwrapped2 = futures.unwrap_kiwi_future(chain[0])
for level in range(DEPTH):
    chain[level].set_result(chain[level + 1])
chain[DEPTH].set_result('value')
assert unwrapped2.result(timeout=1) == 'value'

# 2 -------------------------------------------------------------------------------------------------------------------
loop = asyncio.new_event_loop()
asyncio.set_event_loop(loop)


def action_function():
    raise StopIteration('no more')


action = futures.CancellableAction(action_function)
try:
    action.run()
except TypeError as exception:
    violations.append(f'CancellableAction.run() raised {exception!r} to its caller; action done: {action.done()}')
else:
    if not action.done():
        violations.append('CancellableAction left pending after run()')
loop.close()

for violation in violations:
    print('VIOLATION:', violation)
sys.exit(1 if violations else 0)
