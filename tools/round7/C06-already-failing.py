# -*- coding: utf-8 -*-
"""Histories for which the UNCHANGED tree already violates C06 (exit 1 = violation shown).

1. The task stepping a *paused* waiting process is cancelled (e.g. a timeout around ``step_until_terminated``).  asyncio
   cancels the future the task is blocked on, which here is ``Process._paused`` (the counterpart of the waiting future that
   commit a32554c re-arms).  The process still reports ``paused``; a new ``step_until_terminated()`` started while it is
   paused awaits the cancelled future and dies at once with ``CancelledError`` although nobody cancelled *it*.  After
   ``resume(v)`` and ``play()`` the process is resumed and playing, but nothing steps it: it stays WAITING.

2. (weaker, possibly by design) A process that was resumed with a value while paused is checkpointed: the wake-up lives
   only in the run-time ``_waiting_future``, so the process loaded from that checkpoint waits forever after ``play()``.
"""

import asyncio
import sys

import plumpy


class WaitProcess(plumpy.Process):
    delivered = ()  # (a process loaded from a checkpoint is not constructed)

    def run(self):
        return plumpy.Wait(self.continuation)

    def continuation(self, *values):
        self.delivered = [*self.delivered, values]


async def spin(condition, turns=200):
    for _ in range(turns):
        if condition():
            return True
        await asyncio.sleep(0)
    return condition()


async def paused_waiting_process():
    proc = WaitProcess()
    task = asyncio.ensure_future(proc.step_until_terminated())
    assert await spin(lambda: proc.state == plumpy.ProcessState.WAITING)
    await asyncio.sleep(0)
    await asyncio.sleep(0)
    assert await proc.pause() is True
    await asyncio.sleep(0)
    await asyncio.sleep(0)
    return proc, task


async def cancel_while_paused():
    proc, task = await paused_waiting_process()
    task.cancel()  # e.g. asyncio.wait_for(proc.step_until_terminated(), timeout) timing out
    try:
        await task
    except asyncio.CancelledError:
        pass

    stepper = asyncio.ensure_future(proc.step_until_terminated())  # step it again, still paused
    await asyncio.sleep(0)
    await asyncio.sleep(0)
    early = f'new stepping task done={stepper.done()} cancelled={stepper.done() and stepper.cancelled()}'

    proc.resume('v')
    proc.play()
    if not await spin(proc.has_terminated):
        return f'{early}; after resume+play: paused={proc.paused} state={proc.state} calls={proc.delivered}'
    return None


async def checkpoint_after_resume_while_paused():
    proc, task = await paused_waiting_process()
    proc.resume('v')
    bundle = plumpy.Bundle(proc)
    task.cancel()

    loaded = bundle.unbundle()
    stepper = asyncio.ensure_future(loaded.step_until_terminated())
    loaded.play()
    if not await spin(loaded.has_terminated):
        stepper.cancel()
        return f'loaded process: paused={loaded.paused} state={loaded.state} calls={loaded.delivered}'
    return None


def main():
    loop = asyncio.get_event_loop()
    status = 0
    for name, scenario in (
        ('1 cancel the stepping task while paused', cancel_while_paused),
        ('2 checkpoint after resume while paused', checkpoint_after_resume_while_paused),
    ):
        problem = loop.run_until_complete(scenario())
        if problem:
            status = 1
            print(f'VIOLATION [{name}] {problem}')
        else:
            print(f'ok [{name}]')
    return status


if __name__ == '__main__':
    sys.exit(main())
