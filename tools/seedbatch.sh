#!/bin/sh
# usage: tools/seedbatch.sh <seed root, e.g. /tmp/seed2> <ID...>   -- verify and test every <root>/<ID>/out/{a,b}
ROOT="$1"; shift
for id in "$@"; do
  for x in a b; do
    D="$ROOT/$id/out/$x"
    [ -f "$D/patch.diff" ] || { echo "$D: no patch"; continue; }
    /verif/tools/seedverify.sh "$D" 2>&1 | grep -v conda
    /verif/tools/seedtest.sh "$D/patch.diff" "$id" 2>&1 | grep -v conda | cut -c1-420
  done
done
