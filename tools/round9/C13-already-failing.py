# -*- coding: utf-8 -*-
"""Histories / inputs for which the UNCHANGED tree already violates C13
("Continue(f, *a, **k) makes f(*a, **k) the next step ... also across a checkpoint restore").
Run: PYTHONPATH=<tree>/src /venv/bin/python already-failing.py   (exits 1 and lists the violations it observed)"""
import asyncio
import sys

import plumpy
from plumpy import Bundle, Continue, ProcessState

asyncio.set_event_loop(asyncio.new_event_loop())
LOOP = asyncio.get_event_loop()
violations = []


# 1. (no checkpoint involved) keyword arguments whose name is also the name of a parameter on the way from the command to
#    the state -- ``run_fn`` / ``process`` (Running.__init__) or ``state_label`` (create_state) -- never reach the step: the
#    process ends EXCEPTED with "got multiple values for argument ..." instead of running f(**k)
class Keywords(plumpy.Process):
    NAME = None

    def run(self):
        return Continue(self.step2, **{self.NAME: 42})

    def step2(self, **kwargs):
        return kwargs


for name in ('run_fn', 'process', 'state_label', 'harmless'):
    proc = type(f'Keywords_{name}', (Keywords,), {'NAME': name})()
    try:
        proc.execute()
        outcome = proc.result()
    except Exception as exception:  # noqa: BLE001
        outcome = f'{proc.state}: {type(exception).__name__}: {exception}'
    if outcome != {name: 42}:
        violations.append(f'Continue(f, {name}=42): expected f({name}=42) to run and return, got {outcome}')


# 2. the continuation is saved by the ``__name__`` of its function only: ``Continue(super().step2)`` runs the implementation
#    of the base class when the process is not restored, and the override of the subclass when it is
class Base(plumpy.Process):
    def run(self):
        return Continue(self.step2)

    def step2(self):
        return 'Base.step2'


class Derived(Base):
    def run(self):
        return Continue(super().step2)

    def step2(self):
        return 'Derived.step2'


live = Derived()
live.execute()

proc = Derived()
LOOP.run_until_complete(proc.step())  # CREATED -> RUNNING(run)
LOOP.run_until_complete(proc.step())  # run() returned Continue(super().step2)
assert proc.state == ProcessState.RUNNING
restored = Bundle(proc).unbundle()
restored.execute()
if restored.result() != live.result():
    violations.append(
        f'Continue(super().step2): next step without restore -> {live.result()!r}, '
        f'with a restore before it -> {restored.result()!r}'
    )


# 3. same mechanism: a private (name mangled) step cannot be found again after a restore
class Private(plumpy.Process):
    def run(self):
        return Continue(self.__step2, 1)

    def __step2(self, value):
        return value


proc = Private()
LOOP.run_until_complete(proc.step())
LOOP.run_until_complete(proc.step())
try:
    restored = Bundle(proc).unbundle()
    restored.execute()
    if restored.result() != 1:
        violations.append(f'Continue(self.__step2, 1) + restore: result {restored.result()!r}')
except Exception as exception:  # noqa: BLE001
    violations.append(f'Continue(self.__step2, 1) + restore: {type(exception).__name__}: {exception}')

if violations:
    print('C13 violated on this tree:')
    for violation in violations:
        print(' -', violation)
    sys.exit(1)
print('no violation observed')
