# -*- coding: utf-8 -*-
"""Violations of C11 on the UNCHANGED tree (exit status 1 = the violations are present).

1. `UNSPECIFIED = ()` and every test for it is an identity test.  CPython has one empty tuple, so an empty tuple that
   the caller supplies as the value of a port *is* `UNSPECIFIED`: `Port.validate` skips the type check and the
   validator of the port for it ("no value given"), but `pre_process` keeps it.  For a port that is not required the
   process is created and `inputs` holds `()` for a port declared `valid_type=int` whose validator refuses everything.
   (`tuple()`, `()[:]`, `tuple([])` are all that same object.)  Same root cause: a port declared with `default=()` is
   treated as having no default: it stays required and the process cannot be constructed without a value for it.

2. `AttributesFrozendict` does not guard attribute assignment: `proc.inputs.a = 99` succeeds silently and from then
   on `proc.inputs.a` reads 99 while `proc.inputs['a']` still is the accepted value (the mapping is read-only, the
   attribute view of it is not).
"""
import sys

import plumpy

FAILURES = []


def check(condition, message):
    if not condition:
        FAILURES.append(message)
        print('VIOLATION (unchanged tree):', message)


def never_valid(value, port):
    return 'this validator refuses every value'


class Proc(plumpy.Process):
    @classmethod
    def define(cls, spec):
        super().define(spec)
        spec.input('a', valid_type=int, required=False)
        spec.input('b', required=False, validator=never_valid)


class WithEmptyTupleDefault(plumpy.Process):
    @classmethod
    def define(cls, spec):
        super().define(spec)
        spec.input('c', valid_type=tuple, default=())


def main():
    try:
        proc = Proc(inputs={'a': ()})
    except ValueError:
        pass
    else:
        check(False, f'created with a={proc.inputs["a"]!r} for a port declared valid_type=int')

    try:
        proc = Proc(inputs={'b': tuple()})
    except ValueError:
        pass
    else:
        check(False, f'created with b={proc.inputs["b"]!r} although the validator of `b` refuses every value')

    try:
        proc = WithEmptyTupleDefault()
    except ValueError as exception:
        check(False, f'a port declared with `default=()` counts as required and without default: {exception}')
    else:
        check('c' in proc.inputs, 'the declared default `()` of port `c` was not filled in')

    proc = Proc(inputs={'a': 1})

    try:
        proc.inputs.a = 99
    except (TypeError, AttributeError):
        pass
    else:
        check(proc.inputs.a == proc.inputs['a'], f'inputs.a reads {proc.inputs.a!r} after an attribute assignment, inputs["a"] is {proc.inputs["a"]!r}')

    return 1 if FAILURES else 0


if __name__ == '__main__':
    sys.exit(main())
