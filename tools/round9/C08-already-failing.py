# -*- coding: utf-8 -*-
"""Histories / inputs for which the UNCHANGED plumpy tree already violates C08 (resuming from a checkpoint reproduces the
uninterrupted execution).  Run as  PYTHONPATH=<tree>/src python already-failing.py ; prints one line per case and exits
with the number of violated cases."""
import asyncio
import sys
import threading

import plumpy
from plumpy import WorkChain


def fresh_loop():
    loop = asyncio.new_event_loop()
    asyncio.set_event_loop(loop)
    return loop


async def run_steps(proc, count=None):
    done = 0
    while not proc.has_terminated() and (count is None or done < count):
        await proc.step()
        done += 1


def observe(proc):
    try:
        result = proc.result()
    except Exception as exc:
        result = f'raised {type(exc).__name__}: {exc}'
    obs = {'state': proc.state.value, 'result': result, 'outputs': dict(proc.outputs)}
    if hasattr(proc, 'ctx'):
        obs['ctx'] = dict(vars(proc.ctx))
    return obs


def uninterrupted(cls):
    loop = fresh_loop()
    proc = cls()
    loop.run_until_complete(run_steps(proc))
    loop.close()
    return observe(proc)


def resumed(cls, boundary):
    """checkpoint after ``boundary`` steps, abandon, load in a fresh loop, continue"""
    persister = plumpy.InMemoryPersister()
    loop = fresh_loop()
    proc = cls()
    loop.run_until_complete(run_steps(proc, boundary))
    persister.save_checkpoint(proc)
    pid = proc.pid
    del proc
    loop.close()
    loop = fresh_loop()
    try:
        proc = persister.load_checkpoint(pid).unbundle(plumpy.LoadSaveContext(loop=loop))
    except Exception as exc:
        return f'loading the checkpoint raised {type(exc).__name__}: {exc}'
    loop.run_until_complete(run_steps(proc))
    loop.close()
    return observe(proc)


# 1. continuation / outline step that is a "private" (name mangled) method: saved as ``__second``, looked up as such on load
class MangledContinuation(plumpy.Process):
    def run(self):
        return plumpy.Continue(self.__second)

    def __second(self):
        return 5


class MangledOutline(WorkChain):
    @classmethod
    def define(cls, spec):
        super().define(spec)
        spec.outline(cls.first, cls.__second)

    def first(self):
        self.ctx.a = 1

    def __second(self):
        self.ctx.b = 2
        return 7


# 2. outline step given as the base class' function while the class overrides that name: the function stepper is rebound
#    through ``getattr(type(workchain), name)`` on load, so the restored run executes the override instead
class BaseChain(WorkChain):
    def prepare(self):
        self.ctx.prepared = 'base'

    def finish(self):
        return 1


class OverridingChain(BaseChain):
    @classmethod
    def define(cls, spec):
        super().define(spec)
        spec.outline(cls.noop, BaseChain.prepare, cls.finish)

    def noop(self):
        pass

    def prepare(self):
        self.ctx.prepared = 'override'


# 3. an object reachable both from the context and from the outputs is one object in the uninterrupted run, two after a restore
class AliasChain(WorkChain):
    @classmethod
    def define(cls, spec):
        super().define(spec)
        spec.outputs.dynamic = True
        spec.outline(cls.first, cls.second)

    def first(self):
        self.ctx.log = ['first']
        self.out('log', self.ctx.log)

    def second(self):
        self.ctx.log.append('second')


def case_no_current_loop():
    """4. "in a fresh event loop": the loop is handed over in the load context, the thread has no current loop (worker thread,
    or ``asyncio.set_event_loop(None)`` after closing the old one): ``Process.load_instance_state`` creates a throw-away
    ``SavableFuture()`` on the *current* loop and fails"""
    loop = fresh_loop()
    proc = MangledFree()
    bundle = plumpy.Bundle(proc, dereference=True)
    loop.close()
    asyncio.set_event_loop(None)
    outcome = {}

    def worker():
        new_loop = asyncio.new_event_loop()
        try:
            loaded = bundle.unbundle(plumpy.LoadSaveContext(loop=new_loop))
            new_loop.run_until_complete(run_steps(loaded))
            outcome['got'] = observe(loaded)
        except Exception as exc:
            outcome['got'] = f'loading the checkpoint raised {type(exc).__name__}: {exc}'
        finally:
            new_loop.close()

    thread = threading.Thread(target=worker)
    thread.start()
    thread.join()
    return outcome['got']


class MangledFree(plumpy.Process):
    def run(self):
        return plumpy.Continue(self.second)

    def second(self):
        return 5


def main():
    violated = 0
    for title, cls, boundary in [
        ('1a name-mangled continuation (Continue(self.__second)), checkpoint before it runs', MangledContinuation, 2),
        ('1b name-mangled outline step (cls.__second), checkpoint before it runs', MangledOutline, 2),
        ('2  outline step given as BaseChain.prepare, overridden in the class, checkpoint before it runs', OverridingChain, 2),
        ('3  list shared by ctx and outputs, checkpoint between the two steps', AliasChain, 2),
    ]:
        expected = uninterrupted(cls)
        got = resumed(cls, boundary)
        if got != expected:
            violated += 1
            print(f'VIOLATED {title}\n    uninterrupted: {expected}\n    resumed:       {got}')
        else:
            print(f'ok       {title}')

    expected = uninterrupted(MangledFree)
    got = case_no_current_loop()
    if got != expected:
        violated += 1
        print(f'VIOLATED 4  loop passed in the load context, no current event loop in the thread\n'
              f'    uninterrupted: {expected}\n    resumed:       {got}')
    else:
        print('ok       4  loop passed in the load context, no current event loop in the thread')
    return violated


if __name__ == '__main__':
    sys.exit(main())
