# -*- coding: utf-8 -*-
"""Histories / shapes for which the UNCHANGED tree already violates C19 ("restores every member declared with
auto_persist", "plain values equal").  Exits 1 and lists the findings if any of them reproduces, 0 otherwise.

Run: PYTHONPATH=<tree>/src /venv/bin/python already-failing.py
"""

import asyncio
import sys

from plumpy import Savable, SavableFuture, auto_persist

findings = []


# 1) Multiple inheritance: the declarations of the second base are dropped (the decorator / Savable.auto_persist start
#    from `cls._auto_persist`, which the MRO resolves to the FIRST base that has one), so `b` is neither saved nor loaded.
@auto_persist('a')
class A(Savable):
    pass


@auto_persist('b')
class B(Savable):
    pass


@auto_persist('c')
class C(A, B):
    def __init__(self):
        self.a, self.b, self.c = 1, 2, 3


state = C().save()
loaded = Savable.load(state)
if 'b' not in state or not hasattr(loaded, 'b'):
    findings.append(f'1) class C(A, B): member "b" declared by base B is not persisted (saved keys: {sorted(state)})')


# 2) A subclass of SavableFuture that declares members of its own: they are saved, but SavableFuture.recreate_from
#    builds the object with cls(loop=...) and never calls load_instance_state, so they are not restored.
@auto_persist('label')
class LabelledFuture(SavableFuture):
    def __init__(self, *args, **kwargs):
        super().__init__(*args, **kwargs)
        self.label = 'default'


loop = asyncio.new_event_loop()
asyncio.set_event_loop(loop)
fut = LabelledFuture()
fut.label = 'mine'
fut.set_result(5)
state = fut.save()
loaded = Savable.load(state)
if state.get('label') == 'mine' and loaded.label != 'mine':
    findings.append(f'2) SavableFuture subclass: declared member saved as {state["label"]!r} but restored as {loaded.label!r}')
loop.close()


# 3) The recreated object SHARES its plain values with the saved state (no copy on load): mutating one recreated
#    object changes the saved state, and a second object recreated from the same state no longer equals what was saved.
@auto_persist('items')
class Box(Savable):
    def __init__(self):
        self.items = [1]


state = Box().save()
first = Savable.load(state)
first.items.append(2)
second = Savable.load(state)
if second.items != [1]:
    findings.append(f'3) second object recreated from the same saved state has items={second.items!r}, saved was [1]')

if findings:
    print('already failing on this tree:')
    for finding in findings:
        print('  -', finding)
    sys.exit(1)
print('none of the known shapes reproduces')
