# -*- coding: utf-8 -*-
"""Histories for which the UNCHANGED tree already violates C10 (exits 1 when a violation is observed, 0 otherwise).

Case 1 (main finding): an awaited child that ends EXCEPTED because a hook of its transition to FINISHED raises
  (here ``on_finished``; an overridden ``on_terminated`` or a communicator whose ``broadcast_send`` raises an unexpected
  exception at that point behaves the same).  ``Process.on_finish`` has already resolved the future of the child with its
  outputs when the hook fails; ``on_except`` then *replaces* ``child._future`` by a new future that carries the exception.
  The workchain resolved ``child.future()`` when the child was handed to the context, so it holds the old future: the barrier
  opens with a result, the next step runs and the workchain FINISHES although the awaited item failed.

Case 2 (exotic input): an awaited future that fails with a ``plumpy.process_states.Interruption`` (e.g. ``PauseInterruption``).
  ``Process.step`` takes the exception coming out of the wait for a pause request addressed to the workchain itself: the
  workchain pauses (and pauses again on every play) instead of ending EXCEPTED with that error.
"""
import asyncio
import logging
import sys

from plumpy import Process, ProcessState, ToContext, WorkChain, process_states

logging.disable(logging.CRITICAL)


class HookFailsChild(Process):
    async def run(self):
        return 1

    def on_finished(self):
        super().on_finished()
        raise RuntimeError('boom in on_finished')


class Wc1(WorkChain):
    steps = []

    @classmethod
    def define(cls, spec):
        super().define(spec)
        spec.outline(cls.submit, cls.inspect)

    def submit(self):
        type(self).child = self.launch(HookFailsChild)
        return ToContext(res=self.child)

    def inspect(self):
        self.steps.append(('inspect', self.child.state, self.ctx.res))


class Wc2(WorkChain):
    steps = []

    @classmethod
    def define(cls, spec):
        super().define(spec)
        spec.outline(cls.submit, cls.inspect)

    def submit(self):
        future = self.loop.create_future()
        self.loop.call_later(0.01, future.set_exception, process_states.PauseInterruption('not meant for you'))
        return ToContext(res=future)

    def inspect(self):
        self.steps.append('inspect')


def drive(workchain):
    async def run():
        try:
            await asyncio.wait_for(workchain.step_until_terminated(), timeout=1)
        except asyncio.TimeoutError:
            pass

    try:
        asyncio.get_event_loop().run_until_complete(run())
    except Exception:  # noqa: BLE001
        pass


def main():
    violations = []

    wc1 = Wc1()
    drive(wc1)
    if Wc1.child.state == ProcessState.EXCEPTED and (wc1.state != ProcessState.EXCEPTED or Wc1.steps):
        violations.append(
            f'case 1: the awaited child is {Wc1.child.state} ({Wc1.child.exception()!r}) but the workchain is {wc1.state} '
            f'and the next step ran: {Wc1.steps}'
        )

    wc2 = Wc2()
    drive(wc2)
    if wc2.state != ProcessState.EXCEPTED:
        violations.append(f'case 2: the awaited future failed but the workchain is {wc2.state}, paused={wc2.paused}')

    if violations:
        print('C10 violated on this tree:')
        for violation in violations:
            print('  -', violation)
        return 1
    print('no violation observed')
    return 0


if __name__ == '__main__':
    sys.exit(main())
