# -*- coding: utf-8 -*-
"""UNCHANGED tree: with plumpy's own event loop policy active, a loop future nested in a loop future is not mirrored.

``plum_to_kiwi_future`` recognises a nested loop future with ``isinstance(result, plumpy.futures.Future)``, and
``plumpy.futures.Future`` is ``asyncio.Future`` *as it was when plumpy.futures was imported* (the C class
``_asyncio.Future``).  ``plumpy.set_event_loop_policy()`` applies ``nest_asyncio``, which replaces ``asyncio.Future`` and
``asyncio.Task`` by the pure python classes: from then on ``loop.create_future()``, ``asyncio.Future()``,
``loop.create_task()`` and ``asyncio.ensure_future()`` give objects that are NOT instances of ``plumpy.futures.Future``.
A subscriber coroutine that hands back such a future (or task) gets a reply that resolves to the raw asyncio future,
which ``unwrap_kiwi_future`` cannot unwrap either: the chain does not end with the outcome of the innermost computation.
(``CancellableAction`` and ``SavableFuture`` derive from the C class and are still recognised.)

Exits 0 if the property holds, 1 if it is violated.  On the unchanged tree: 1.
"""

import asyncio
import sys

import kiwipy

import plumpy
from plumpy import communications, futures

plumpy.set_event_loop_policy()
loop = asyncio.get_event_loop()

problems = []


async def main():
    inner = loop.create_future()
    print('type of loop.create_future():', type(inner), '- a plumpy.futures.Future?', isinstance(inner, futures.Future))

    # 1. the adapter itself
    outer = loop.create_future()
    mirror = futures.unwrap_kiwi_future(communications.plum_to_kiwi_future(outer))
    outer.set_result(inner)
    inner.set_result('innermost value')
    for _ in range(5):
        await asyncio.sleep(0)
    got = mirror.result(timeout=0) if mirror.done() else '<pending>'
    if got != 'innermost value':
        problems.append(f'[adapter] innermost computation ended with \'innermost value\', the unwrapped mirror with {got!r}')

    # 2. through a LoopCommunicator: a subscriber handing back a task
    communicator = communications.LoopCommunicator(kiwipy.LocalCommunicator(), loop)

    async def work():
        await asyncio.sleep(0.01)
        return 'work done'

    async def subscriber(_comm, _msg):
        return asyncio.ensure_future(work())

    communicator.add_rpc_subscriber(subscriber, 'worker')
    reply = futures.unwrap_kiwi_future(communicator.rpc_send('worker', None))
    await asyncio.sleep(0.2)
    got = reply.result(timeout=0) if reply.done() else '<pending>'
    if got != 'work done':
        problems.append(f"[rpc] innermost computation ended with 'work done', the unwrapped reply with {got!r}")


loop.run_until_complete(main())

for problem in problems:
    print('VIOLATION: ' + problem)
sys.exit(1 if problems else 0)
