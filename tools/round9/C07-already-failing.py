"""Unchanged tree: a custom object loader handed over in the load context is not used for the state of the process.

``Process.load_instance_state`` -> ``recreate_state`` builds a fresh ``LoadSaveContext(process=self)``, so the loader
for the ``_state`` entry is taken from the meta data saved with the state, i.e. ``_ensure_object_loader`` makes a NEW
instance of the loader's class, calling it without arguments.  A loader that is configured per instance (constructor
arguments, a registry filled at run time) can therefore save a process, but the bundle cannot be loaded again, although
the caller passes the very same loader object in ``LoadSaveContext(loader=...)`` -- C07 with "a custom object loader".

Exits 1 when the problem shows (it does on the unchanged tree), 0 otherwise.
"""
import sys

import plumpy
from plumpy import loaders

_DEFAULT = loaders.DefaultObjectLoader()


class PrefixLoader(loaders.ObjectLoader):
    """Identifies objects like the default loader does, with a prefix that is chosen per instance"""

    def __init__(self, prefix):
        self.prefix = prefix

    def identify_object(self, obj):
        return self.prefix + _DEFAULT.identify_object(obj)

    def load_object(self, identifier):
        if not identifier.startswith(self.prefix):
            raise ValueError(f'{identifier} is not one of mine')
        return _DEFAULT.load_object(identifier[len(self.prefix):])


class Proc(plumpy.Process):
    def run(self):
        return 5


def main():
    loader = PrefixLoader('app!')
    proc = Proc()
    bundle = plumpy.Bundle(proc, plumpy.LoadSaveContext(loader=loader), dereference=True)  # saving works
    try:
        loaded = bundle.unbundle(plumpy.LoadSaveContext(loader=loader))  # the same loader is handed over for loading
    except Exception as exception:
        print(f'saved with the loader, but cannot be loaded with it: {type(exception).__name__}: {exception}')
        return 1
    again = plumpy.Bundle(loaded, plumpy.LoadSaveContext(loader=loader), dereference=True)
    assert again == bundle and loaded.pid == proc.pid and loaded.state == proc.state
    print('ok')
    return 0


if __name__ == '__main__':
    sys.exit(main())
