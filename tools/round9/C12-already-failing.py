# -*- coding: utf-8 -*-
"""Histories / inputs for which the UNCHANGED tree already departs from the C12 statement.

Run as ``PYTHONPATH=<tree>/src /venv/bin/python already-failing.py``: prints one line per scenario and exits 1 if any of
them shows the departure (which is the case on the unchanged tree).
"""
import sys

import plumpy

findings = []


# -- 1. whether out() accepts a value depends on what ANOTHER process of the same class emitted before -----------------
# ``out('a.b', ...)`` creates the namespace ``a`` in the output spec of the *class* (``get_port(create_dynamically=True)``
# mutates the sealed, shared spec).  From then on ``out('a', 5)`` is refused for every process of the class, although the
# declared spec (a dynamic namespace of ints) admits it and a process run before the first one stores it happily.
def make_class():
    class Dyn(plumpy.Process):
        script = ()

        @classmethod
        def define(cls, spec):
            super().define(spec)
            spec.outputs.valid_type = int

        def run(self):
            self.log = []
            for path, value in self.script:
                try:
                    self.out(path, value)
                    self.log.append('stored')
                except Exception as exc:  # noqa: BLE001
                    self.log.append(type(exc).__name__)

    return Dyn


Dyn = make_class()
first = Dyn()
first.script = (('a', 5),)
first.execute()
second = Dyn()
second.script = (('a.b', 1),)
second.execute()
third = Dyn()
third.script = (('a', 5),)
third.execute()
if first.log != third.log:
    findings.append(
        f"1. same class, same emission out('a', 5): {first.log} before and {third.log} after another process emitted "
        f"'a.b' (outputs {first.outputs} vs {third.outputs}, successful {first.is_successful} vs {third.is_successful})"
    )

# -- 1b. the same within one process: a REFUSED emission changes the spec, and with it the fate of the process ------------
Dyn = make_class()
proc = Dyn()
proc.script = (('a', 5), ('a.b', 'not an int'))
proc.execute()
# 'a'=5 was accepted, 'a.b' was refused with ValueError and left the outputs alone - yet the process is unsuccessful
if proc.log == ['stored', 'ValueError'] and proc.outputs == {'a': 5} and not proc.is_successful:
    findings.append(
        f"1b. outputs {proc.outputs} were all accepted by out(), the refused emission {proc.script[1]} left them unchanged, "
        f'but the process is unsuccessful (the refused emission created the namespace "a" in the spec)'
    )

# -- 2. a value stored for a namespace port is the caller's dictionary, and later nested emissions write into it ---------
# With two processes: the parent stores the outputs reported by its (finished) child under a namespace and then emits
# one more port into that namespace: what the CHILD's future / outputs report changes after the child has finished.
class Child(plumpy.Process):
    @classmethod
    def define(cls, spec):
        super().define(spec)
        spec.output('x', valid_type=int)

    def run(self):
        self.out('x', 1)


class Parent(plumpy.Process):
    @classmethod
    def define(cls, spec):
        super().define(spec)
        spec.output_namespace('child', dynamic=True)

    async def run(self):
        self.child = Child()
        await self.child.step_until_terminated()
        reported = self.child.future().result()
        self.child_reported_at_finish = dict(reported)
        self.out('child', reported)
        self.out('child.extra', 2)


parent = Parent()
parent.execute()
child = parent.child
if child.future().result() != parent.child_reported_at_finish:
    findings.append(
        f'2. the child finished reporting {parent.child_reported_at_finish}; after the parent emitted into the namespace '
        f'holding that mapping the child reports {child.future().result()} (outputs {child.outputs}), '
        f"'extra' is not even a port of the child"
    )


# -- 3. UNSPECIFIED is the empty tuple, and all empty tuples are one object ------------------------------------------------
class Typed(plumpy.Process):
    @classmethod
    def define(cls, spec):
        super().define(spec)
        spec.output('count', valid_type=int, required=False)
        spec.output('items', valid_type=tuple, required=False)

    def run(self):
        self.log = []
        for path, value in (('count', ()), ('items', tuple([]))):
            try:
                self.out(path, value)
                self.log.append('stored')
            except ValueError as exc:
                self.log.append(f'ValueError({exc})')


typed = Typed()
typed.execute()
if typed.log[0] == 'stored':
    findings.append(f"3a. out('count', ()) stored an empty tuple on an int port: {typed.outputs}, successful={typed.is_successful}")
if typed.log[1] != 'stored':
    findings.append(f"3b. out('items', ()) on a tuple port: {typed.log[1]}")

for line in findings:
    print(line)
sys.exit(1 if findings else 0)
