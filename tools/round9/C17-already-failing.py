# -*- coding: utf-8 -*-
"""C17: histories for which the UNCHANGED tree already departs from the property statement.

Run as  PYTHONPATH=<tree>/src /venv/bin/python already-failing.py  ; prints each finding and exits 1 if any reproduces.

1. PicklePersister: the file name is ``{pid}.{tag}.pickle`` / ``{pid}.pickle``, so the checkpoint (pid=1, tag='2') and
   the untagged checkpoint of pid '1.2' (or 1.2) are ONE file.  A persisting create task for pid '1.2' replaces the
   tagged checkpoint of process 1 and a continue task for (1, tag '2') then runs the other process.
2. The configured object loader is not the one used for the state of the process: ``Process.recreate_state`` builds a
   new load context without the loader, so the state class is loaded by a NEW, unconfigured instance of the loader's
   class (``loader.__class__()``, from the identifier in the checkpoint) -- with a loader that carries configuration
   (here: a registry given to its constructor) the continue task fails although launcher and persister were both
   given the configured loader.
"""

import asyncio
import sys
import tempfile

import plumpy
from plumpy import process_comms


class Labelled(plumpy.Process):
    @classmethod
    def define(cls, spec):
        super().define(spec)
        spec.input('label', valid_type=str)
        spec.outputs.dynamic = True

    def run(self):
        self.out('label', self.inputs.label)


class RegistryLoader(plumpy.DefaultObjectLoader):
    """Knows the plumpy state classes under short names, through a registry that is handed to the constructor"""

    def __init__(self, registry=None):
        self.registry = dict(registry or {})

    def identify_object(self, obj):
        for name, registered in self.registry.items():
            if registered is obj:
                return f'registry:{name}'
        return super().identify_object(obj)

    def load_object(self, identifier):
        if identifier.startswith('registry:'):
            try:
                return self.registry[identifier[len('registry:') :]]
            except KeyError:
                raise ValueError(f'`{identifier}` is not registered with this loader')
        return super().load_object(identifier)


async def main():
    findings = []

    # -- 1 ---------------------------------------------------------------------------------------------------------------
    with tempfile.TemporaryDirectory() as directory:
        persister = plumpy.PicklePersister(directory)
        launcher = plumpy.ProcessLauncher(persister=persister)

        process = Labelled(inputs={'label': 'process 1, tag 2'}, pid=1)
        persister.save_checkpoint(process, tag='2')

        created = await launcher(
            None,
            process_comms.create_create_body(
                Labelled, persist=True, init_kwargs={'pid': '1.2', 'inputs': {'label': 'process 1.2'}}
            ),
        )
        assert created == '1.2'
        outputs = await launcher(None, process_comms.create_continue_body(1, tag='2', nowait=False))
        print('continue (pid=1, tag="2") ->', outputs)
        if outputs != {'label': 'process 1, tag 2'}:
            findings.append(
                f'PicklePersister: continue task for (pid=1, tag="2") resumed the checkpoint of pid "1.2": {outputs!r}'
            )

    # -- 2 ---------------------------------------------------------------------------------------------------------------
    loader = RegistryLoader({'created': plumpy.process_states.Created})
    persister = plumpy.InMemoryPersister(loader=loader)
    launcher = plumpy.ProcessLauncher(persister=persister, loader=loader)
    pid = await launcher(
        None,
        process_comms.create_create_body(Labelled, persist=True, loader=loader, init_kwargs={'inputs': {'label': 'x'}}),
    )
    try:
        outputs = await launcher(None, process_comms.create_continue_body(pid, nowait=False))
        print('continue with the configured loader ->', outputs)
    except Exception as exc:
        findings.append(
            'configured loader not used for the process state: continue task failed with '
            f'{type(exc).__name__}: {exc}'
        )

    return findings


if __name__ == '__main__':
    found = asyncio.run(main())
    for finding in found:
        print('ALREADY FAILING:', finding)
    sys.exit(1 if found else 0)
