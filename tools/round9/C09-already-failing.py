# -*- coding: utf-8 -*-
"""C09 on the UNCHANGED tree: two histories for which the outline is not executed as the program it denotes.

1. `_FunctionStepper.load_instance_state` finds the step again BY NAME on the class of the workchain
   (`getattr(workchain.__class__, saved_state['_fn'])`), whereas a fresh stepper calls the function object written in the
   outline.  When the two differ (here: the outline of a subclass names `Base.middle` explicitly while the subclass overrides
   `middle`), a chain continued from a checkpoint calls another function than the chain that was never checkpointed.

2. `_IfStepper.step` counts the rejected conditionals in `self._pos` but always starts the scan at the first conditional.
   If the scan is left half way and entered again (a checkpoint written while an `elif_` predicate runs, then loaded),
   the predicates already rejected are evaluated a second time and `_pos` ends up past the branch whose predicate was true:
   the wrong branch (or none) is executed.

Exit status 0 if both behave as the property demands, 1 otherwise.
"""
import sys

import plumpy
from plumpy import WorkChain, if_

CALLS = []


class Base(WorkChain):
    @classmethod
    def define(cls, spec):
        super().define(spec)
        spec.outline(cls.first, cls.middle, cls.last)

    def first(self):
        CALLS.append('first')

    def middle(self):
        CALLS.append('Base.middle')
        if 'bundle' not in SAVED:
            SAVED['bundle'] = plumpy.Bundle(self)  # (what a persister does; taken while this step is the current one)

    def last(self):
        CALLS.append('last')


class Derived(Base):
    @classmethod
    def define(cls, spec):
        super().define(spec)
        # The outline explicitly asks for the implementation of the base class
        spec.outline(cls.first, Base.middle, cls.last)

    def middle(self):
        CALLS.append('Derived.middle')


SAVED = {}


class Branches(WorkChain):
    @classmethod
    def define(cls, spec):
        super().define(spec)
        spec.outline(if_(cls.p0)(cls.b0).elif_(cls.p1)(cls.b1).elif_(cls.p2)(cls.b2).else_(cls.b3), cls.end)

    def p0(self):
        CALLS.append('p0')
        return False

    def p1(self):
        CALLS.append('p1')
        if 'branches' not in SAVED:
            SAVED['branches'] = plumpy.Bundle(self)
        return True

    def p2(self):
        CALLS.append('p2')
        return False

    def b0(self):
        CALLS.append('b0')

    def b1(self):
        CALLS.append('b1')

    def b2(self):
        CALLS.append('b2')

    def b3(self):
        CALLS.append('b3')

    def end(self):
        CALLS.append('end')


def main():
    failures = 0

    # --- 1 ---
    Derived().execute()
    straight = list(CALLS)
    del CALLS[:]
    SAVED['bundle'].unbundle().execute()
    resumed = list(CALLS)
    del CALLS[:]
    print('1. straight run        :', straight)
    print('   continued checkpoint:', resumed)
    if straight != ['first', 'Base.middle', 'last'] or resumed != ['Base.middle', 'last']:
        print('   -> C09 VIOLATED: the continued chain does not call the step function written in the outline')
        failures += 1

    # --- 2 ---
    Branches().execute()
    straight = list(CALLS)
    del CALLS[:]
    SAVED['branches'].unbundle().execute()
    resumed = list(CALLS)
    del CALLS[:]
    print('2. straight run        :', straight)
    print('   continued checkpoint:', resumed)
    if straight != ['p0', 'p1', 'b1', 'end'] or 'b1' not in resumed or 'b2' in resumed or 'b3' in resumed:
        print('   -> C09 VIOLATED: the continued chain does not execute the branch whose predicate was true')
        failures += 1

    return 1 if failures else 0


if __name__ == '__main__':
    sys.exit(main())
