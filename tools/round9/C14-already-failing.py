"""Histories for which the UNCHANGED tree already violates the C14 statement.

Run as: PYTHONPATH=<tree>/src /venv/bin/python already-failing.py   (exits 1 when a violation is observed)

1. Two PicklePersisters whose directories are nested (store B lives in a sub-directory of store A's directory).
   ``PicklePersister.get_checkpoints`` walks the directory tree recursively (os.walk) but joins every file name it finds
   with the TOP directory, so listing store A either raises FileNotFoundError (the key exists only in B) or lists a key
   of A twice (the same key is stored in both).  "listing returns exactly the keys currently stored" is violated and
   ``delete_process_checkpoints`` (which lists first) raises too; the in-memory persister has no such coupling.

2. Separator-free string ids/tags that are long: the pickle persister maps (pid, tag) to ONE file name
   '<pid>.<tag>.pickle', limited to 255 bytes by the file system, so a save that the in-memory persister accepts raises
   OSError(ENAMETOOLONG) in the pickle persister: the two are not observationally equivalent.
"""
import os
import sys
import tempfile

import plumpy


class Proc(plumpy.Process):
    def run(self):
        pass


problems = []

with tempfile.TemporaryDirectory() as top:
    outer = plumpy.PicklePersister(top)
    inner = plumpy.PicklePersister(os.path.join(top, 'sub'))
    proc_a, proc_b = Proc(pid=1), Proc(pid=2)

    outer.save_checkpoint(proc_a)
    inner.save_checkpoint(proc_b)
    try:
        listed = outer.get_checkpoints()
    except Exception as exc:
        problems.append(f'1a. outer.get_checkpoints() raised {exc!r}; expected [(1, None)]')
    else:
        if sorted(listed) != [(1, None)]:
            problems.append(f'1a. outer.get_checkpoints() == {listed}; expected [(1, None)]')

    inner.delete_checkpoint(2)
    inner.save_checkpoint(proc_a)  # the same key in both stores
    listed = outer.get_checkpoints()
    if listed != [plumpy.PersistedCheckpoint(1, None)]:
        problems.append(f'1b. outer.get_checkpoints() == {listed}; expected exactly one (1, None)')

with tempfile.TemporaryDirectory() as top:
    pickled, memory = plumpy.PicklePersister(top), plumpy.InMemoryPersister()
    proc = Proc(pid='p' * 200)
    tag = 't' * 100
    memory.save_checkpoint(proc, tag)
    try:
        pickled.save_checkpoint(proc, tag)
    except OSError as exc:
        problems.append(f'2. in-memory persister saved (200-char pid, 100-char tag), pickle persister raised {type(exc).__name__}: errno {exc.errno}')

for problem in problems:
    print(problem)
sys.exit(1 if problems else 0)
