"""Reproducer for a history on which the UNCHANGED tree already deviates from the C05 statement
("play() always leaves the process un-paused and cancels a pause that has not yet taken effect").

A play() issued from the ``on_pausing`` hook -- i.e. after the pause procedure has started but before the process
reports paused -- returns True, yet the pause is carried out anyway: the process ends up paused although the last
request it received was a play.  (A play() issued a little earlier, during the state transition of the pause action,
or a little later, from an ``on_process_paused`` listener, does cancel / undo the pause.)  Both the immediate pause
(process not stepping) and the deferred pause (pause action run by ``step``) behave like this.

Exits 1 when the deviation is reproduced, 0 otherwise.
"""
import asyncio
import sys
import warnings

warnings.simplefilter('ignore')

import plumpy  # noqa: E402


class PlayInHook(plumpy.Process):
    play_result = None

    def on_pausing(self, msg=None):
        super().on_pausing(msg)
        self.play_result = self.play()

    def run(self):
        return plumpy.Wait(self.cont)

    def cont(self, value=None):
        return value


async def deferred():
    proc = PlayInHook()
    task = asyncio.ensure_future(proc.step_until_terminated())
    for _ in range(3):
        await asyncio.sleep(0)
    proc.pause('deferred')  # stepping (blocked in the wait): handled by the pause action
    for _ in range(3):
        await asyncio.sleep(0)
    outcome = (proc.play_result, proc.paused)
    proc.play()
    proc.resume(1)
    await task
    return outcome


def main():
    loop = asyncio.new_event_loop()
    asyncio.set_event_loop(loop)

    proc = PlayInHook()
    proc.pause('immediate')  # not stepping: carried out at once
    immediate = (proc.play_result, proc.paused)
    proc.play()

    results = {'immediate pause': immediate, 'deferred pause': loop.run_until_complete(deferred())}
    reproduced = False
    for name, (play_result, paused) in results.items():
        print(f'{name}: play() inside on_pausing returned {play_result}; process paused afterwards: {paused}')
        reproduced |= bool(play_result) and paused
    return 1 if reproduced else 0


if __name__ == '__main__':
    sys.exit(main())
