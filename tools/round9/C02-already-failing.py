# -*- coding: utf-8 -*-
"""Histories for which the UNCHANGED tree already violates property C02.  Exits 1 when (as expected) at least one of
them is reproduced, 0 when none is.

Run as:  PYTHONPATH=<tree>/src /venv/bin/python already-failing.py
"""

import asyncio
import sys

import plumpy
from plumpy import Process, ProcessListener, ProcessState

FOUND = []


def found(title, detail):
    FOUND.append(title)
    print(f'ALREADY FAILING [{title}]: {detail}')


class Recorder(ProcessListener):
    def __init__(self):
        super().__init__()
        self.terminal = []

    def on_process_finished(self, process, outputs):
        self.terminal.append('finished')

    def on_process_excepted(self, process, reason):
        self.terminal.append('excepted')

    def on_process_killed(self, process, msg):
        self.terminal.append('killed')


class Simple(Process):
    @classmethod
    def define(cls, spec):
        super().define(spec)
        spec.outputs.dynamic = True

    async def run(self):
        self.out('answer', 42)
        return 5


def case_close_then_kill():
    """close() is documented as safe to call ("the state of the process will still be accessible"); a process closed by
    hand and killed afterwards enters KILLED, but close() dropped the state event hooks, so on_kill/on_killed never run:
    the future is never resolved and the listeners are never told."""
    proc = Simple()
    listener = Recorder()
    proc.add_process_listener(listener)
    proc.close()
    answer = proc.kill('bye')
    if proc.state == ProcessState.KILLED and (not proc.future().done() or listener.terminal != ['killed']):
        found(
            'close() then kill()',
            f'kill() returned {answer}, state is {proc.state}, killed_msg() is {proc.killed_msg()}, but '
            f'future().done() is {proc.future().done()} and the listener received {listener.terminal}',
        )


def case_cleanup_closes():
    """close() is documented as safe to call several times, but _closed is only set once all cleanups have run: a cleanup
    that itself calls close() (directly or through something it tears down) starts the whole list again, recursively,
    until the recursion limit is hit (the RecursionError is then swallowed as a 'failing cleanup')."""
    proc = Simple()
    calls = []

    def cleanup():
        calls.append(1)
        proc.close()

    proc.add_cleanup(cleanup)
    proc.kill('bye')
    if len(calls) != 1:
        found('cleanup calling close()', f'the registered cleanup ran {len(calls)} times instead of exactly once')


def case_stale_future_resolved_with_outputs():
    """The future is resolved in on_finish, before FINISHED is entered.  When a later hook of the same transition fails
    (here on_finished, after the base implementation ran) the process ends EXCEPTED and on_except swaps in a NEW future
    for the exception -- but whoever obtained future() earlier holds the old one, which stays resolved with the outputs:
    the reports of the outcome disagree (and the future was resolved although the process never was FINISHED for good).
    A WorkChain that put this child in its context would continue with the outputs of an EXCEPTED child."""

    class FailsLate(Simple):
        def on_finished(self):
            super().on_finished()
            raise OSError('could not store the results')

    proc = FailsLate()
    listener = Recorder()
    proc.add_process_listener(listener)
    early = proc.future()  # e.g. taken by a parent: ``self.to_context(child=proc)``
    try:
        proc.execute()
    except OSError:
        pass
    if proc.state == ProcessState.EXCEPTED and early.done() and not early.cancelled() and early.exception() is None:
        found(
            'future obtained before the failing terminal hook',
            f'state is {proc.state}, future() raises {proc.future().exception()!r}, but the future handed out earlier '
            f'resolved to the outputs {early.result()}; the listener received {listener.terminal} (two terminal '
            'notifications)',
        )


def case_listener_raising_cancelled_error():
    """EventHelper isolates listeners that raise an ``Exception``; asyncio.CancelledError is a BaseException (e.g. a
    listener calling ``.result()`` on a cancelled future).  It escapes from the terminal notification and from
    transition_to (which only handles ``Exception``): the process is FINISHED and its future resolved, but on_terminated
    never runs: not closed, cleanups not run, and the error comes out of step_until_terminated()."""

    class Bad(ProcessListener):
        def on_process_finished(self, process, outputs):
            cancelled = asyncio.get_event_loop().create_future()
            cancelled.cancel()
            cancelled.result()

    proc = Simple()
    proc.add_process_listener(Bad())
    cleanups = []
    proc.add_cleanup(lambda: cleanups.append(1))
    escaped = None
    try:
        proc.execute()
    except BaseException as exception:  # noqa: BLE001
        escaped = exception
    closed = True
    try:
        proc.add_cleanup(lambda: None)
        closed = False
    except plumpy.ClosedError:
        pass
    if proc.state == ProcessState.FINISHED and (not closed or not cleanups):
        found(
            'listener raising CancelledError in its terminal notification',
            f'state is {proc.state}, future resolved to {proc.future().result()}, but closed={closed}, cleanups run '
            f'{len(cleanups)} times, and execute() raised {escaped!r}',
        )


def main():
    for case in (
        case_close_then_kill,
        case_cleanup_closes,
        case_stale_future_resolved_with_outputs,
        case_listener_raising_cancelled_error,
    ):
        try:
            case()
        except BaseException as exception:  # noqa: BLE001
            print(f'{case.__name__}: unexpected {exception!r}')
    print(f'{len(FOUND)} already-failing histories reproduced: {FOUND}')
    return 1 if FOUND else 0


if __name__ == '__main__':
    sys.exit(main())
