# -*- coding: utf-8 -*-
"""C18 on the UNCHANGED tree: a process scope that is closed by the garbage collector pops the *live* scope of the
process whose code happens to be running at that moment.

``Process.call_soon`` hands ``loop.create_task`` a task nobody keeps a reference to (asyncio only holds tasks weakly).
If the (async) callback is blocked on something that nobody else references either, task + coroutine + future are
unreachable garbage.  When the cyclic collector runs -- which it does from inside whatever code is executing at that
moment -- it closes the coroutine: ``GeneratorExit`` travels through ``Process._run_task`` and the ``finally`` of
``Process._process_scope`` runs *in the context of the code that triggered the collection*.  If that code is a step
of the same process, the sanity assert is satisfied (the top of the stack is this process) and the entry that gets
popped is the one of the running step: for the rest of that step ``Process.current()`` is no longer the process (here
None), and the step's own scope exit then fails its assert, so the process ends EXCEPTED.

Exits 1 (violation observed) on the unchanged tree; 0 if Process.current() stays right.
"""

import asyncio
import gc
import sys

import plumpy
from plumpy import Process, ProcessState

seen = []


async def leaked_callback():
    # blocks on a future nobody else knows about (think: an event that is never set, a reply that never comes)
    await asyncio.get_event_loop().create_future()


class P(Process):
    async def run(self):
        self.call_soon(leaked_callback)
        await asyncio.sleep(0.01)  # the callback starts and blocks inside its own process scope
        seen.append(('before collection', Process.current()))
        gc.collect()  # (an automatic collection at this point has the same effect)
        seen.append(('after collection', Process.current()))
        await asyncio.sleep(0)
        seen.append(('after collection and an await', Process.current()))
        return True


plumpy.set_event_loop_policy()
proc = P()
try:
    proc.execute()
except BaseException as exc:  # the AssertionError of the step's own scope exit
    print(f'execute() raised {type(exc).__name__}: {str(exc)[:150]}')

bad = [(where, cur) for where, cur in seen if cur is not proc]
for where, cur in bad:
    print(f'VIOLATION [{where}]: Process.current() is {cur!r} while the step of {proc} is running')
print('final state:', proc.state)
sys.exit(1 if bad or proc.state != ProcessState.FINISHED else 0)
