# -*- coding: utf-8 -*-
"""BORDERLINE observation on the UNCHANGED tree (C16: "each completed state transition is announced exactly once and in
order").

If the *entered* hook of a state raises (here a subclass's ``on_waiting`` / ``on_finished`` override, after calling
super), the state has already been entered (``process.state`` is the new state, for FINISHED even the result future has
been set) but the ``state_changed.<from>.<to>`` broadcast, which comes last in ``Process.on_entered``, is never sent.  The
process then goes to EXCEPTED *from that state*, and announces ``state_changed.waiting.excepted`` (resp.
``state_changed.finished.excepted``): a listener to the broadcasts sees a chain with a hole in it -- a transition out of
a state the process was never announced to have entered (and, for FINISHED, a transition out of a terminal state).

Whether running->waiting counts as a "completed" transition when its entered-hook failed is debatable, hence borderline.
Exits 1 when the announced chain is broken (the behaviour of the unchanged tree), 0 when it is contiguous.
"""
import asyncio
import sys

import kiwipy

import plumpy


class FailsInOnWaiting(plumpy.Process):
    def run(self):
        return plumpy.Wait(self.done)

    def done(self):
        return 1

    def on_waiting(self):
        super().on_waiting()
        raise RuntimeError('boom in on_waiting')


class FailsInOnFinished(plumpy.Process):
    def run(self):
        return 1

    def on_finished(self):
        super().on_finished()
        raise RuntimeError('boom in on_finished')


def main():
    broken = False
    for cls in (FailsInOnWaiting, FailsInOnFinished):
        loop = asyncio.new_event_loop()
        asyncio.set_event_loop(loop)
        communicator = kiwipy.LocalCommunicator()
        subjects = []
        communicator.add_broadcast_subscriber(
            lambda _comm, body, sender, subject, correlation_id: subjects.append(subject)
        )
        proc = cls(communicator=communicator, loop=loop)
        loop.run_until_complete(asyncio.wait_for(proc.step_until_terminated(), 5))
        loop.close()

        print(cls.__name__, proc.state, subjects)
        previous_to = None
        for subject in subjects:
            _, from_label, to_label = subject.split('.')
            if str(previous_to) != from_label:
                print(f"   hole in the chain: '{subject}' follows a transition to '{previous_to}'")
                broken = True
            previous_to = to_label

    return 1 if broken else 0


if __name__ == '__main__':
    sys.exit(main())
