# -*- coding: utf-8 -*-
"""Histories for which the UNCHANGED tree already violates C04 ("kill() on a process that has not terminated never raises
... the process ends KILLED ... the value or future returned by kill() resolves to True exactly when the process ended
KILLED ... the kill text is recorded").  Run as:  PYTHONPATH=<tree>/src /venv/bin/python already-failing.py
Exits 1 if at least one of the violations shows (it does on the unchanged tree), 0 otherwise.

1. (clear) The communicator of the process was closed (e.g. at daemon shutdown) before the kill arrives.  The state-change
   broadcast in ``Process.on_entered`` only expects ConnectionClosed / ChannelInvalidStateError / kiwipy.TimeoutError, so
   ``kiwipy.CommunicatorClosed`` fails the kill transition *after* the KILLED state was entered, the fall-back transition to
   EXCEPTED broadcasts again and fails again, and the exception leaves kill():
     - not being stepped (direct path): kill() RAISES CommunicatorClosed and the process ends EXCEPTED, not KILLED;
     - inside a waiting step (deferred path): the future returned by kill() resolves to that exception, the process ends
       EXCEPTED although the step did not fail.
2. (weaker, about "the kill text is recorded") a process killed while paused keeps ``paused == True``; a later (legal)
   play() runs on_playing() on the dead process, which writes the pre-pause status over the kill text in ``status``.
"""

import asyncio
import sys

import kiwipy
import plumpy
from plumpy import process_states
from plumpy.process_states import ProcessState


class WaitingProcess(plumpy.Process):
    async def run(self):
        return process_states.Wait(self.finish, 'waiting')

    def finish(self):
        return 1


async def spin(count=10):
    for _ in range(count):
        await asyncio.sleep(0)


async def main():
    found = []

    # 1a. direct path
    communicator = kiwipy.LocalCommunicator()
    proc = WaitingProcess(communicator=communicator)
    communicator.close()
    try:
        outcome = proc.kill('bye')
        if proc.state != ProcessState.KILLED or outcome is not True:
            found.append(f'1a: kill() answered {outcome!r} and the process is {proc.state}')
    except Exception as exception:  # noqa: BLE001
        found.append(f'1a: kill() of a live {WaitingProcess.__name__} raised {exception!r}; the process is {proc.state}')

    # 1b. deferred path (inside a waiting step)
    communicator = kiwipy.LocalCommunicator()
    proc = WaitingProcess(communicator=communicator)
    stepper = asyncio.ensure_future(proc.step_until_terminated())
    await spin()
    assert proc.state == ProcessState.WAITING
    communicator.close()
    outcome = proc.kill('bye')
    await spin()
    if proc.state != ProcessState.KILLED:
        found.append(f'1b: killed inside a waiting step that did not fail, but the process is {proc.state}; kill() gave {outcome!r}')
    stepper.cancel()

    # 2. play() after a kill while paused
    proc = WaitingProcess()
    proc.set_status('before')
    proc.pause('paused')
    assert proc.kill('the kill text') is True and proc.status == 'the kill text'
    proc.play()
    if proc.status != 'the kill text':
        found.append(f'2: play() on the process that was killed while paused replaced the recorded kill text: status {proc.status!r}')

    return found


if __name__ == '__main__':
    loop = asyncio.new_event_loop()
    asyncio.set_event_loop(loop)
    problems = loop.run_until_complete(main())
    for problem in problems:
        print('ALREADY FAILING -', problem)
    sys.exit(1 if problems else 0)
