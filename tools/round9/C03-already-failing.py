"""Histories for which the UNCHANGED tree already violates C03 (exits 1 and prints them when they still fail).

1. A state hook raising ``StopIteration`` (one fault, plain run): ``on_except`` hands it to ``Future.set_exception``, which
   refuses it with a TypeError *inside the transition to EXCEPTED*; that second failure is re-raised by
   ``StateMachine.transition_to`` (``_transition_failing``), escapes from ``step()`` and leaves the process in its old
   state, not closed, future pending.
2. A ``call_soon`` callback that cancels its own handle (or whose handle is cancelled while the coroutine callback is in
   flight) and then raises: ``ProcessCallback.cancel()`` already dropped ``_process``, so the ``except`` branch of
   ``ProcessCallback.run`` dies with AttributeError in the task -> reported to the event loop's exception handler, and the
   process is not failed.
3. (parent/child timing) A WorkChain waiting for two children whose futures both fail before the parent's step wakes up:
   the second ``Waiting._awaitable_done`` calls ``set_exception`` on the already resolved wait future ->
   ``asyncio.InvalidStateError`` inside an event loop callback (reported to the loop's exception handler).
"""
import asyncio
import sys

import plumpy
from plumpy import Process, ProcessState, WorkChain


def new_loop():
    loop = asyncio.new_event_loop()
    asyncio.set_event_loop(loop)
    errors = []
    loop.set_exception_handler(lambda _loop, context: errors.append(context))
    return loop, errors


def case_stop_iteration():
    class Proc(Process):
        def on_run(self):
            super().on_run()
            raise StopIteration('raised by a hook')

        async def run(self):
            return 1

    loop, errors = new_loop()
    proc = Proc(loop=loop)
    problems = []
    try:
        loop.run_until_complete(asyncio.wait_for(proc.step_until_terminated(), 2))
    except BaseException as exc:  # noqa: BLE001
        problems.append(f'stepping raised {exc!r}')
    if proc.state != ProcessState.EXCEPTED:
        problems.append(f'state {proc.state}, closed={proc._closed}, future done={proc.future().done()}')
    return problems


def case_self_cancelled_callback():
    class Proc(Process):
        async def run(self):
            def callback():
                self.handle.cancel()
                raise RuntimeError('raised by a scheduled callback')

            self.handle = self.call_soon(callback)
            await asyncio.sleep(0.05)
            return 1

    loop, errors = new_loop()
    proc = Proc(loop=loop)
    problems = []
    try:
        loop.run_until_complete(asyncio.wait_for(proc.step_until_terminated(), 2))
    except BaseException as exc:  # noqa: BLE001
        problems.append(f'stepping raised {exc!r}')
    if proc.state != ProcessState.EXCEPTED:
        problems.append(f'the callback raised but the process ended {proc.state}')
    problems.extend(f'loop exception handler: {c.get("message")}: {c.get("exception")!r}' for c in errors)
    return problems


def case_two_failing_children():
    class Child(Process):
        async def run(self):
            raise RuntimeError(f'child {self.pid}')

    class Parent(WorkChain):
        @classmethod
        def define(cls, spec):
            super().define(spec)
            spec.outline(cls.launch_children, cls.after)

        def launch_children(self):
            return plumpy.ToContext(a=self.launch(Child, pid='a'), b=self.launch(Child, pid='b'))

        def after(self):
            pass

    loop, errors = new_loop()
    proc = Parent(loop=loop)
    problems = []
    try:
        loop.run_until_complete(asyncio.wait_for(proc.step_until_terminated(), 2))
        loop.run_until_complete(asyncio.sleep(0.05))
    except BaseException as exc:  # noqa: BLE001
        problems.append(f'stepping raised {exc!r}')
    problems.extend(f'loop exception handler: {c.get("message")}: {c.get("exception")!r}' for c in errors)
    return problems


if __name__ == '__main__':
    failed = False
    for case in (case_stop_iteration, case_self_cancelled_callback, case_two_failing_children):
        problems = case()
        print(f'{case.__name__}: ' + ('ok' if not problems else 'VIOLATION (unchanged tree)'))
        for problem in problems:
            failed = True
            print('    - ' + problem)
    sys.exit(1 if failed else 0)
