# -*- coding: utf-8 -*-
"""Histories / inputs for which the UNCHANGED tree already departs from the C15 statement.

Run as: PYTHONPATH=<tree>/src /venv/bin/python already-failing.py   (exits 1 and lists what was observed)
"""
import sys

from plumpy.ports import InputPort, PortNamespace

found = []

# 1. "with the source namespace's properties unless overridden by namespace options": the properties are applied in
#    alphabetical order (`dynamic` before `valid_type`) and the `valid_type` setter forces dynamic=True, so
#    (a) an override dynamic=False is lost when the source has a valid_type, and
#    (b) a source with valid_type=int whose dynamic was switched off afterwards is exposed with dynamic=True.
src = PortNamespace('inputs', valid_type=int)
dst = PortNamespace('inputs')
dst.absorb(src, namespace_options={'dynamic': False})
if dst.dynamic is not False:
    found.append("1a: namespace_options={'dynamic': False} ignored when the source has a valid_type (dynamic=True)")

src = PortNamespace('inputs', valid_type=int)
src.dynamic = False
dst = PortNamespace('inputs')
dst.absorb(src)
if dst.dynamic != src.dynamic:
    found.append(f'1b: source dynamic={src.dynamic}, valid_type=int is exposed with dynamic={dst.dynamic}')

# 2. "leaves other ports of the destination in place": a nested namespace of the destination that has the name of a
#    nested namespace of the source is replaced wholesale, so the destination's own port in it disappears.
src = PortNamespace('inputs')
src.create_port_namespace('ns')['x'] = InputPort('x')
dst = PortNamespace('inputs')
dst.create_port_namespace('ns')['own'] = InputPort('own')
dst.absorb(src)
if 'own' not in dst['ns']:
    found.append(f"2: destination port ns.own dropped by exposing a source with ns.x (ns now has {sorted(dst['ns'])})")

# 3. "the copy is independent": the default of a (nested or top level) *namespace* is taken over by reference, so a
#    mutable default changed in place on one side shows through on the other (leaf ports are deep-copied).
src = PortNamespace('inputs')
src.create_port_namespace('ns', default={'k': 1})['x'] = InputPort('x')
dst = PortNamespace('inputs')
dst.absorb(src)
src['ns'].default['k'] = 2
if dst['ns'].default != {'k': 1}:
    found.append(f"3: in-place change of the source namespace default shows in the exposed one: {dst['ns'].default}")

# 4. (debatable) an empty include rule set selects everything instead of nothing.
src = PortNamespace('inputs')
src['a'] = InputPort('a')
dst = PortNamespace('inputs')
if dst.absorb(src, include=[]) != []:
    found.append('4: include=[] exposes every port (an empty rule set is treated as "no rules")')

for line in found:
    print(line)
sys.exit(1 if found else 0)
