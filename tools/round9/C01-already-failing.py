"""Unchanged tree: a communicator fault other than ConnectionClosed / ChannelInvalidStateError / TimeoutError while the
state change to FINISHED is broadcast (e.g. kiwipy.CommunicatorClosed: the communicator was closed while the process
ran) moves the process FINISHED -> EXCEPTED.  No lifecycle hook raises.  Exits 1 when the violation is observed."""
import asyncio
import sys

import kiwipy
import plumpy


class ClosingCommunicator:
    """Minimal communicator: works until it is 'closed', then broadcast_send raises CommunicatorClosed"""

    closed = False

    def add_rpc_subscriber(self, subscriber, identifier=None):
        return identifier

    def remove_rpc_subscriber(self, identifier):
        pass

    def add_broadcast_subscriber(self, subscriber, identifier=None):
        return identifier

    def remove_broadcast_subscriber(self, identifier):
        pass

    def broadcast_send(self, body, sender=None, subject=None, correlation_id=None):
        if self.closed:
            raise kiwipy.CommunicatorClosed()
        return True


class Proc(plumpy.Process):
    async def run(self):
        await asyncio.sleep(0.01)
        return None


def main():
    loop = asyncio.new_event_loop()
    asyncio.set_event_loop(loop)
    comm = ClosingCommunicator()
    proc = Proc(communicator=comm, loop=loop)
    seen = []

    class Recorder(plumpy.ProcessListener):
        def on_process_running(self, process):
            seen.append(process.state)

        def on_process_finished(self, process, outputs):
            seen.append(process.state)

        def on_process_excepted(self, process, reason):
            seen.append(process.state)

    recorder = Recorder()
    proc.add_process_listener(recorder)

    async def drive():
        task = loop.create_task(proc.step_until_terminated())
        await asyncio.sleep(0)
        comm.closed = True  # the communicator goes away while the process is running
        await task

    try:
        loop.run_until_complete(drive())
    except kiwipy.CommunicatorClosed:
        pass  # (the broadcast of the next state change fails as well and is re-raised to whoever steps the process)
    print('states entered:', [s.value for s in seen], 'final:', proc.state.value)
    labels = [s.value for s in seen]
    if 'finished' in labels and labels[-1] != 'finished':
        print('VIOLATION: state changed after FINISHED was entered')
        return 1
    return 0


if __name__ == '__main__':
    sys.exit(main())
