#!/bin/sh
# usage: tools/runall.sh [tier] [seed]   -- every check once, one line each (and the wall time); evidence files are written
TIER="${1:-quick}"; SEED="${2:-0}"
cd "$(dirname "$0")/.." || exit 2
BAD=0
for i in 01 02 03 04 05 06 07 08 09 10 11 12 13 14 15 16 17 18 19 20; do
  OUT=$(VERIF_SEED=$SEED ./check C$i --tier "$TIER" 2>&1); CODE=$?
  echo "C$i exit=$CODE $(echo "$OUT" | grep -m1 'verdict=' | sed 's/.*tier=/tier=/' | cut -c1-120)"
  [ $CODE -eq 0 ] || { BAD=$((BAD+1)); echo "$OUT" | grep -E "kind=|INCONCLUSIVE|VIOLATION" | head -5 | cut -c1-300; }
done
echo "NOT-HELD=$BAD"
