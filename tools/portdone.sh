#!/bin/sh
# usage: tools/portdone.sh <SEED-ID> <worktree>   -- the seeded change was re-made by hand in <worktree> (of /repo HEAD): keep it as the patch
ID="$1"; WT="$2"
[ -f "/verif/seeded/$ID/patch.before-port.diff" ] || cp "/verif/seeded/$ID/patch.diff" "/verif/seeded/$ID/patch.before-port.diff"
git -C "$WT" diff > "/verif/seeded/$ID/patch.diff"
git -C /repo worktree remove --force "$WT"
CHECK=$(echo "$ID" | cut -d- -f1)
/verif/tools/seedtest.sh "/verif/seeded/$ID/patch.diff" "$CHECK" | tail -1 | cut -c1-300
