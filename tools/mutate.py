#!/venv/bin/python
"""Systematic mutation analysis of the anchored functions (a measure of what the monitors can see).

For every function listed in some monitor's ANCHORS a handful of AST mutants is generated (negated
condition, deleted statement, swapped comparison, dropped argument of a call ...).  A mutant that
still passes the repository's own suite is run against the quick tier of every check whose ANCHORS
name the mutated function (PV_REPO points at a scratch copy of src/).  Survivors are printed.

usage: tools/mutate.py [--per-function N] [--jobs J] [--seed S] [--only C04,C05] [--out report.json]
"""
import argparse
import ast
import concurrent.futures
import copy
import importlib
import json
import os
import random
import shutil
import subprocess
import sys
import tempfile

HERE = os.path.dirname(os.path.dirname(os.path.abspath(__file__)))
sys.path.insert(0, HERE)
REPO = os.environ.get('PV_REPO', '/repo')
PY = '/venv/bin/python'


def anchors():
    import pv  # noqa: F401
    out = {}
    for i in range(1, 21):
        mod = importlib.import_module('pv.monitors.c%02d' % i)
        for a in getattr(mod, 'ANCHORS', ()):
            out.setdefault(a, []).append(mod.ID)
    return out


def find_function(tree, qual):
    parts = qual.split('.')
    node = tree
    for part in parts:
        found = None
        for child in getattr(node, 'body', []):
            if isinstance(child, (ast.FunctionDef, ast.AsyncFunctionDef, ast.ClassDef)) and child.name == part:
                found = child
                break
        if found is None:
            return None
        node = found
    return node


class Mutator:
    def __init__(self, func):
        self.func = func
        self.sites = []
        self._collect(func)

    def _collect(self, func):
        for node in ast.walk(func):
            if isinstance(node, (ast.If, ast.While)):
                self.sites.append(('negate', node))
            if isinstance(node, ast.IfExp):
                self.sites.append(('negate-ifexp', node))
            if isinstance(node, ast.Compare) and len(node.ops) == 1:
                self.sites.append(('swapcmp', node))
            if isinstance(node, ast.BoolOp):
                self.sites.append(('boolop', node))
            if isinstance(node, ast.Return) and node.value is not None and not (isinstance(node.value, ast.Constant) and node.value.value is None):
                self.sites.append(('return-none', node))
            if isinstance(node, ast.Constant) and isinstance(node.value, bool):
                self.sites.append(('flipbool', node))
            for field in ('body', 'orelse', 'finalbody'):
                stmts = getattr(node, field, None)
                if isinstance(stmts, list):
                    for i, st in enumerate(stmts):
                        if isinstance(st, ast.Expr) and isinstance(getattr(st, 'value', None), ast.Constant) and isinstance(st.value.value, str):
                            continue  # docstring
                        if isinstance(st, (ast.Expr, ast.Assign, ast.AugAssign, ast.Raise, ast.If, ast.For, ast.With, ast.Try, ast.Return)):
                            self.sites.append(('delete', (node, field, i)))

    def apply(self, idx):
        kind, site = self.sites[idx]
        if kind == 'negate':
            site.test = ast.UnaryOp(op=ast.Not(), operand=site.test)
        elif kind == 'negate-ifexp':
            site.test = ast.UnaryOp(op=ast.Not(), operand=site.test)
        elif kind == 'swapcmp':
            op = site.ops[0]
            swap = {ast.Eq: ast.NotEq, ast.NotEq: ast.Eq, ast.Is: ast.IsNot, ast.IsNot: ast.Is, ast.Lt: ast.LtE, ast.LtE: ast.Lt, ast.Gt: ast.GtE,
                    ast.GtE: ast.Gt, ast.In: ast.NotIn, ast.NotIn: ast.In}
            site.ops = [swap[type(op)]()]
        elif kind == 'boolop':
            site.op = ast.Or() if isinstance(site.op, ast.And) else ast.And()
        elif kind == 'return-none':
            site.value = ast.Constant(value=None)
        elif kind == 'flipbool':
            site.value = not site.value
        elif kind == 'delete':
            node, field, i = site
            getattr(node, field)[i] = ast.Pass()
        return kind


def make_mutants(per_function, seed, only):
    rng = random.Random(seed)
    out = []
    for anchor, props in sorted(anchors().items()):
        if only and not set(props) & only:
            continue
        modname, _, qual = anchor.partition(':')
        path = os.path.join(REPO, 'src', *modname.split('.')) + '.py'
        src = open(path).read()
        tree = ast.parse(src)
        func = find_function(tree, qual)
        if func is None:
            continue
        nsites = len(Mutator(func).sites)
        if not nsites:
            continue
        for idx in rng.sample(range(nsites), min(per_function, nsites)):
            t2 = ast.parse(src)
            f2 = find_function(t2, qual)
            m = Mutator(f2)
            kind = m.apply(idx)
            ast.fix_missing_locations(t2)
            try:
                new_func_src = ast.unparse(f2)
            except Exception:  # noqa: BLE001
                continue
            # splice only the mutated function back into the original text (keeps everything else byte-identical)
            lines = src.splitlines(keepends=True)
            start = func.lineno - 1 - len(func.decorator_list)
            if func.decorator_list:
                start = min(d.lineno for d in func.decorator_list) - 1
            end = func.end_lineno
            indent = ' ' * func.col_offset
            body = ''.join(indent + line + '\n' if line else '\n' for line in new_func_src.split('\n'))
            new_src = ''.join(lines[:start]) + body + ''.join(lines[end:])
            try:
                compile(new_src, path, 'exec')
            except SyntaxError:
                continue
            if new_src == src:
                continue
            orig_f = ast.unparse(func).split('\n')
            new_f = new_func_src.split('\n')
            diffline = next(('%s  <=  %s' % (b.strip(), a.strip()) for a, b in zip(orig_f, new_f) if a != b), '?')
            out.append({'anchor': anchor, 'props': props, 'kind': kind, 'site': idx, 'path': os.path.relpath(path, REPO), 'src': new_src, 'line': diffline[:200]})
    return out


def evaluate(mut, n):
    work = tempfile.mkdtemp(prefix='pvmut%d-' % n)
    try:
        shutil.copytree(os.path.join(REPO, 'src'), os.path.join(work, 'src'))
        for extra in ('tests', 'pyproject.toml'):  # (C01 / C02 run the repository's own tests of the tree under test as one of their cases)
            if os.path.exists(os.path.join(REPO, extra)):
                os.symlink(os.path.join(REPO, extra), os.path.join(work, extra))
        with open(os.path.join(work, mut['path']), 'w') as fh:
            fh.write(mut['src'])
        env = dict(os.environ, PYTHONPATH=os.path.join(work, 'src'))
        env.pop('PLUMPY_VERIF', None)
        try:
            t = subprocess.run([PY, '-m', 'pytest', '-q', '-x', '-p', 'no:cacheprovider', '--timeout=20', '--deselect', 'tests/rmq', 'tests'],
                               cwd=REPO, env=env, capture_output=True, text=True, timeout=90)
            suite_ok = t.returncode == 0
        except subprocess.TimeoutExpired:
            suite_ok = False
        res = {k: mut[k] for k in ('anchor', 'props', 'kind', 'line', 'site')}
        if not suite_ok:
            res['verdict'] = 'killed-by-suite'
            return res
        env2 = dict(os.environ, PV_REPO=work, PV_WORKERS='4')
        verdicts = {}
        for prop in mut['props']:
            try:
                c = subprocess.run([os.path.join(HERE, 'check'), prop, '--tier', 'quick', '--no-evidence'], cwd=HERE, env=env2, capture_output=True,
                                   text=True, timeout=1500)
                code = c.returncode
                first = next((l for l in c.stdout.splitlines() if 'kind=' in l), '')
            except subprocess.TimeoutExpired:
                code, first = 'timeout', ''
            verdicts[prop] = [code, first.strip()[:160]]
            if code == 1:
                break
        res['checks'] = verdicts
        codes = [v[0] for v in verdicts.values()]
        res['verdict'] = 'caught' if 1 in codes else ('inconclusive' if any(c != 0 for c in codes) else 'SURVIVED')
        return res
    finally:
        shutil.rmtree(work, ignore_errors=True)


def main():
    ap = argparse.ArgumentParser()
    ap.add_argument('--per-function', type=int, default=3)
    ap.add_argument('--jobs', type=int, default=4)
    ap.add_argument('--seed', type=int, default=0)
    ap.add_argument('--only', default='')
    ap.add_argument('--out', default='mutation-report.json')
    ap.add_argument('--recheck', help='previous report: re-run its survivors against ALL checks')
    args = ap.parse_args()
    only = set(x for x in args.only.split(',') if x)
    muts = make_mutants(args.per_function, args.seed, only)
    if args.recheck:
        prev = json.load(open(args.recheck))
        surv = {(r['anchor'], r['kind'], r['line'].split('  <=  ')[0]) for r in prev if r['verdict'] in ('SURVIVED', 'inconclusive')}
        allprops = ['C%02d' % i for i in range(1, 21)]
        muts = [dict(m, props=[p for p in allprops if p not in m['props']]) for m in muts if (m['anchor'], m['kind'], m['line'].split('  <=  ')[0]) in surv]
    print('mutants:', len(muts), flush=True)
    results = []
    with concurrent.futures.ThreadPoolExecutor(args.jobs) as pool:
        futs = {pool.submit(evaluate, m, i): m for i, m in enumerate(muts)}
        for fut in concurrent.futures.as_completed(futs):
            r = fut.result()
            results.append(r)
            print('%-16s %-60s %-12s %s | %s' % (r['verdict'], r['anchor'], r['kind'], r['line'], json.dumps(r.get('checks', {}))[:200]), flush=True)
    counts = {}
    for r in results:
        counts[r['verdict']] = counts.get(r['verdict'], 0) + 1
    print('SUMMARY', counts, flush=True)
    with open(args.out, 'w') as fh:
        json.dump(results, fh, indent=1)


if __name__ == '__main__':
    main()
