#!/bin/sh
# usage: tools/seedtest.sh <patch.diff> <ID> [tier]     -- run one check against a scratch worktree of /repo HEAD with the patch applied
# prints: <patch> <ID> exit=<code> <first VIOLATION line>
PATCH="$1"; ID="$2"; TIER="${3:-quick}"
WT=$(mktemp -d /tmp/pvscratch.XXXXXX)
git -C /repo worktree add --detach "$WT" HEAD >/dev/null 2>&1 || { echo "worktree failed"; exit 2; }
if ! git -C "$WT" apply --3way "$PATCH" >/dev/null 2>&1; then
  if ! git -C "$WT" apply "$PATCH" >/dev/null 2>&1; then echo "$PATCH $ID APPLY-FAILED"; git -C /repo worktree remove --force "$WT"; exit 3; fi
fi
HERE=$(cd "$(dirname "$0")/.." && pwd)
OUT=$(cd "$HERE" && PV_REPO="$WT" ./check "$ID" --tier "$TIER" --no-evidence 2>&1)
CODE=$?
echo "$PATCH $ID exit=$CODE $(echo "$OUT" | grep -m1 -A2 VIOLATION | tr '\n' ' ' | cut -c1-300) $(echo "$OUT" | grep -m1 INCONCLUSIVE | cut -c1-300)"
git -C /repo worktree remove --force "$WT" >/dev/null 2>&1
rm -rf "$WT"
exit $CODE
