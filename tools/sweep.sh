#!/bin/sh
# usage: tools/sweep.sh <tier> <seeds...>   -- run every check for each seed (no evidence), print one line per run that did not hold
TIER="$1"; shift
cd "$(dirname "$0")/.." || exit 2
for s in "$@"; do
  for c in C01 C02 C03 C04 C05 C06 C07 C08 C09 C10 C11 C12 C13 C14 C15 C16 C17 C18 C19 C20; do
    OUT=$(VERIF_SEED=$s ./check $c --tier "$TIER" --no-evidence 2>&1); CODE=$?
    echo "$c seed=$s tier=$TIER exit=$CODE $(echo "$OUT" | grep -E 'verdict=' | sed 's/.*cases=/cases=/')"
    if [ $CODE -ne 0 ]; then echo "$OUT" | grep -E "VIOLATION|INCONCLUSIVE|kind=" | head -8; fi
  done
done
