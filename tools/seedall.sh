#!/bin/sh
# usage: tools/seedall.sh [tier]   -- run every recorded seeded change against the check named in its meta.json ("detected_by": "Cxx quick: ...",
# normally its own property's check); every line must say exit=1.   usage: tools/seedall.sh [tier] [egrep pattern on the directory names]
TIER="${1:-quick}"; PAT="${2:-.}"
cd "$(dirname "$0")/.." || exit 2
MISS=0
for d in seeded/*/; do
  echo "$d" | grep -Eq "$PAT" || continue
  id=$(/venv/bin/python -c "import json,sys; print(json.load(open(sys.argv[1]))['detected_by'].split()[0])" "$d/meta.json" 2>/dev/null)
  case "$id" in C[0-9][0-9]) ;; *) id=$(basename "$d" | cut -d- -f1) ;; esac
  OUT=$(tools/seedtest.sh "$(pwd)/${d%/}/patch.diff" "$id" "$TIER" 2>&1 | grep -v conda | cut -c1-260)
  echo "$OUT"
  echo "$OUT" | grep -q "exit=1" || MISS=$((MISS+1))
done
echo "MISSED=$MISS"
