#!/bin/sh
# usage: tools/seedall.sh [tier]   -- run every recorded seeded change against its property's check; every line must say exit=1
TIER="${1:-quick}"
cd "$(dirname "$0")/.." || exit 2
MISS=0
for d in seeded/*/; do
  id=$(basename "$d" | cut -d- -f1)
  OUT=$(tools/seedtest.sh "$(pwd)/${d%/}/patch.diff" "$id" "$TIER" 2>&1 | grep -v conda | cut -c1-260)
  echo "$OUT"
  echo "$OUT" | grep -q "exit=1" || MISS=$((MISS+1))
done
echo "MISSED=$MISS"
