# -*- coding: utf-8 -*-
"""Already failing on the UNCHANGED tree (C06): a pause hook that ends with ``asyncio.CancelledError``.

Same history as a/demo.py, but the ``on_pausing`` hook of the process fails with ``asyncio.CancelledError`` instead of
an ``Exception`` -- e.g. because it asks a cancelled future for its result, the very situation the code base already
tolerates for listeners (``EventHelper.fire_event``), cleanups (``Process.on_close``) and RPC callbacks
(``Process._schedule_rpc``).  ``CancellableAction.run`` only captures ``Exception`` (``kiwipy.capture_exceptions``), and
``Process.step`` runs the action outside any handler: the ``CancelledError`` travels up through ``step`` and
``step_until_terminated`` and ends the stepping task as if *it* had been cancelled.  Nobody cancelled anything; the
process is left WAITING (or RUNNING, when the resume came first), not paused, and a later play()/resume(value) is never
acted upon.  A hook failing with an ordinary exception is survived (the requester gets the exception, the process
goes on stepping).

Exit code 0: property holds.  Non-zero: violated (that is what happens on the unchanged tree).
"""


import asyncio
import sys

import plumpy
from plumpy import ProcessState


class Waiter(plumpy.Process):
    faults = 1

    def __init__(self, *args, **kwargs):
        super().__init__(*args, **kwargs)
        self.received = []
        self._stale = asyncio.get_event_loop().create_future(); self._stale.cancel()

    def run(self):
        return plumpy.Wait(self.carry_on, msg='waiting for the signal')

    def carry_on(self, *args):
        self.received.append(args)

    def on_pausing(self, msg=None):
        super().on_pausing(msg)
        if self.faults:
            self.faults -= 1
            self._stale.result()  # a cancelled future: raises asyncio.CancelledError


async def until(predicate, timeout=2.0):
    end = asyncio.get_event_loop().time() + timeout
    while not predicate():
        if asyncio.get_event_loop().time() > end:
            return False
        await asyncio.sleep(0.01)
    return True


async def scenario(resume_first):
    problems = []
    proc = Waiter()
    task = asyncio.ensure_future(proc.step_until_terminated())
    assert await until(lambda: proc.state == ProcessState.WAITING), 'never got to WAITING'
    await asyncio.sleep(0.02)  # the step is blocked on the wait now

    if resume_first:
        # the wake-up comes first, the pause request right behind it (before the step has woken up)
        proc.resume('payload')
        action = proc.pause('hold on')
    else:
        action = proc.pause('hold on')

    # The pause fails in the hook; whoever asked for it is told
    try:
        outcome = await asyncio.wait_for(asyncio.shield(action), 2.0)
        problems.append(f'the failing pause request was answered with {outcome!r} instead of the failure')
    except (RuntimeError, asyncio.CancelledError):
        pass
    except asyncio.TimeoutError:
        problems.append('the failing pause request was never answered')

    await asyncio.sleep(0.05)

    # From here on: an ordinary wake-up of a playing process
    played = proc.play()
    if not resume_first:
        proc.resume('payload')

    finished = await until(proc.has_terminated)
    label = 'resume,pause(fails),play' if resume_first else 'pause(fails),play,resume'
    if not finished:
        problems.append(
            f'[{label}] play() -> {played}, paused={proc.paused}, resumed with a value, yet the process is stuck in '
            f'{proc.state} (stepping task done={task.done()}'
            + (f', ended with {task.exception()!r}' if task.done() and not task.cancelled() else '')
            + f'); continuation calls so far: {proc.received}'
        )
    elif proc.state != ProcessState.FINISHED:
        problems.append(f'[{label}] the process ended in {proc.state} instead of FINISHED')
    if finished and proc.received != [('payload',)]:
        problems.append(f'[{label}] the continuation was called with {proc.received}, expected exactly once with the value')

    if not task.done():
        task.cancel()
    try:
        await task
    except BaseException:
        pass
    return problems


# --- second history (unchanged tree): resume() and, right behind it in the same loop callback, the completion of an
# awaitable of a work chain: the next outline step runs before the done-callback of the awaitable, so the step does not
# find the (completed) awaitable in the context.  (Arguable: one loop iteration of asyncio done-callback latency.)
class Barrier(plumpy.WorkChain):
    @classmethod
    def define(cls, spec):
        super().define(spec)
        spec.outline(cls.submit, cls.collect)

    def submit(self):
        self.first = self.loop.create_future()
        return plumpy.ToContext(first=self.first)

    def collect(self):
        self.seen = self.ctx.get('first', '<missing>')
        self.was_done = self.first.done()


async def resume_then_completion():
    chain = Barrier()
    task = asyncio.ensure_future(chain.step_until_terminated())
    assert await until(lambda: chain.state == ProcessState.WAITING)
    await asyncio.sleep(0.02)
    chain.resume()
    chain.first.set_result('one')
    await until(chain.has_terminated)
    if not task.done():
        task.cancel()
    if chain.seen != 'one':
        return [f"[resume, completion (same callback)] awaitable done={chain.was_done} when the next step ran, ctx.first = {chain.seen!r}"]
    return []


def main():
    loop = asyncio.new_event_loop()
    asyncio.set_event_loop(loop)
    loop.set_exception_handler(lambda _loop, _context: None)
    problems = []
    for resume_first in (False, True):
        problems.extend(loop.run_until_complete(scenario(resume_first)))
    problems.extend(loop.run_until_complete(resume_then_completion()))
    if problems:
        print('C06 VIOLATED')
        for problem in problems:
            print(' -', problem)
        return 1
    print('ok: the wake-up survived the failed pause request')
    return 0


if __name__ == '__main__':
    sys.exit(main())
