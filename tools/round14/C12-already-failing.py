# -*- coding: utf-8 -*-
"""C12: histories / inputs for which the UNCHANGED tree already deviates from the property statement.

Run as  PYTHONPATH=<tree>/src /venv/bin/python already-failing.py  -- exits 1 and lists what it found (0 = nothing found).

 1. ``UNSPECIFIED`` is ``()`` and CPython has a single empty tuple: ``out(port, ())`` is taken for "no value".  On an
    optional port the type check and the validator are skipped -> ``()`` is stored on an ``int`` port and the process ends
    successful with it.  (On a required port of type ``tuple`` the perfectly valid ``()`` is refused.)
 2. ``out()`` has the validator call inside the ``try ... except KeyError`` of the port look-up: a port validator that
    raises ``KeyError`` (e.g. indexes the dict it is given) makes ``out()`` treat the declared port as an undeclared
    one; in a dynamic namespace the value is then stored without the validator having accepted it, and no error is raised.
 3. ``out()`` creates the sub-namespaces of a nested path in the (class level) spec BEFORE it validates: a REJECTED
    emission leaves the namespace behind, and afterwards a value the declared spec accepts for that name is refused --
    in the same process and in every later process of the class (acceptance depends on the history of rejected calls).
 4. Same mechanism, other face: ``out('x', 5)`` (fine, dynamic) followed by ``out('x.y', 1)`` raises ``TypeError`` (not
    ``ValueError``), leaves the outputs alone, but has turned ``x`` into a namespace in the spec: the process then ends
    UNSUCCESSFUL although every stored value was accepted when it was emitted and nothing is missing.
"""

import logging
import sys

from plumpy import Process, ProcessState

logging.disable(logging.CRITICAL)
found = []


def attempt(proc, port, value):
    try:
        proc.out(port, value)
    except Exception as exception:
        return f'{type(exception).__name__}: {exception}'
    return 'stored'


# -- 1 ---------------------------------------------------------------------------------------------------------------
class EmptyTuple(Process):
    @classmethod
    def define(cls, spec):
        super().define(spec)
        spec.output('count', valid_type=int, required=False, validator=lambda value, port: 'never acceptable')

    def run(self):
        self.log = [attempt(self, 'count', ()), attempt(self, 'count', 'text'), attempt(self, 'count', 3)]


class RequiredTuple(Process):
    @classmethod
    def define(cls, spec):
        super().define(spec)
        spec.output('dims', valid_type=tuple)

    def run(self):
        self.log = [attempt(self, 'dims', ())]


proc = EmptyTuple()
proc.execute()
print('1.', proc.log, proc.state, proc.is_successful, proc.outputs)
if proc.log[0] == 'stored':
    found.append(
        f"1a. out('count', ()) stored on an int port whose validator refuses everything; the process ended {proc.state} "
        f'successful={proc.is_successful} with outputs={proc.outputs}'
    )
proc = RequiredTuple()
proc.execute()
print('1.', proc.log, proc.state, proc.is_successful, proc.outputs)
if proc.log[0] != 'stored':
    found.append(f"1b. out('dims', ()) refused on a required port of type tuple: {proc.log[0]}")


# -- 2 ---------------------------------------------------------------------------------------------------------------
def kind_is_ok(value, _port):
    return None if value['kind'] == 'ok' else 'bad kind'  # KeyError for a dict without 'kind'


class ValidatorKeyError(Process):
    @classmethod
    def define(cls, spec):
        super().define(spec)
        spec.outputs.dynamic = True
        spec.output('data', valid_type=dict, required=False, validator=kind_is_ok)

    def run(self):
        self.log = [attempt(self, 'data', {'kind': 'bad'}), attempt(self, 'data', {})]


proc = ValidatorKeyError()
try:
    proc.execute()
except Exception:
    pass
print('2.', proc.log, proc.state, proc.outputs)
if proc.log[1] == 'stored':
    found.append(
        f"2. out('data', {{}}) stored (as a dynamic output) although the validator of the declared port raised KeyError: "
        f'outputs={proc.outputs}, final state {proc.state}'
    )


# -- 3 ---------------------------------------------------------------------------------------------------------------
class Polluted(Process):
    @classmethod
    def define(cls, spec):
        super().define(spec)
        spec.output_namespace('res', valid_type=int, dynamic=True, required=False)

    def run(self):
        self.log = []
        if self.inputs is not None and self.inputs.get('reject_first'):
            self.log.append(attempt(self, 'res.x.y', 'not an int'))
        self.log.append(attempt(self, 'res.x', 5))


class PollutedA(Polluted):
    @classmethod
    def define(cls, spec):
        super().define(spec)
        spec.input('reject_first', valid_type=bool, default=False)


clean = PollutedA()
clean.execute()
dirty = PollutedA(inputs={'reject_first': True})
dirty.execute()
later = PollutedA()
later.execute()
print('3.', clean.log, dirty.log, later.log)
if clean.log[-1] == 'stored' and (dirty.log[-1] != 'stored' or later.log[-1] != 'stored'):
    found.append(
        "3. out('res.x', 5) is accepted by a fresh process, but refused after a REJECTED out('res.x.y', 'not an int') "
        f'(same process: {dirty.log[-1]!r}; a later process of the class: {later.log[-1]!r})'
    )


# -- 4 ---------------------------------------------------------------------------------------------------------------
class ValueThenNamespace(Process):
    @classmethod
    def define(cls, spec):
        super().define(spec)
        spec.outputs.dynamic = True

    def run(self):
        self.log = [attempt(self, 'x', 5), attempt(self, 'x.y', 1)]


proc = ValueThenNamespace()
proc.execute()
print('4.', proc.log, proc.state, proc.is_successful, proc.outputs)
if proc.log[1].startswith('TypeError'):
    found.append(f"4a. out('x.y', 1) after out('x', 5) raised {proc.log[1]!r} (not ValueError)")
if proc.state == ProcessState.FINISHED and not proc.is_successful:
    found.append(
        f'4b. the process ended unsuccessful with outputs {proc.outputs}: every stored value was accepted by out() and '
        'nothing is required, the failed call has changed the spec of the class'
    )

if found:
    print('\nDEVIATIONS FROM THE PROPERTY ON THIS TREE:')
    for item in found:
        print(' -', item)
    sys.exit(1)
print('\nnothing found')
