# -*- coding: utf-8 -*-
"""Histories for which the UNCHANGED tree already violates C02 (exit 1 and a list of what was seen; exit 0 if none)."""
import asyncio
import logging
import sys

import plumpy
from plumpy import ProcessState

logging.disable(logging.CRITICAL)


class Recorder(plumpy.ProcessListener):
    def __init__(self):
        super().__init__()
        self.terminal = []

    def on_process_finished(self, process, outputs):
        self.terminal.append('finished')

    def on_process_excepted(self, process, reason):
        self.terminal.append('excepted')

    def on_process_killed(self, process, msg):
        self.terminal.append('killed')


class Simple(plumpy.Process):
    async def run(self):
        return 5


def case_close_then_kill(problems):
    """1. close() on a live process (public, 'indicates that this process should not be ran anymore'), then kill():
    close() dropped the state event hooks, so entering KILLED neither resolves the future nor notifies anybody."""
    proc = Simple()
    recorder = Recorder()
    proc.add_process_listener(recorder)
    proc.close()
    answer = proc.kill('stop')
    if proc.state == ProcessState.KILLED and not proc.future().done():
        problems.append(
            f'close-then-kill: kill() -> {answer}, state {proc.state}, killed_msg {proc.killed_msg()!r}, but the future '
            f'is still pending (waiters never released) and terminal notifications = {recorder.terminal}'
        )


def case_reentrant_close(problems):
    """2. A cleanup that calls close() ('safe to call multiple times'): ``_closed`` is only set after the cleanups, so
    the nested close() runs all cleanups again, recursively, until the recursion limit."""
    proc = Simple()
    calls = []

    def cleanup():
        calls.append(1)
        proc.close()

    proc.add_cleanup(cleanup)
    proc.execute()
    if len(calls) != 1:
        problems.append(f're-entrant close: a registered cleanup ran {len(calls)} times')


class FaultyCommunicator:
    """A communicator whose broadcast fails with an error that is not one of the four that on_entered tolerates"""

    def add_rpc_subscriber(self, subscriber, identifier=None):
        return identifier

    def remove_rpc_subscriber(self, identifier):
        pass

    def add_broadcast_subscriber(self, subscriber, identifier=None):
        return identifier

    def remove_broadcast_subscriber(self, identifier):
        pass

    broken = False

    def broadcast_send(self, body, sender=None, subject=None, correlation_id=None):
        if self.broken:
            raise OSError('socket gone')
        return True


class Gate(plumpy.Process):
    async def run(self):
        self.gate = self.loop.create_future()
        await self.gate
        return 7


async def case_broadcast_fault(problems):
    """3. An outside failure of the state-change broadcast (anything but ConnectionClosed, ChannelInvalidStateError,
    CommunicatorClosed, TimeoutError) while entering the terminal state: 'finished' was notified and the future resolved
    with the outputs, then the process is re-routed to EXCEPTED, whose own broadcast fails too: second terminal
    notification, process never closed, cleanups never run, step_until_terminated() raises."""
    communicator = FaultyCommunicator()
    proc = Gate(communicator=communicator)
    recorder = Recorder()
    proc.add_process_listener(recorder)
    cleanups = []
    proc.add_cleanup(lambda: cleanups.append(1))
    early = proc.future()
    stepper = asyncio.ensure_future(proc.step_until_terminated())
    while getattr(proc, 'gate', None) is None:
        await asyncio.sleep(0)
    communicator.broken = True
    proc.gate.set_result(None)
    raised = None
    try:
        await asyncio.wait_for(stepper, 5)
    except BaseException as exc:  # noqa: BLE001
        raised = exc
    seen = []
    if raised is not None:
        seen.append(f'step_until_terminated() raised {raised!r}')
    if len(recorder.terminal) != 1:
        seen.append(f'terminal notifications {recorder.terminal}')
    if cleanups != [1]:
        seen.append(f'cleanup ran {len(cleanups)} times')
    try:
        proc.add_cleanup(lambda: None)
        seen.append('not closed')
    except plumpy.ClosedError:
        pass
    if early.done() and early.exception() is None and proc.state != ProcessState.FINISHED:
        seen.append(f'the future first handed out resolved to outputs, the process is {proc.state}')
    if seen:
        problems.append('broadcast fault at the terminal transition: ' + '; '.join(seen))


def main():
    problems = []
    case_close_then_kill(problems)
    case_reentrant_close(problems)
    asyncio.run(case_broadcast_fault(problems))
    return problems


if __name__ == '__main__':
    found = main()
    if found:
        print('C02 violated on this tree:')
        for line in found:
            print('  -', line)
        sys.exit(1)
    print('nothing found')
