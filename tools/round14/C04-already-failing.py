# -*- coding: utf-8 -*-
"""C04 on the UNCHANGED tree: a kill request placed inside a running step is lost when that step ends with
``asyncio.CancelledError`` (e.g. the step awaited a future/task of its own that somebody cancelled).

``Running.execute`` and ``Process.step`` only treat ``Exception`` as a failure of the step.  ``asyncio.CancelledError``
is a ``BaseException``: it passes through both, ``step()``'s ``finally`` cancels the pending kill action, and the
exception ends the task that runs ``step_until_terminated()`` -- although nobody cancelled that task.  Outcome: the
process neither ends KILLED nor EXCEPTED ("... ends KILLED as soon as the current step yields, or EXCEPTED if that step
fails"), it stays RUNNING with nothing stepping it, and the future handed back by kill() is cancelled.  (A *further*
kill() does terminate it, so the process is not unkillable; what is lost is the first request.)

Borderline on purpose: asyncio cannot tell "the awaited thing was cancelled" from "this task is being cancelled".
But nobody called ``cancel()`` on the stepping task here.

Exit code 1 when the violation is observed, 0 otherwise.
"""

import asyncio
import logging
import sys

import plumpy
from plumpy import ProcessState

logging.disable(logging.CRITICAL)


class AwaitsSomethingCancellable(plumpy.Process):
    helper = None

    async def run(self):
        # e.g. a transport request, a sub-task ... that another party may cancel
        self.helper = asyncio.get_event_loop().create_future()
        await self.helper
        return 1


async def main_async():
    proc = AwaitsSomethingCancellable()
    task = asyncio.ensure_future(proc.step_until_terminated())
    while proc.helper is None:
        await asyncio.sleep(0)

    kill_future = proc.kill('stop')  # inside a running step: carried out when the step yields
    assert asyncio.isfuture(kill_future)

    proc.helper.cancel()  # the step now ends with CancelledError
    for _ in range(20):
        await asyncio.sleep(0)

    print('state after the step yielded      :', proc.state)
    print('future returned by kill()         :', kill_future)
    print('step_until_terminated() task      :', 'done' if task.done() else 'pending',
          '(cancelled)' if task.done() and task.cancelled() else '')

    violated = proc.state not in (ProcessState.KILLED, ProcessState.EXCEPTED)
    if violated:
        print('C04 VIOLATED: the step yielded, the process is neither KILLED nor EXCEPTED; the kill request was dropped')
        print('a further kill() gives            :', proc.kill('again'), proc.state)
    return 1 if violated else 0


if __name__ == '__main__':
    plumpy.set_event_loop_policy()
    sys.exit(asyncio.get_event_loop().run_until_complete(main_async()))
