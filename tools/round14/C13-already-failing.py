# -*- coding: utf-8 -*-
"""C13: histories / inputs for which the UNCHANGED tree already violates the property statement.

Run as ``PYTHONPATH=<tree>/src /venv/bin/python already-failing.py``: prints one line per case and exits 1 if any of
them is violated (which is what happens on the unchanged tree).

 1. checkpoint written after ``resume(v)`` but before the next step ran (same loop iteration, state still WAITING):
    the value only lives in the (unsaved) wait future, so the restored process is WAITING without it and never runs f(v)
 2. ``Continue(f, **k)`` with a keyword named ``process``, ``run_fn`` or ``state_label``: collides with a parameter of
    ``Running.__init__`` / ``State.create_state`` -> TypeError -> EXCEPTED instead of f(**k)
 3. the same ``Bundle`` unbundled twice: the pending step's arguments are not copied on load, so the two processes share
    them and what the first does to its (mutable) argument is seen by the step of the second
 4. a continuation with a name-mangled name (``self.__step``): saved by ``__name__``, which ``getattr`` cannot resolve
    on restore -> the checkpoint cannot be loaded
"""

import asyncio
import sys

import plumpy
from plumpy import Continue, Process, ProcessState, Wait

violations = []


class Waiter(Process):
    async def run(self):
        return Wait(self.after, 'waiting')

    def after(self, *args):
        return args


async def case_resume_value_lost():
    proc = Waiter()
    task = asyncio.ensure_future(proc.step_until_terminated())
    while proc.state != ProcessState.WAITING:
        await asyncio.sleep(0)
    proc.resume(42)
    bundle = plumpy.Bundle(proc)  # between the ``Wait`` and the next step
    await task
    assert proc.result() == (42,)
    restored = bundle.unbundle()
    task = asyncio.ensure_future(restored.step_until_terminated())
    try:
        await asyncio.wait_for(asyncio.shield(task), 0.5)
    except asyncio.TimeoutError:
        violations.append(f'1. restored process is {restored.state} for good: resume value 42 lost, after(42) never runs')
        task.cancel()
        return
    if restored.result() != (42,):
        violations.append(f'1. restored process finished with {restored.result()} instead of (42,)')


def case_reserved_keywords():
    for keyword in ('process', 'run_fn', 'state_label'):

        class Kw(Process):
            async def run(self):
                return Continue(self.after, **{keyword: 7})

            def after(self, **kwargs):
                return kwargs

        proc = Kw()
        try:
            proc.execute()
        except Exception:
            pass
        if proc.state != ProcessState.FINISHED or proc.result() != {keyword: 7}:
            violations.append(f'2. Continue(f, {keyword}=7): {proc.state}, {proc.exception()!r}')


class Shared(Process):
    async def run(self):
        return Continue(self.last, [1])

    def last(self, items):
        items.append('x')
        return list(items)


class KeepRunningLast(plumpy.ProcessListener):
    def __init__(self):
        self.bundles = []

    def on_process_running(self, proc):
        self.bundles.append(plumpy.Bundle(proc))


async def case_bundle_loaded_twice():
    proc = Shared()
    listener = KeepRunningLast()
    proc.add_process_listener(listener)
    await proc.step_until_terminated()
    bundle = listener.bundles[-1]  # RUNNING, about to run last([1])
    first = bundle.unbundle()
    await first.step_until_terminated()
    second = bundle.unbundle()
    await second.step_until_terminated()
    if first.result() != [1, 'x'] or second.result() != [1, 'x']:
        violations.append(f'3. same bundle loaded twice: first -> {first.result()}, second -> {second.result()}')


class Mangled(Process):
    async def run(self):
        return Continue(self.__hidden, 4)

    def __hidden(self, number):
        return number


async def case_mangled_name():
    proc = Mangled()
    listener = KeepRunningLast()
    proc.add_process_listener(listener)
    await proc.step_until_terminated()
    assert proc.result() == 4
    try:
        restored = listener.bundles[-1].unbundle()
        await restored.step_until_terminated()
        if restored.result() != 4:
            violations.append(f'4. restored process finished with {restored.result()}')
    except Exception as exc:
        violations.append(f'4. checkpoint taken before a name-mangled step cannot be loaded: {type(exc).__name__}: {exc}')


def main():
    loop = asyncio.get_event_loop()
    loop.run_until_complete(case_resume_value_lost())
    case_reserved_keywords()
    loop.run_until_complete(case_bundle_loaded_twice())
    loop.run_until_complete(case_mangled_name())
    for violation in violations:
        print('VIOLATED', violation)
    if not violations:
        print('no violation')
    return 1 if violations else 0


if __name__ == '__main__':
    plumpy.set_event_loop_policy()
    sys.exit(main())
