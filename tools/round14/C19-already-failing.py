"""Histories / input shapes for which the UNCHANGED tree already violates C19.

Run: PYTHONPATH=<tree>/src /venv/bin/python already-failing.py   (exits 1 when at least one violation is seen)
"""
import asyncio
import sys

import plumpy

problems = []


# 1. A subclass of SavableFuture that declares a member of its own: SavableFuture.recreate_from() builds the object
#    with cls(loop=...) and never calls load_instance_state(), so the declared member is saved but not restored.
@plumpy.auto_persist('label')
class LabelledFuture(plumpy.SavableFuture):
    def __init__(self, *args, **kwargs):
        super().__init__(*args, **kwargs)
        self.label = 'default'


# 2. A member holding a bound "private" (double underscore) method: the function's __name__ is not mangled, the
#    attribute name is, so the method saved by __name__ cannot be found again at load time.
@plumpy.auto_persist('callback')
class PrivateCallback(plumpy.Savable):
    def __init__(self):
        self.callback = self.__hidden

    def __hidden(self):
        return 'hidden'


# 3. Two declaring bases (multiple inheritance): the decorator / hook only look at `cls._auto_persist`, i.e. the set of
#    the first base in the MRO; the members declared by the second base are neither saved nor restored.
@plumpy.auto_persist('left')
class Left(plumpy.Savable):
    pass


@plumpy.auto_persist('right')
class Right(plumpy.Savable):
    pass


@plumpy.auto_persist('own')
class Both(Left, Right):
    def __init__(self):
        self.left, self.right, self.own = 1, 2, 3


def main():
    loop = asyncio.new_event_loop()
    asyncio.set_event_loop(loop)

    fut = LabelledFuture(loop=loop)
    fut.label = 'important'
    state = fut.save()
    assert state['label'] == 'important'
    loaded = plumpy.Savable.load(state, plumpy.LoadSaveContext(loop=loop))
    if getattr(loaded, 'label', None) != 'important':
        problems.append(f"1. declared member of a SavableFuture subclass not restored: {getattr(loaded, 'label', '<missing>')!r}")

    obj = PrivateCallback()
    try:
        loaded = plumpy.Savable.load(obj.save())
        assert loaded.callback.__self__ is loaded
    except Exception as exc:
        problems.append(f'2. bound private method not rebound: {type(exc).__name__}: {exc}')

    both = Both()
    state = both.save()
    loaded = plumpy.Savable.load(state)
    if 'right' not in state or getattr(loaded, 'right', None) != 2:
        problems.append(f"3. member declared by the second base not saved/restored: saved keys {sorted(k for k in state if k != '!!meta')}")

    for problem in problems:
        print(problem)
    return 1 if problems else 0


if __name__ == '__main__':
    sys.exit(main())
