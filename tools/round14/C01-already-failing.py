# -*- coding: utf-8 -*-
"""UNCHANGED tree: a terminal state is left again when the state-change broadcast of that very state fails with an
exception other than the few broker exceptions ``Process.on_entered`` tolerates.

``kiwipy.LocalCommunicator`` delivers a broadcast synchronously to its subscribers, so a subscriber that raises makes
``broadcast_send`` raise inside ``on_entered`` -- after FINISHED/KILLED has been entered.  The transition started in a
live state, so ``transition_failed`` routes it to EXCEPTED: RUNNING -> FINISHED -> EXCEPTED, CREATED -> KILLED -> EXCEPTED.
No lifecycle hook of the process raises; the fault is in an outside subscriber (any communicator whose
``broadcast_send`` raises e.g. RuntimeError does the same).

Exits 1 (printing the state sequences) when the violation is reproduced, 0 otherwise.
"""

import logging
import sys

import kiwipy
import plumpy
from plumpy import ProcessState

logging.disable(logging.CRITICAL)


class Recorder(plumpy.ProcessListener):
    def __init__(self):
        super().__init__()
        self.seen = []

    def on_process_finished(self, process, outputs):
        self.seen.append(process.state.value)

    def on_process_killed(self, process, msg):
        self.seen.append(process.state.value)

    def on_process_excepted(self, process, reason):
        self.seen.append(process.state.value)


class Simple(plumpy.Process):
    def run(self):
        return 5


def broken_subscriber(_comm, body, sender, subject, correlation_id):
    if subject.endswith(('.finished', '.killed')):
        raise RuntimeError('subscriber cannot cope with this broadcast')


violations = []

communicator = kiwipy.LocalCommunicator()
communicator.add_broadcast_subscriber(broken_subscriber)

proc = Simple(communicator=communicator)
recorder = Recorder()
proc.add_process_listener(recorder)
try:
    proc.execute()
except Exception as exc:
    print(f'execute() raised {exc!r}')
print(f'finish: terminal states announced {recorder.seen}, state now {proc.state.value}')
if proc.state != ProcessState.FINISHED or len(recorder.seen) > 1:
    violations.append(f'finish: {recorder.seen} -> now {proc.state.value}')

proc = Simple(communicator=communicator)
recorder = Recorder()
proc.add_process_listener(recorder)
print(f'kill() returned {proc.kill("stop")}')
print(f'kill: terminal states announced {recorder.seen}, state now {proc.state.value}')
if proc.state != ProcessState.KILLED or len(recorder.seen) > 1:
    violations.append(f'kill: {recorder.seen} -> now {proc.state.value}')

if violations:
    print('terminal state left again on the unchanged tree:', violations)
    sys.exit(1)
print('not reproduced')
