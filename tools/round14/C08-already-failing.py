# -*- coding: utf-8 -*-
"""Histories for which the UNCHANGED tree already violates C08 (resuming from a checkpoint reproduces the uninterrupted
execution).  Exits 1 if any of them shows (they all do on the tree handed out), 0 otherwise.

1. A continuation / outline step that is a private (name-mangled) method: it is saved as ``__name__`` ('__second') and looked
   up by that name on load, where the attribute is really called '_Cls__second' -> the checkpoint cannot be loaded.
2. A mutable value that is emitted as an output AND kept in the context: the uninterrupted run sees one object, the
   checkpoint stores two copies (outputs are encoded separately from the context), so a later step that updates it through
   the context no longer updates the output after a restore.
3. A process class that mixes in another ``auto_persist``-ed Savable in front of ``Process``: the mixin's ``_auto_persist``
   set shadows the one of ``Process``, so ``_pid``, ``_paused``, ``_status``, the listeners ... are not saved: the recreated
   process has no pid (``.pid`` raises) and is not paused even if the original was.
"""
import asyncio
import sys
import warnings

warnings.simplefilter('ignore')

import plumpy
from plumpy import WorkChain, persistence


class PrivateStep(plumpy.Process):
    @classmethod
    def define(cls, spec):
        super().define(spec)
        spec.outputs.dynamic = True

    def run(self):
        return plumpy.Continue(self.__second)

    def __second(self):
        self.out('done', True)


class PrivateOutlineStep(WorkChain):
    @classmethod
    def define(cls, spec):
        super().define(spec)
        spec.outputs.dynamic = True
        spec.outline(cls.first, cls.__second)

    def first(self):
        self.ctx.a = 1

    def __second(self):
        self.out('done', True)


class SharedValue(WorkChain):
    @classmethod
    def define(cls, spec):
        super().define(spec)
        spec.outputs.dynamic = True
        spec.outline(cls.publish, cls.update)

    def publish(self):
        self.ctx.report = {'items': []}
        self.out('report', self.ctx.report)

    def update(self):
        self.ctx.report['items'].append('late entry')


@persistence.auto_persist('count')
class Counting(persistence.Savable):
    count = 0


class MixedIn(Counting, plumpy.Process):
    def run(self):
        self.count += 1
        return plumpy.Continue(self.second)

    def second(self):
        self.count += 1
        return self.count


class Checkpointer(plumpy.ProcessListener):
    persister = None
    tags = None

    def on_process_running(self, process):
        tag = f'b{len(Checkpointer.tags)}'
        Checkpointer.tags.append(tag)
        Checkpointer.persister.save_checkpoint(process, tag)


def fresh_loop():
    loop = asyncio.new_event_loop()
    asyncio.set_event_loop(loop)
    return loop


def check(cls):
    problems = []
    loop = fresh_loop()
    Checkpointer.persister, Checkpointer.tags = plumpy.InMemoryPersister(), []
    persister = Checkpointer.persister
    proc = cls(loop=loop)
    proc.add_process_listener(Checkpointer())
    loop.run_until_complete(proc.step_until_terminated())
    expected = (proc.state, proc.outputs, proc.pid)
    tags = list(Checkpointer.tags)
    for tag in tags:
        loop = fresh_loop()
        Checkpointer.persister, Checkpointer.tags = plumpy.InMemoryPersister(), []
        try:
            restored = persister.load_checkpoint(proc.pid, tag).unbundle(plumpy.LoadSaveContext(loop=loop))
            loop.run_until_complete(restored.step_until_terminated())
            got = (restored.state, restored.outputs, restored.pid)
        except Exception as exception:
            problems.append(f'{cls.__name__}: continuing from {tag} failed: {type(exception).__name__}: {exception}')
            continue
        if got != expected:
            problems.append(f'{cls.__name__}: continued from {tag}: {got} instead of {expected}')
    return problems


def main():
    problems = []
    for cls in (PrivateStep, PrivateOutlineStep, SharedValue, MixedIn):
        try:
            problems.extend(check(cls))
        except Exception as exception:
            problems.append(f'{cls.__name__}: {type(exception).__name__}: {exception}')
    for problem in problems:
        print('VIOLATION (unchanged tree):', problem)
    return 1 if problems else 0


if __name__ == '__main__':
    sys.exit(main())
