# -*- coding: utf-8 -*-
"""C15: inputs / histories for which the UNCHANGED tree already departs from the property statement.

Run as `PYTHONPATH=<tree>/src /venv/bin/python already-failing.py`; prints one line per finding and exits 1 if any
of them reproduces (they all do on the unchanged tree).  Findings 1 and 2 are the clearest; 3-5 are borderline readings
of the statement.
"""
import sys

from plumpy.process_spec import ProcessSpec

found = []


def expose(dest, source, namespace=None, exclude=None, include=None, options=None):
    dest._expose_ports(None, source.inputs, dest.inputs, dest._exposed_inputs, namespace, exclude, include, options)


# 1. "with the source namespace's properties unless overridden by namespace options": the `valid_type` setter forces
#    `dynamic = True`, and absorb() sets the properties in alphabetical order (dynamic before valid_type), so
#    (a) an explicit override `dynamic=False` is lost when the source (or the override) has a valid_type, and
#    (b) a source namespace with valid_type=int that was explicitly made non-dynamic is exposed as dynamic
#        (top level and nested alike).
source = ProcessSpec()
source.input('a')
source.inputs.valid_type = int
dest = ProcessSpec()
expose(dest, source, 'ns', options={'dynamic': False})
if dest.inputs['ns'].dynamic is not False:
    found.append("1a. namespace_options={'dynamic': False} ignored when the source has a valid_type: dynamic is True")

source = ProcessSpec()
source.input_namespace('sub')
source.inputs['sub'].valid_type = int
source.inputs['sub'].dynamic = False
dest = ProcessSpec()
expose(dest, source, 'ns')
if dest.inputs['ns']['sub'].dynamic != source.inputs['sub'].dynamic:
    found.append('1b. nested source namespace (valid_type=int, dynamic=False) is exposed with dynamic=True')

# 2. "leaves other ports of the destination in place": a nested namespace of the destination that has the same name as
#    a nested namespace of the source is REPLACED, its own ports are lost (also the ones the source does not have)
source = ProcessSpec()
source.input('sub.y')
dest = ProcessSpec()
dest.input('sub.x')
expose(dest, source)
if 'x' not in dest.inputs['sub']:
    found.append(f"2. own port `sub.x` of the destination lost by exposing a source with `sub.y`: {list(dest.inputs['sub'])}")

# 3. "include together with exclude is rejected": with an EMPTY exclude the call is rejected by absorb(), but only
#    after the target namespace was made: the rejected call leaves an (empty) namespace behind in the destination
source = ProcessSpec()
source.input('a')
dest = ProcessSpec()
try:
    expose(dest, source, 'ns', exclude=[], include=['a'])
except ValueError:
    pass
if 'ns' in dest.inputs:
    found.append('3. rejected exposure (exclude=[] with include) leaves the namespace `ns` behind in the destination')

# 4. "The copy is independent": the default of a (nested or top level) NAMESPACE is taken over by reference
#    (leaf ports are deep-copied), a change made in place shows through
source = ProcessSpec()
source.input_namespace('sub', default={'k': [1]})
dest = ProcessSpec()
expose(dest, source, 'ns')
source.inputs['sub'].default['k'].append(2)
if dest.inputs['ns']['sub'].default == {'k': [1, 2]}:
    found.append('4. in-place change of the default of a source namespace shows through to the exposed copy')

# 5. a rejected call with an unsupported namespace option has already overwritten the properties of the destination
source = ProcessSpec()
source.inputs.help = 'source help'
dest = ProcessSpec()
dest.inputs.help = 'own help'
try:
    expose(dest, source, None, options={'bogus': 1})
except ValueError:
    pass
if dest.inputs.help != 'own help':
    found.append(f'5. rejected exposure (unsupported option) changed the destination properties: help={dest.inputs.help!r}')

for line in found:
    print(line)
sys.exit(1 if found else 0)
