"""A checkpoint written while an elif_ predicate is being evaluated, loaded and continued.

Outline: if_(p1)(a).elif_(p2)(b).else_(c), d    with p1 False, p2 True.
Expected calls (for the original and for any continuation of the checkpoint, which re-does the instruction in
progress): ... p1, p2, b, d.   Observed on the continuation: p1, p2, c, d  (the else_ body instead of the elif_ body).

Mechanism: _IfStepper.step advances the persisted `_pos` while it walks through the predicates; a checkpoint
written meanwhile carries `_pos == 1` and no child stepper; the loaded stepper walks the predicates again FROM THE
FIRST but keeps counting from the loaded `_pos`, so the branch taken is `_pos(loaded) + index of the true predicate`.
"""
import asyncio
import sys

import plumpy
from plumpy import WorkChain, if_

CALLS = []
BUNDLES = []


class Chain(WorkChain):
    @classmethod
    def define(cls, spec):
        super().define(spec)
        spec.outline(cls.s0, if_(cls.p1)(cls.a).elif_(cls.p2)(cls.b).else_(cls.c), cls.d)

    def s0(self):
        CALLS.append('s0')

    def p1(self):
        CALLS.append('p1')
        return False

    def p2(self):
        CALLS.append('p2')
        if not BUNDLES:
            BUNDLES.append(plumpy.Bundle(self))
        return True

    def a(self):
        CALLS.append('a')

    def b(self):
        CALLS.append('b')

    def c(self):
        CALLS.append('c')

    def d(self):
        CALLS.append('d')
        return 'D'


class RunStep(WorkChain):
    """Second, smaller observation: an outline step that happens to be called ``run`` (as in the test suite's own
    ``test_tocontext_schedule_workchain``) replaces ``WorkChain.run``, the entry point that drives the outline: the step is
    called once, directly, and the chain finishes with its value; no other instruction of the outline is executed."""

    @classmethod
    def define(cls, spec):
        super().define(spec)
        spec.outline(cls.run, cls.check)

    def run(self):
        CALLS.append('run')

    def check(self):
        CALLS.append('check')
        return 3


def step_named_run():
    del CALLS[:]
    proc = RunStep()
    proc.execute()
    print('step named run:', CALLS, proc.result())
    if CALLS != ['run', 'check'] or proc.result() != 3:
        print('VIOLATION: the outline (run, check) ended after `run`: `check` was never called')
        return 1
    return 0


def main():
    loop = asyncio.new_event_loop()
    asyncio.set_event_loop(loop)
    proc = Chain()
    proc.execute()
    first = list(CALLS)
    del CALLS[:]
    BUNDLES.append(None)
    copy = BUNDLES[0].unbundle(plumpy.LoadSaveContext(loop=loop))
    try:
        copy.execute()
        result = copy.result()
    except BaseException as exc:  # noqa
        result = repr(exc)
    second = list(CALLS)
    print('original     :', first, proc.result())
    print('continuation :', second, result)
    ok = first == ['s0', 'p1', 'p2', 'b', 'd'] and second == ['p1', 'p2', 'b', 'd'] and result == 'D'
    status = 0
    if not ok:
        print('VIOLATION: the continuation did not execute the branch of the first true predicate')
        status = 1
    return step_named_run() or status


if __name__ == '__main__':
    sys.exit(main())
