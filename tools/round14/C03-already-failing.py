# -*- coding: utf-8 -*-
"""Histories for which the UNCHANGED tree already violates C03 (each case is independent; exit code 1 if any is violated).

 1. A hook raises ``StopIteration`` (``next()`` on an exhausted iterator): ``on_except`` hands it to
    ``Future.set_exception``, which refuses it with a ``TypeError``; that second failure is re-raised out of
    ``transition_to``/``step``, and the process is left half-transitioned (old state exited, no new state, not closed,
    future pending).
 2. Run with kill, fault in ``on_killed`` before the base implementation has retrieved the ``KilledError`` (the same for a
    fault in ``on_kill`` after ``super()``): ``on_except`` replaces the future that carries the ``KilledError`` without
    retrieving it, so "SavableFuture exception was never retrieved" is reported to the event loop.
 3. A scheduled callback fails while the process is in the middle of a transition (the loop is re-entrant: a hook runs a
    nested process to completion): ``callback_excepted -> fail -> transition_to`` trips over
    ``assert not self._transitioning``; the ``AssertionError`` escapes into the event loop as a task exception and the
    process finishes as if nothing had happened.
"""

import asyncio
import gc
import sys

import plumpy
from plumpy import ProcessState

plumpy.set_event_loop_policy()
LOOP = asyncio.get_event_loop()
LOOP_ERRORS = []
LOOP.set_exception_handler(lambda _loop, context: LOOP_ERRORS.append(context))


def settle():
    gc.collect()
    LOOP.run_until_complete(asyncio.sleep(0.01))
    errors = [f"{c.get('message')}: {c.get('exception')!r}" for c in LOOP_ERRORS]
    LOOP_ERRORS.clear()
    return errors


def report(title, problems):
    if problems:
        print(f'VIOLATION  {title}')
        for problem in problems:
            print(f'    - {problem}')
    else:
        print(f'ok         {title}')
    return bool(problems)


def case_stop_iteration():
    class Proc(plumpy.Process):
        def on_run(self):
            super().on_run()
            next(iter([]))  # raises StopIteration

        def run(self):
            return 1

    problems = []
    proc = Proc()
    try:
        LOOP.run_until_complete(asyncio.wait_for(proc.step_until_terminated(), 2))
    except BaseException as exc:
        problems.append(f'stepping did not return normally: {exc!r}')
    if proc.state != ProcessState.EXCEPTED:
        problems.append(f'state is {proc.state}, expected EXCEPTED')
    elif not isinstance(proc.exception(), StopIteration):
        problems.append(f'excepted with {proc.exception()!r}')
    if not proc._closed:
        problems.append('not closed')
    if not proc.future().done():
        problems.append('future not done')
    problems.extend(settle())
    return report('hook raising StopIteration', problems)


def case_on_killed():
    boom = RuntimeError('on_killed failed')

    class Proc(plumpy.Process):
        def on_killed(self):
            raise boom

        def run(self):
            return 1

    problems = []
    proc = Proc()
    proc.kill('bye')
    if proc.state != ProcessState.EXCEPTED or proc.exception() is not boom:
        problems.append(f'state {proc.state}, exception {proc.exception()!r}')
    del proc
    problems.extend(f'reported to the event loop: {error}' for error in settle())
    return report('run with kill, fault in on_killed', problems)


def case_callback_during_transition():
    boom = RuntimeError('scheduled callback failed')

    class Child(plumpy.Process):
        async def run(self):
            await asyncio.sleep(0.01)

    class Proc(plumpy.Process):
        entered = 0

        def run(self):
            self.call_soon(self.bad)
            return plumpy.Continue(self.second)

        def bad(self):
            raise boom

        def on_run(self):
            super().on_run()
            self.entered += 1
            if self.entered == 2:
                Child().execute()  # nested run of the (re-entrant) loop inside a state entry hook

        def second(self):
            return 2

    problems = []
    proc = Proc()
    try:
        LOOP.run_until_complete(asyncio.wait_for(proc.step_until_terminated(), 2))
    except BaseException as exc:
        problems.append(f'stepping did not return normally: {exc!r}')
    if proc.state != ProcessState.EXCEPTED or proc.exception() is not boom:
        problems.append(f'state {proc.state}, exception {proc.exception()!r}: the failing callback was lost')
    problems.extend(f'escaped into the event loop: {error}' for error in settle())
    return report('scheduled callback failing while a hook runs a nested process', problems)


if __name__ == '__main__':
    results = [case_stop_iteration(), case_on_killed(), case_callback_during_transition()]
    sys.exit(1 if any(results) else 0)
