# -*- coding: utf-8 -*-
"""Histories for which the UNCHANGED tree does not satisfy C17 (exits non-zero, listing what went wrong).

1. "the configured object loader is the one used": the launcher is given a custom loader INSTANCE, but the state of a
   continued process (``Process.recreate_state`` -> ``LoadSaveContext(process=self)``, no loader) is loaded through a
   NEW instance ``LoaderClass()`` of the loader class recorded in the checkpoint.  With a loader whose constructor
   needs arguments every continue task fails with TypeError; with a no-argument loader the state classes silently
   bypass the configured instance.

2. "a continue task resumes exactly the persisted checkpoint (of the requested tag)" against the PicklePersister:
   the file name is ``f'{pid}.{tag}.pickle'`` / ``f'{pid}.pickle'``, so (pid='7', tag='x') and (pid='7.x', no tag)
   are the same file: a continue task for a pid that was never persisted runs another process's tagged checkpoint.

3. (minor) "continuing without a persister is rejected": the rejection logs with ``'%d' % pid`` (lazily).  For a pid that
   is not a number (e.g. a string; a UUID does format) the record cannot be formatted; with a handler/filter that does
   not swallow formatting errors (e.g. pytest's caplog handler, or any filter calling ``record.getMessage()``) the task
   fails with TypeError instead of TaskRejected.
"""

import asyncio
import logging
import shutil
import sys
import tempfile

import plumpy
from plumpy import process_comms

PROBLEMS = []


def problem(text):
    PROBLEMS.append(text)
    print('PROBLEM:', text)


class P(plumpy.Process):
    @classmethod
    def define(cls, spec):
        super().define(spec)
        spec.outputs.dynamic = True

    def run(self):
        self.out('who', self.pid)


class RegistryLoader(plumpy.DefaultObjectLoader):
    """A loader that is configured with a registry (so it cannot be built without arguments)"""

    def __init__(self, registry):
        self.registry = registry

    def load_object(self, identifier):
        if identifier in self.registry:
            return self.registry[identifier]
        return super().load_object(identifier)

    def identify_object(self, obj):
        for key, value in self.registry.items():
            if value is obj:
                return key
        return super().identify_object(obj)


async def configured_loader_instance():
    loader = RegistryLoader({'p': P})
    persister = plumpy.InMemoryPersister(loader=loader)
    launcher = plumpy.ProcessLauncher(persister=persister, loader=loader)
    pid = await launcher(None, process_comms.create_create_body(P, persist=True, loader=loader))
    try:
        await launcher(None, process_comms.create_continue_body(pid))
    except Exception as exc:
        problem(f'[1] continue with the configured loader instance failed: {type(exc).__name__}: {exc}')


async def pickle_name_clash():
    tmpdir = tempfile.mkdtemp()
    try:
        persister = plumpy.PicklePersister(tmpdir)
        launcher = plumpy.ProcessLauncher(persister=persister)
        seven = P(pid='7')
        persister.save_checkpoint(seven, tag='x')
        # Nothing was ever persisted for the pid '7.x'
        try:
            reply = await launcher(None, process_comms.create_continue_body('7.x'))
        except Exception:
            pass  # fine: there is no such checkpoint
        else:
            problem(f"[2] continue of the never persisted pid '7.x' ran the checkpoint (tag 'x') of process '7': {reply!r}")
    finally:
        shutil.rmtree(tmpdir, ignore_errors=True)


class Formatting(logging.Filter):
    def filter(self, record):
        record.getMessage()
        return True


async def rejection_log():
    launcher = plumpy.ProcessLauncher(persister=None)
    logger = logging.getLogger('plumpy.process_comms')
    flt = Formatting()
    logger.addFilter(flt)
    try:
        await launcher(None, process_comms.create_continue_body('proc-1'))
    except plumpy.TaskRejected:
        pass
    except Exception as exc:
        problem(f'[3] continue without a persister (string pid, strict logging): {type(exc).__name__}: {exc} instead of TaskRejected')
    finally:
        logger.removeFilter(flt)


async def main():
    await configured_loader_instance()
    await pickle_name_clash()
    await rejection_log()


if __name__ == '__main__':
    asyncio.run(main())
    if PROBLEMS:
        sys.exit(1)
    print('ok')
