# -*- coding: utf-8 -*-
"""Histories for which the UNCHANGED tree already violates C20 (all of the ``BaseException`` family: the adapters capture
outcomes with ``kiwipy.capture_exceptions``, which only sees ``Exception``).

 A. plum_to_kiwi_future: a loop future that ended with an ``asyncio.CancelledError`` *stored as its exception*
    (``set_exception``, not ``cancel()``): ``on_done`` -> ``plum_future.result()`` raises it past ``capture_exceptions``,
    the mirror stays pending forever (neither the exception nor a cancellation is delivered).
 B. CancellableAction: a function that ends with ``asyncio.CancelledError`` (e.g. it asked a cancelled future for its
    result): ``run`` lets it through, the outcome is NOT reported through the action (still pending), and a second
    ``run`` is not refused: it "runs" ``None`` and the action ends with ``TypeError: 'NoneType' object is not callable``.
 C. create_task: a coroutine that ends with a ``BaseException`` other than ``CancelledError``: the future stays pending.

Exits 1 if any of them is observed (it is on the unchanged tree), 0 otherwise.
"""
import asyncio
import concurrent.futures
import sys
import threading
import time

from plumpy import communications, futures

loop = asyncio.new_event_loop()
threading.Thread(target=loop.run_forever, daemon=True).start()
bad = []

# A
fut = loop.create_future()
mirror = communications.plum_to_kiwi_future(fut)
loop.call_soon_threadsafe(fut.set_exception, asyncio.CancelledError())
try:
    mirror.result(timeout=1.5)
except concurrent.futures.TimeoutError:
    bad.append('A: mirror of a loop future whose exception is an asyncio.CancelledError never ends')
except BaseException as exc:
    print('A ok:', type(exc).__name__)


# B
async def case_b():
    calls = []

    def function():
        calls.append(1)
        raise asyncio.CancelledError()

    action = futures.CancellableAction(function)
    try:
        action.run()
    except asyncio.CancelledError:
        pass
    if not action.done():
        bad.append('B: the outcome of the function (CancelledError) was not reported through the action: still pending')
    try:
        action.run()
    except futures.InvalidStateError:
        print('B ok: second run refused')
    else:
        bad.append(f'B: second run() not refused; the action now ends with {action.exception()!r} (calls: {len(calls)})')


asyncio.run_coroutine_threadsafe(case_b(), loop).result(5)


# C
class Stop(BaseException):
    pass


async def coro():
    raise Stop()


task_future = futures.create_task(coro, loop)
time.sleep(0.5)
if not task_future.done():
    bad.append('C: create_task future of a coroutine that ended with a BaseException never ends')

for line in bad:
    print('VIOLATION (unchanged tree):', line)
sys.exit(1 if bad else 0)
