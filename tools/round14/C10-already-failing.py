# -*- coding: utf-8 -*-
"""Histories/inputs for which the UNCHANGED tree already violates C10 ("if an awaited item fails or is killed the
workchain ends EXCEPTED with that error and the following step never runs").

Run as: PYTHONPATH=<tree>/src /venv/bin/python already-failing.py    (exits 1 if any of the violations shows up)

1. late-failure : an awaited child process whose failure happens in its finishing hooks (here ``on_finished`` raises)
                  ends EXCEPTED -- ``on_except`` replaces its already resolved future -- but the parent registered the
                  old future (``to_context`` resolves ``child.future()`` at registration), sees a successful result and
                  runs the next step.
2. base-exc     : an awaited future that fails with a ``BaseException`` that is not an ``Exception``:
                  ``Waiting._awaitable_done`` only catches ``Exception``; the error escapes into the loop's exception
                  handler *after* the awaitable was popped, so the other completions open the barrier: the next step
                  runs (without the key) and the work chain FINISHES.
3. interruption : an awaited future that fails with an exception object that happens to be a ``plumpy.Interruption``
                  (``KillInterruption`` / ``PauseInterruption``): ``Process.step`` takes the failure coming out of the
                  wait for a kill/pause request: the work chain ends KILLED (resp. is paused) instead of EXCEPTED.
"""

import asyncio
import sys

import plumpy
from plumpy import Process, ProcessState, ToContext, WorkChain

FOUND = []


class LateFailure(Process):
    def on_finished(self):
        super().on_finished()
        raise RuntimeError('failure in a finishing hook')

    async def run(self):
        await asyncio.sleep(0.01)


class AwaitsChild(WorkChain):
    @classmethod
    def define(cls, spec):
        super().define(spec)
        spec.outline(cls.register, cls.after)

    def register(self):
        self.ran_next = False
        self.child = self.launch(LateFailure)
        return ToContext(child=self.child)

    def after(self):
        self.ran_next = True


class AwaitsFutures(WorkChain):
    @classmethod
    def define(cls, spec):
        super().define(spec)
        spec.outline(cls.register, cls.after)

    def register(self):
        self.ran_next = False
        self.bad = self.loop.create_future()
        self.good = self.loop.create_future()
        self.to_context(bad=self.bad)
        return ToContext(good=self.good)

    def after(self):
        self.ran_next = True


async def terminated(workchain, seconds=0.5):
    for _ in range(int(seconds / 0.01)):
        if workchain.has_terminated():
            return True
        await asyncio.sleep(0.01)
    return False


async def late_failure():
    workchain = AwaitsChild()
    asyncio.ensure_future(workchain.step_until_terminated())
    await terminated(workchain)
    if workchain.child.state == ProcessState.EXCEPTED and (
        workchain.state != ProcessState.EXCEPTED or workchain.ran_next
    ):
        FOUND.append(
            f'late-failure: child ended {workchain.child.state} ({workchain.child.exception()!r}) but the parent ended '
            f'{workchain.state}, next step ran: {workchain.ran_next}'
        )


async def failing_future(label, error):
    workchain = AwaitsFutures()
    task = asyncio.ensure_future(workchain.step_until_terminated())
    await asyncio.sleep(0.02)
    workchain.bad.set_exception(error)
    await asyncio.sleep(0.02)
    workchain.good.set_result(1)
    done = await terminated(workchain)
    if not done or workchain.state != ProcessState.EXCEPTED or workchain.exception() is not error or workchain.ran_next:
        FOUND.append(
            f'{label}: awaited item failed with {error!r}; work chain state={workchain.state}, paused={workchain.paused}, '
            f'exception={workchain.exception()!r}, next step ran: {workchain.ran_next}'
        )
    if not done:
        workchain.kill()
        task.cancel()


class NotAnException(BaseException):
    pass


def main():
    loop = asyncio.new_event_loop()
    asyncio.set_event_loop(loop)
    loop.set_exception_handler(lambda _loop, _context: None)  # (scenario 2 logs the escaped error: keep the output short)
    loop.run_until_complete(late_failure())
    loop.run_until_complete(failing_future('base-exc', NotAnException('boom')))
    loop.run_until_complete(failing_future('interruption(kill)', plumpy.KillInterruption('looks like a kill')))
    loop.run_until_complete(failing_future('interruption(pause)', plumpy.PauseInterruption('looks like a pause')))
    loop.run_until_complete(asyncio.sleep(0.02))
    loop.close()

    if FOUND:
        print('C10 violated on this tree:')
        for line in FOUND:
            print(' -', line)
        return 1
    print('no violation')
    return 0


if __name__ == '__main__':
    sys.exit(main())
