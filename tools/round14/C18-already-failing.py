# -*- coding: utf-8 -*-
"""Histories for which the UNCHANGED tree hands out a ``Process.current()`` that is not the process whose code is running.

Prints what it finds and exits 1 if at least one of them shows (0 otherwise).  They are border cases of the statement:

 A. ``Process.callback_excepted`` (an overridable hook, called when a callback scheduled with ``call_soon`` raised) is called
    by ``events.ProcessCallback.run`` *outside* ``_run_task``, i.e. outside the process scope: it sees whatever was
    current where ``call_soon`` was called (another process, or nothing).
 B. ``Process.init`` (overridable, "common initialisation logic, after create or load") is called by the metaclass and by
    ``recreate_from`` outside any process scope, unlike ``on_create`` which runs in the scope of the first transition.
 C. The ``finally`` clause of a step whose (pending, unreferenced) task is finalised by the garbage collector runs in the
    context of whatever code triggers the collection, e.g. the step of another process.
"""

import asyncio
import gc
import sys
import warnings

import plumpy
from plumpy import Process

found = []


class Scheduled(Process):
    seen_hook = None

    def run(self):
        return plumpy.Wait(msg='until killed')

    def boom(self):
        assert Process.current() is self
        raise RuntimeError('boom')

    def callback_excepted(self, callback, exception, trace):
        type(self).seen_hook = Process.current()
        super().callback_excepted(callback, exception, trace)


class WithInit(Process):
    seen_init = 'unset'
    seen_create = 'unset'

    def on_create(self):
        super().on_create()
        type(self).seen_create = Process.current()

    def init(self):
        super().init()
        type(self).seen_init = Process.current()


class Forgotten(Process):
    seen = []

    async def run(self):
        try:
            await asyncio.get_event_loop().create_future()
        finally:
            Forgotten.seen.append(Process.current())


class Other(Process):
    async def run(self):
        # A. schedule a callback on another process from this step
        target = Scheduled()
        task = asyncio.ensure_future(target.step_until_terminated())
        await asyncio.sleep(0.01)
        target.call_soon(target.boom)
        await task
        if Scheduled.seen_hook is not target:
            found.append(f'A. callback_excepted of {target!r} ran with Process.current() = {Scheduled.seen_hook!r}')

        # B. create a process from this step
        made = WithInit()
        assert WithInit.seen_create is made
        if WithInit.seen_init is not made:
            found.append(f'B. init of {made!r} ran with Process.current() = {WithInit.seen_init!r} (on_create saw itself)')

        # C. a stepping task nobody refers to is collected while this step runs
        asyncio.ensure_future(Forgotten().step_until_terminated())
        await asyncio.sleep(0.01)
        with warnings.catch_warnings():
            warnings.simplefilter('ignore')
            gc.collect()
        if Forgotten.seen and Forgotten.seen[0] is self:
            found.append(f'C. the finally clause of the step of a Forgotten process ran with Process.current() = {self!r}')
        assert Process.current() is self


if __name__ == '__main__':
    plumpy.set_event_loop_policy()
    loop = asyncio.get_event_loop()
    loop.set_exception_handler(lambda _loop, _ctx: None)  # ("Task was destroyed but it is pending")
    other = Other()
    other.execute()
    assert other.state == plumpy.ProcessState.FINISHED, other.exception()
    for line in found:
        print(line)
    sys.exit(1 if found else 0)
