"""Histories for which the UNCHANGED tree already violates the C11 statement.  Exits 1 if any of them is observed.

1. `UNSPECIFIED` is the empty tuple `()`, and CPython has only one empty tuple: an explicitly given `()` (or `tuple()`)
   *is* the "nothing given" marker.  For an optional port with `valid_type=int` the value `()` is accepted and shows up in
   `inputs` (not of the declared type, validator skipped); for a required port the given `()` is reported as missing.
2. `_copy_dictionaries` (ports.py) copies only `dict` instances: the declared default of a namespace that is another
   mutable mapping (e.g. `collections.UserDict`) is filled in place by `pre_process`, so the first construction rewrites the
   declared default: a callable default nested in it is evaluated once for all later processes of the class.
"""
import collections
import itertools
import sys

from plumpy import Process

problems = []


def never_called(value, port):
    return 'the validator refuses every value'


class TupleProc(Process):
    @classmethod
    def define(cls, spec):
        super().define(spec)
        spec.input('a', valid_type=int, required=False, validator=never_called)


try:
    proc = TupleProc(inputs={'a': ()})
except ValueError:
    pass
else:
    problems.append(f"1. {{'a': ()}} accepted for an optional int port with a refusing validator: inputs.a={proc.inputs['a']!r}")

counter = itertools.count(1)
DEFAULT = collections.UserDict()


class UserDictDefault(Process):
    @classmethod
    def define(cls, spec):
        super().define(spec)
        spec.input_namespace('ns', default=DEFAULT)
        spec.input('ns.n', valid_type=int, default=lambda: next(counter))


try:
    first = UserDictDefault()
    second = UserDictDefault()
    if dict(DEFAULT) != {}:
        problems.append(f'2. the declared namespace default was modified by the construction: {dict(DEFAULT)!r}')
    if first.inputs.ns.n == second.inputs.ns.n:
        problems.append(f'2. callable default evaluated once for two processes: {first.inputs.ns.n} and {second.inputs.ns.n}')
except Exception as exception:  # noqa: BLE001
    problems.append(f'2. construction with the declared (conforming) defaults raised {exception!r}')

if problems:
    print('unchanged tree violates C11:')
    for problem in problems:
        print('  -', problem)
    sys.exit(1)
print('ok')
