# -*- coding: utf-8 -*-
"""UNCHANGED tree: histories on which the in-memory and the pickle persister are NOT observationally equivalent.

1. A process state that can be pickled but not unpickled (here: a plumpy `KillInterruption` kept in the context; its
   `__init__` needs an argument that `Exception.__reduce__` does not pass back).  InMemoryPersister deep-copies at save
   time, so the save is refused and the store stays as it was.  PicklePersister accepts the save (pickle.dumps works),
   and because `get_checkpoints` unpickles every *bundle* just to read its header, from then on `get_checkpoints`,
   `get_process_checkpoints` and `delete_process_checkpoints` raise for EVERY process, not only for the damaged key
   ("listing returns exactly the keys currently stored", "deleting a process's checkpoints removes all and only ..."
   fail for unrelated processes).  Only `delete_checkpoint(pid, tag)` of the damaged key heals the directory.
2. State that can be deep-copied but not pickled (a lambda in the context): saved by InMemoryPersister, refused by
   PicklePersister.
3. A (separator-free) string id of 300 characters: fine in memory, OSError (file name too long) for the pickle persister.

Exits 1 if (as on the unchanged tree) the two persisters disagree.
"""
import shutil
import sys
import tempfile

import plumpy
from plumpy import process_states


class Wc(plumpy.WorkChain):
    @classmethod
    def define(cls, spec):
        super().define(spec)
        spec.outline(cls.step)

    def step(self):
        pass


def attempt(function, *args):
    try:
        result = function(*args)
    except Exception as exception:
        return f'raises {type(exception).__name__}'
    return sorted(map(tuple, result), key=repr) if result is not None else 'ok'


def history(make_process):
    directory = tempfile.mkdtemp()
    observations = {}
    try:
        for name, persister in (('in-memory', plumpy.InMemoryPersister()), ('pickle', plumpy.PicklePersister(directory))):
            good, odd = Wc(pid='good'), make_process()
            observations[name] = [
                ('save good', attempt(persister.save_checkpoint, good)),
                ('save odd', attempt(persister.save_checkpoint, odd)),
                ('list', attempt(persister.get_checkpoints)),
                ('list good', attempt(persister.get_process_checkpoints, 'good')),
                ('delete checkpoints of good', attempt(persister.delete_process_checkpoints, 'good')),
                ('list', attempt(persister.get_checkpoints)),
            ]
    finally:
        shutil.rmtree(directory, ignore_errors=True)
    return observations


def unloadable():
    process = Wc(pid='odd')
    process.ctx.reason = process_states.KillInterruption('stop')
    return process


def unpicklable():
    process = Wc(pid='odd')
    process.ctx.callback = lambda: 1
    return process


def long_id():
    return Wc(pid='x' * 300)


def main():
    different = False
    for label, make_process in (('unloadable state', unloadable), ('unpicklable state', unpicklable), ('long id', long_id)):
        observations = history(make_process)
        print(f'--- {label}')
        for (step, in_memory), (_, pickled) in zip(observations['in-memory'], observations['pickle']):
            marker = '' if in_memory == pickled else '   <-- differ'
            different |= in_memory != pickled
            print(f'  {step:28s} in-memory: {in_memory}   pickle: {pickled}{marker}')
    return 1 if different else 0


if __name__ == '__main__':
    sys.exit(main())
