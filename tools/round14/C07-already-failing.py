# -*- coding: utf-8 -*-
"""Histories / inputs for which the UNCHANGED tree already violates C07 (a process that can be saved cannot be loaded back,
or comes back different).  Run as:  PYTHONPATH=<tree>/src /venv/bin/python already-failing.py
Prints one line per case; exits 1 if at least one case reproduces.
"""
import asyncio
import copy
import sys

import plumpy
from plumpy import loaders, persistence

loop = asyncio.new_event_loop()
asyncio.set_event_loop(loop)
reproduced = []


def round_trip(proc, save_context=None, load_context=None):
    bundle = copy.deepcopy(persistence.Bundle(proc, save_context))
    load_context = (load_context or persistence.LoadSaveContext()).copyextend(loop=loop)
    loaded = bundle.unbundle(load_context)
    return bundle, loaded, persistence.Bundle(loaded, save_context, dereference=True)


# 1. A mixin that declares its members with @auto_persist, placed before Process in the bases (the way ContextMixin is
#    used): ``_auto_persist`` is looked up along the MRO and the set of the mixin hides the one of Process, so that pid,
#    creation time, future, status, paused flag are not written at all.  Saving works, the loaded process has no pid.
#    (With the mixin placed *after* Process it is the other way round: the member of the mixin is silently not saved and
#    comes back with the value set by the constructor of the mixin.)
@persistence.auto_persist('_counter')
class CounterMixin(persistence.Savable):
    def __init__(self, *args, **kwargs):
        super().__init__(*args, **kwargs)
        self._counter = 0


class MixinFirst(CounterMixin, plumpy.Process):
    async def run(self):
        return 1


class MixinLast(plumpy.Process, CounterMixin):
    async def run(self):
        return 1


proc = MixinFirst()
proc.set_status('busy')
try:
    bundle, loaded, again = round_trip(proc)
    assert (loaded.pid, loaded.creation_time, loaded.status) == (proc.pid, proc.creation_time, proc.status)
    print('1a. auto-persisting mixin before Process: ok')
except Exception as exception:
    reproduced.append('1a')
    print(f'1a. auto-persisting mixin before Process: saved keys {sorted(persistence.Bundle(proc))}; loaded process: {exception!r}')

proc = MixinLast()
proc._counter = 7
bundle, loaded, again = round_trip(proc)
if loaded._counter != 7:
    reproduced.append('1b')
    print(f'1b. auto-persisting mixin after Process: member saved? {"_counter" in bundle}; original 7, loaded {loaded._counter}')


# 2. A continuation (or outline step) that is a private, name-mangled method: it is saved by ``__name__`` ('__after') and
#    looked up by that name on loading, where only '_Waiter__after' exists.
class Waiter(plumpy.Process):
    async def run(self):
        return plumpy.Wait(self.__after, msg='waiting')

    def __after(self, *_args):
        return 1


class PrivateStep(plumpy.WorkChain):
    @classmethod
    def define(cls, spec):
        super().define(spec)
        spec.outline(cls.__first, cls.second)

    def __first(self):
        pass

    def second(self):
        pass


async def waiting_case():
    proc = Waiter()
    task = loop.create_task(proc.step_until_terminated())
    while proc.state != plumpy.ProcessState.WAITING:
        await asyncio.sleep(0.01)
    try:
        round_trip(proc)
        print('2a. private continuation: ok')
    except Exception as exception:
        reproduced.append('2a')
        print(f'2a. waiting process with a private continuation: saving works, loading fails: {exception!r}')
    proc.kill()
    await task


loop.run_until_complete(waiting_case())
try:
    round_trip(PrivateStep())
    print('2b. private outline step: ok')
except Exception as exception:
    reproduced.append('2b')
    print(f'2b. work chain (just created) with a private outline step: saving works, loading fails: {exception!r}')


# 3. A custom object loader whose constructor takes an argument.  The states, futures and steppers nested in the bundle
#    are loaded with contexts of their own (``Process.recreate_state`` etc.), which do not carry the loader of the caller:
#    the loader is instantiated from the class named in the bundle, without arguments.
class PrefixLoader(loaders.ObjectLoader):
    def __init__(self, prefix):
        self.prefix = prefix
        self.inner = loaders.DefaultObjectLoader()

    def identify_object(self, obj):
        return self.prefix + self.inner.identify_object(obj)

    def load_object(self, identifier):
        if not identifier.startswith(self.prefix):
            raise ValueError(identifier)
        return self.inner.load_object(identifier[len(self.prefix) :])


class Plain(plumpy.Process):
    async def run(self):
        return 2


context = persistence.LoadSaveContext(loader=PrefixLoader('x!'))
try:
    round_trip(Plain(), save_context=context, load_context=context)
    print('3. object loader with constructor arguments: ok')
except Exception as exception:
    reproduced.append('3')
    print(f'3. custom object loader given in both contexts, constructor takes an argument: loading fails: {exception!r}')

print('reproduced:', reproduced)
sys.exit(1 if reproduced else 0)
