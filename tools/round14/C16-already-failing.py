# -*- coding: utf-8 -*-
"""UNCHANGED tree (borderline): a transition that was carried out is never announced when a hook of the process fails
in ``on_entered`` before the broadcast is sent.

``Process.on_entered`` first calls the ``on_running`` / ``on_waiting`` / ... hook and only then broadcasts.  When the hook
(overridden by a subclass, super called) raises, RUNNING is already the state of the process, the failure is turned
into a transition RUNNING -> EXCEPTED, and that one is announced as ``state_changed.running.excepted``: the observers
are told that the process left a state which they were never told it had entered (created -> running is missing).

Exits 1 (printing the broadcasts) if the chain of announcements is broken like that, 0 otherwise.
"""
import asyncio
import sys

import kiwipy

import plumpy


class FailingHook(plumpy.Process):
    def on_running(self):
        super().on_running()
        raise ValueError('hook failed')

    async def run(self):
        return 1


loop = asyncio.new_event_loop()
asyncio.set_event_loop(loop)
communicator = kiwipy.LocalCommunicator()
seen = []
communicator.add_broadcast_subscriber(lambda _c, body, sender, subject, correlation_id: seen.append(subject))
proc = FailingHook(communicator=communicator, loop=loop)
try:
    proc.execute()
except ValueError:
    pass
print(proc.state, seen)
chain_ok = all(seen[i].split('.')[2] == seen[i + 1].split('.')[1] for i in range(len(seen) - 1))
if not chain_ok:
    print('announcements do not chain: a transition that was carried out (into RUNNING) was never announced')
    sys.exit(1)
sys.exit(0)
