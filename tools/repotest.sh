#!/bin/sh
# Run the repository's own suite (guard off) and compare with the 186-test baseline.
cd "${1:-/repo}" || exit 2
env -u PLUMPY_VERIF PYTHONPATH="$(pwd)/src" /venv/bin/python -m pytest -q -p no:cacheprovider --timeout=900 --continue-on-collection-errors -x --deselect tests/rmq tests 2>&1 | tail -4
