#!/bin/sh
# usage: tools/seedverify.sh <dir with patch.diff demo.py>   -- confirm a seeded change against /repo HEAD:
#   applies cleanly (3-way), repo suite passes with it, demo fails with it, demo passes without it
D="$1"
WT=$(mktemp -d /tmp/pvverify.XXXXXX)
git -C /repo worktree add --detach "$WT" HEAD >/dev/null 2>&1 || { echo "worktree failed"; exit 2; }
RES="$D:"
( cd "$WT" && PYTHONPATH="$WT/src" timeout 300 /venv/bin/python "$D/demo.py" >/dev/null 2>&1 ); RES="$RES demo-without=$?"
if git -C "$WT" apply --3way "$D/patch.diff" >/dev/null 2>&1 || git -C "$WT" apply "$D/patch.diff" >/dev/null 2>&1; then
  RES="$RES applied"
  ( cd "$WT" && PYTHONPATH="$WT/src" timeout 300 /venv/bin/python "$D/demo.py" >/dev/null 2>&1 ); RES="$RES demo-with=$?"
  T=$(cd "$WT" && env -u PLUMPY_VERIF PYTHONPATH="$WT/src" /venv/bin/python -m pytest -q -p no:cacheprovider --timeout=900 --deselect tests/rmq tests 2>&1 | tail -1)
  RES="$RES suite=[$T]"
else
  RES="$RES APPLY-FAILED"
fi
echo "$RES"
git -C /repo worktree remove --force "$WT" >/dev/null 2>&1; rm -rf "$WT"
