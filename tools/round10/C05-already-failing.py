# -*- coding: utf-8 -*-
"""Borderline histories on the UNCHANGED tree (C05):

1. play() issued from the process's own ``on_pausing`` hook (i.e. while a pause is being carried out but has not taken
   effect yet -- the process does not report paused) returns True, but the pause is carried out all the same: the
   process is paused after a play() that was supposed to cancel "a pause that has not yet taken effect".
   (``_do_pause`` only re-checks for a play() after the state transition, not after ``on_pausing``.  The play() comes
   from a hook, not from between two event-loop callbacks.)

2. A function scheduled with ``Process.call_soon`` ("an internal process function") by the step on whose boundary a
   pending pause lands runs while the process reports paused: nothing holds scheduled callbacks back.  (Here the pause
   request itself IS placed between two event-loop callbacks; whether such a callback counts as a "continuation" in
   the sense of the property is a matter of interpretation.)

Exits 1 if either is observed, 0 otherwise.
"""

import asyncio
import sys
import warnings

import plumpy

warnings.simplefilter('ignore', DeprecationWarning)


class Reluctant(plumpy.Process):
    """Changes its mind while being paused"""

    def __init__(self, *args, **kwargs):
        super().__init__(*args, **kwargs)
        self.play_answer = None
        self.paused_when_played = None

    def on_pausing(self, msg=None):
        super().on_pausing(msg)
        self.paused_when_played = self.paused
        self.play_answer = self.play()

    def run(self):
        return 'done'


class Scheduler(plumpy.Process):
    def __init__(self, *args, **kwargs):
        super().__init__(*args, **kwargs)
        self.log = []

    async def run(self):
        self.log.append('run')
        await asyncio.sleep(0)
        self.call_soon(self.housekeeping)
        return plumpy.Wait(self.second)

    def housekeeping(self):
        self.log.append(f'housekeeping (paused={self.paused})')

    def second(self):
        self.log.append('second')
        return 'done'


def main():
    found = []

    proc = Reluctant()
    proc.pause('stop')
    if proc.play_answer is True and proc.paused_when_played is False and proc.paused:
        found.append(
            '1: play() was called (and returned True) before the pause had taken effect, but the process is paused: '
            f'paused={proc.paused}'
        )

    loop = asyncio.get_event_loop()
    proc2 = Scheduler()

    async def drive():
        task = loop.create_task(proc2.step_until_terminated())
        for _ in range(100):
            if proc2.log:
                break
            await asyncio.sleep(0)
        # ``run`` is in flight: the pause is pending and lands on the transition to the waiting state, in the same
        # callback in which ``run`` schedules its housekeeping function
        proc2.pause('hold on')
        for _ in range(30):
            await asyncio.sleep(0)
        assert proc2.paused, 'demo: expected the process to be paused'
        proc2.play()
        proc2.resume()
        await asyncio.wait_for(task, 5)

    loop.run_until_complete(drive())
    if any('paused=True' in entry for entry in proc2.log):
        found.append(f'2: a function scheduled with call_soon ran while the process reported paused: {proc2.log}')

    for entry in found:
        print('ALREADY FAILING (unchanged tree):', entry)
    return 1 if found else 0


if __name__ == '__main__':
    sys.exit(main())
