# -*- coding: utf-8 -*-
"""Things the UNCHANGED tree already does that do not fit the C14 statement (both are at the edge of its domain).

1. PicklePersister.get_checkpoints walks the pickle directory RECURSIVELY (os.walk) but joins every file name it finds
   with the TOP directory.  With a sub-directory that holds pickles (e.g. a second PicklePersister for a sub-workflow kept
   in <dir>/sub) listing the outer persister raises FileNotFoundError, or, when the outer one has a file of the same name,
   returns that key TWICE: 'listing returns exactly the keys currently stored' does not hold (and
   delete_process_checkpoints, which lists first, raises as well).

2. A value in the process state that deepcopy accepts but pickle does not (a lambda, an instance of a local class): the
   save succeeds on the InMemoryPersister and raises on the PicklePersister, so the two are not observationally equivalent
   for that history (inherent to pickle, reported for completeness).

Exits 1 if (1) is observed, 0 otherwise; (2) is only printed.
"""
import os
import sys
import tempfile

import plumpy


class Chain(plumpy.WorkChain):
    @classmethod
    def define(cls, spec):
        super().define(spec)
        spec.outline(cls.step)

    def step(self):
        pass


def attempt(call, *args):
    try:
        return 'ok', call(*args)
    except Exception as exception:
        return 'raised', f'{type(exception).__name__}: {exception}'


def main():
    status = 0
    proc = Chain(pid='A')
    with tempfile.TemporaryDirectory() as directory:
        outer = plumpy.PicklePersister(directory)
        inner = plumpy.PicklePersister(os.path.join(directory, 'sub'))
        inner.save_checkpoint(proc)

        listed = attempt(outer.get_checkpoints)
        print('outer persister, nothing saved in it, listing:', listed)
        if listed != ('ok', []):
            status = 1

        outer.save_checkpoint(proc)
        listed = attempt(outer.get_checkpoints)
        print('outer persister, one checkpoint saved in it, listing:', listed)
        if listed != ('ok', [plumpy.PersistedCheckpoint('A', None)]):
            status = 1

    with tempfile.TemporaryDirectory() as directory:
        memory, pickled = plumpy.InMemoryPersister(), plumpy.PicklePersister(directory)
        proc.ctx.key = lambda value: value
        print('lambda in ctx: in-memory save:', attempt(memory.save_checkpoint, proc)[0], '/ pickle save:', attempt(pickled.save_checkpoint, proc)[0])
        print('  listing in-memory:', memory.get_checkpoints(), '/ pickle:', pickled.get_checkpoints())

    return status


if __name__ == '__main__':
    sys.exit(main())
