# -*- coding: utf-8 -*-
"""C18 on the UNCHANGED tree: two overridable methods of a process that plumpy calls outside any process scope.

  * ``Process.init()`` ("common initialisation logic, after create or load", super-checked, meant to be extended): called
    by the metaclass / ``recreate_from`` after the initial transition, outside the scope that ``transition_to`` opens.
    ``Process.current()`` is ``None`` there -- or, for a child created in the step of a parent, the parent.
  * ``Process.callback_excepted()``: called by ``events.ProcessCallback.run()`` *after* ``_run_task`` (and with it the
    process scope) has been left by the exception of a callback scheduled with ``call_soon``.  An override sees
    ``None`` -- or the process from whose step ``call_soon`` was called -- while the implementation it hands over to
    (``fail()`` -> ``transition_to``) runs the on_except hooks with the right process again.

Whether these two count as "hooks" in the sense of the property is debatable (they are not on_* methods), hence only
reported.  Exits 1 when Process.current() is not the process in either of them.
"""

import asyncio
import sys

import plumpy
from plumpy import Process

problems = []


def check(where, expected):
    got = Process.current()
    if got is not expected:
        problems.append(
            f'{where}: Process.current() is {getattr(got, "pid", None)!r}, expected {getattr(expected, "pid", None)!r}'
        )


class Proc(Process):
    def init(self):
        super().init()
        check(f'{self._pid}: init()', self)

    def on_create(self):
        super().on_create()
        check(f'{self._pid}: on_create()', self)  # fine: inside the scope of the initial transition

    def callback_excepted(self, callback, exception, trace):
        check(f'{self.pid}: callback_excepted()', self)
        super().callback_excepted(callback, exception, trace)

    def on_except(self, exc_info):
        super().on_except(exc_info)
        check(f'{self.pid}: on_except()', self)  # fine: inside the scope of the transition

    def boom(self):
        check(f'{self.pid}: scheduled callback', self)  # fine: inside _run_task
        raise RuntimeError('scheduled callback fails')

    async def run(self):
        await asyncio.sleep(0.05)


class Parent(Process):
    async def run(self):
        child = Proc(pid='child')  # child.init() sees the parent
        child.call_soon(child.boom)  # child.callback_excepted() sees the parent (the context of this step is inherited)
        await child.step_until_terminated()
        assert child.is_excepted


async def main():
    lone = Proc(pid='lone')  # lone.init() sees None
    lone.call_soon(lone.boom)  # lone.callback_excepted() sees None
    await lone.step_until_terminated()
    assert lone.is_excepted
    await Parent(pid='parent').step_until_terminated()


asyncio.run(main())

if problems:
    print('Process.current() is not the process while its code runs (unchanged tree):')
    for problem in problems:
        print('  -', problem)
    sys.exit(1)
print('OK')
