# -*- coding: utf-8 -*-
"""Histories for which the UNCHANGED tree does not do what C04 says (run: PYTHONPATH=<tree>/src python already-failing.py).

Common mechanism of 1 and 2: the function of a RUNNING step ends with ``asyncio.CancelledError`` (it awaited something
that was cancelled).  That is a ``BaseException``: neither ``Running.execute`` nor ``Process.step`` treat it as a failure
of the step, it leaves ``step()`` through the ``finally`` clause, which cancels the pending kill action.  Result: the
kill is lost (its future is cancelled), the process is neither KILLED nor EXCEPTED but stays RUNNING, and the task that
was stepping it ends 'cancelled', so nobody steps it any more.  (A *further* kill() does terminate it.)

  1. parent/child: the async step of a parent awaits ``child.future()``; kill(parent) is pending (a RUNNING step is not
     interruptible); the child is killed by cancelling its future (documented to be the same as child.kill()).
  2. pause + kill only: the step awaits the future handed back by its own ``self.pause()``; a kill supersedes (cancels)
     that pause action.

  3. (environment fault, arguably outside of the quantification) kill() RAISES when the communicator of the process has
     been closed: the state-change broadcast of the KILLED state fails, and so does the one of the EXCEPTED state the
     process is then sent to.

Exit code: number of scenarios in which the deviation was observed (0 = none).
"""

import asyncio
import sys

import kiwipy
import plumpy
from plumpy import ProcessState


class Child(plumpy.Process):
    def run(self):
        return plumpy.Wait(self.done)

    def done(self):
        pass


class Parent(plumpy.Process):
    child = None

    async def run(self):
        self.child = self.launch(Child)
        await self.child.future()


class AwaitsItsOwnPause(plumpy.Process):
    async def run(self):
        await self.pause()


class Sleeper(plumpy.Process):
    async def run(self):
        await asyncio.sleep(10)


def report(name, proc, pending, task):
    lost = proc.state not in (ProcessState.KILLED, ProcessState.EXCEPTED)
    print(f'[{name}] after the step ended: state={proc.state}, kill future={pending!r}, stepping task={"cancelled" if task.cancelled() else task}')
    if lost:
        print(f'[{name}] DEVIATION: the kill was lost, the process is neither KILLED nor EXCEPTED and is not being stepped')
    print(f'[{name}] a further kill() -> {proc.kill("again")!r}, state={proc.state}')
    return int(lost)


async def scenario_1():
    proc = Parent()
    task = asyncio.ensure_future(proc.step_until_terminated())
    await asyncio.sleep(0.05)
    assert proc.state == ProcessState.RUNNING and proc.child.state == ProcessState.WAITING
    pending = proc.kill('kill the parent')  # pending: carried out when the step yields
    proc.child.future().cancel()  # == proc.child.kill()
    await asyncio.sleep(0.05)
    assert proc.child.state == ProcessState.KILLED
    await asyncio.wait([task], timeout=1)
    return report('1 parent awaits child.future()', proc, pending, task)


async def scenario_2():
    proc = AwaitsItsOwnPause()
    task = asyncio.ensure_future(proc.step_until_terminated())
    await asyncio.sleep(0.05)
    assert proc.state == ProcessState.RUNNING
    pending = proc.kill('kill')
    await asyncio.wait([task], timeout=1)
    return report('2 step awaits its own pause()', proc, pending, task)


def scenario_3():
    communicator = kiwipy.LocalCommunicator()
    proc = Sleeper(communicator=communicator)
    communicator.close()
    try:
        outcome = proc.kill('kill')
    except Exception as exception:  # noqa: BLE001
        print(f'[3 closed communicator] DEVIATION: kill() raised {type(exception).__name__}; state={proc.state}, closed={proc._closed}')
        return 1
    print(f'[3 closed communicator] kill() -> {outcome!r}, state={proc.state}')
    return 0


def main():
    loop = asyncio.new_event_loop()
    asyncio.set_event_loop(loop)
    count = loop.run_until_complete(scenario_1())
    count += loop.run_until_complete(scenario_2())
    count += scenario_3()
    return count


if __name__ == '__main__':
    sys.exit(main())
