# -*- coding: utf-8 -*-
"""Histories for which the UNCHANGED tree already violates property C03.  Exits 1 if any of them is (still) violated.

1. A lifecycle hook raises ``StopIteration`` (e.g. an unguarded ``next(iterator)`` in ``on_run``).  It is an ``Exception``,
   so ``transition_to`` routes it to EXCEPTED, but ``on_except`` hands it to ``Future.set_exception`` which refuses it
   ("StopIteration interacts badly with generators and cannot be raised into a Future").  That ``TypeError`` is raised
   while ``_transition_failing`` is set, so it escapes from ``step()`` into the event loop and the process is left in the
   state it was leaving (CREATED, already exited), not closed, future pending.  The same goes for a pause hook that raises
   ``StopIteration`` (``CancellableAction.run`` -> ``capture_exceptions`` -> ``set_exception`` -> ``TypeError``).

2. A callback scheduled with ``call_soon`` raises after its handle was cancelled while it was running (by the callback
   itself or by whoever holds the handle).  ``ProcessCallback.cancel()`` drops ``_process``, so the ``except`` clause of
   ``ProcessCallback.run`` trips over ``None.callback_excepted``: an ``AttributeError`` ends the task of the callback
   ("Task exception was never retrieved") and the process is not failed at all.
"""

import asyncio
import gc
import sys

import plumpy
from plumpy import ProcessState


class HookStopIteration(plumpy.Process):
    def on_run(self):
        super().on_run()
        next(iter(()))  # raises StopIteration

    async def run(self):
        return 1


class CancelsOwnHandle(plumpy.Process):
    async def run(self):
        self.handle = self.call_soon(self.callback)
        await asyncio.sleep(0.05)
        return 1

    def callback(self):
        self.handle.cancel()
        raise ValueError('callback failed')


async def main():
    problems = []
    loop = asyncio.get_event_loop()
    loop_errors = []
    loop.set_exception_handler(lambda _loop, context: loop_errors.append(context))

    proc = HookStopIteration()
    try:
        await asyncio.wait_for(proc.step_until_terminated(), 3)
    except Exception as exception:
        problems.append(f'1. step_until_terminated() raised {type(exception).__name__}: {exception}')
    if proc.state != ProcessState.EXCEPTED or not isinstance(proc.exception(), StopIteration):
        problems.append(f'1. state {proc.state}, closed={proc._closed}, future={proc.future()}')

    proc = CancelsOwnHandle()
    try:
        await asyncio.wait_for(proc.step_until_terminated(), 3)
    except Exception as exception:
        problems.append(f'2. step_until_terminated() raised {type(exception).__name__}: {exception}')
    gc.collect()
    await asyncio.sleep(0.05)
    if proc.state != ProcessState.EXCEPTED or not isinstance(proc.exception(), ValueError):
        problems.append(f'2. state {proc.state}, the failure of the callback did not fail the process')
    for context in loop_errors:
        problems.append(f"2. the event loop got: {context.get('message')}: {context.get('exception')!r}")
    return problems


if __name__ == '__main__':
    found = asyncio.run(main())
    for line in found:
        print('VIOLATED', line)
    sys.exit(1 if found else 0)
