# -*- coding: utf-8 -*-
"""Histories / inputs for which the UNCHANGED tree does not do what the statement of C15 says.

Run as `PYTHONPATH=<tree>/src /venv/bin/python already-failing.py`; prints each finding, exits 1 if any was reproduced.
"""

import sys

from plumpy.ports import InputPort, PortNamespace
from plumpy.process_spec import ProcessSpec

findings = []


def finding(title, detail):
    findings.append(title)
    print(f'[{len(findings)}] {title}\n      {detail}')


# 1. "leaves other ports of the destination in place": a nested namespace of the destination with the name of a nested
#    namespace of the source is replaced as a whole (absorb: `self[port_name] = copy.copy(port)`), so the destination's
#    own ports in it are lost, although no source port has their name.
child = ProcessSpec()
child.input('opts.tol', valid_type=float)
parent = ProcessSpec()
parent.input('opts.mine', valid_type=int)
parent.input('top', valid_type=int)
ProcessSpec._expose_ports(None, child.inputs, parent.inputs, parent._exposed_inputs, None, None, None)
if 'mine' not in parent.inputs['opts']:
    finding(
        'destination port `opts.mine` is dropped by exposing a source that has `opts.tol`',
        f"parent.inputs['opts'] now holds {sorted(parent.inputs['opts'].keys())}, `top` kept: {'top' in parent.inputs}",
    )

# 2. "with the source namespace's properties unless overridden by namespace options": the properties are set in
#    alphabetical order, and the `valid_type` setter switches `dynamic` on; so `dynamic` (set before) does not survive,
#    neither the source's value nor an explicit override.
source = PortNamespace('source', valid_type=int)
source.dynamic = False  # accepted by the setter: a namespace with a valid type that takes no further ports
assert source.dynamic is False and source.valid_type is int
destination = PortNamespace('destination')
destination.absorb(source)
if destination.dynamic is not source.dynamic:
    finding(
        '`dynamic` of the source namespace is not taken over when it has a `valid_type`',
        f'source.dynamic={source.dynamic}, destination.dynamic={destination.dynamic}',
    )
source = PortNamespace('source', valid_type=int)
destination = PortNamespace('destination')
destination.absorb(source, namespace_options={'dynamic': False})
if destination.dynamic is not False:
    finding(
        "the override namespace_options={'dynamic': False} is silently ignored for a source with a `valid_type`",
        f'destination.dynamic={destination.dynamic}, destination.valid_type={destination.valid_type}',
    )

# 3. "the copy is independent": the `default` of a namespace (a dictionary, typically) is handed over by reference, for
#    the target namespace and for nested ones, whereas the default of a port is deep copied.
child = ProcessSpec()
child.input('x', valid_type=dict, default={'a': 1})
child.input_namespace('opts', default={'tol': 0.1}, dynamic=True)
child.inputs.default = {'x': {'a': 2}}
parent = ProcessSpec()
ProcessSpec._expose_ports(None, child.inputs, parent.inputs, parent._exposed_inputs, 'child', None, None)
exposed = parent.inputs['child']
assert exposed['x'].default is not child.inputs['x'].default  # ports: independent
exposed['opts'].default['tol'] = 99
exposed.default['x']['a'] = 99
if child.inputs['opts'].default['tol'] == 99 or child.inputs.default['x']['a'] == 99:
    finding(
        'a change of the default of an exposed namespace shows through to the source',
        f"child `opts` default: {child.inputs['opts'].default}, child inputs default: {child.inputs.default}",
    )

# 4. "include together with exclude is rejected" - it is, but not before the target namespace was created (empty
#    `exclude`) / the properties of the destination were overwritten (unsupported option): the rejected call leaves
#    a trace in the destination.
child = ProcessSpec()
child.input('a')
child.inputs.help = 'child help'
parent = ProcessSpec()
try:
    ProcessSpec._expose_ports(None, child.inputs, parent.inputs, parent._exposed_inputs, 'ns', (), ('a',))
except ValueError:
    if 'ns' in parent.inputs:
        finding(
            'a rejected exposure (exclude=() together with include) leaves the new target namespace behind',
            f'parent.inputs holds {sorted(parent.inputs.keys())}',
        )
parent = ProcessSpec()
try:
    ProcessSpec._expose_ports(None, child.inputs, parent.inputs, parent._exposed_inputs, None, None, None, {'nope': 1})
except ValueError:
    if parent.inputs.help == 'child help':
        finding(
            'an exposure rejected for an unsupported namespace option has overwritten the destination properties',
            f'parent.inputs.help={parent.inputs.help!r}, ports: {sorted(parent.inputs.keys())}',
        )

# 5. rule sets: a rule set given as one string passes the `Sequence` check and then selects by substring
child = ProcessSpec()
child.input('a')
child.input('ab')
child.input('abc')
parent = ProcessSpec()
ProcessSpec._expose_ports(None, child.inputs, parent.inputs, parent._exposed_inputs, None, None, 'abc')
if sorted(parent.inputs.keys()) != ['abc']:
    finding(
        "include='abc' (a string instead of a sequence of strings) selects every port whose name is a substring",
        f'exposed: {sorted(parent.inputs.keys())}',
    )

assert isinstance(child.inputs['a'], InputPort)
print(f'{len(findings)} finding(s) reproduced')
sys.exit(1 if findings else 0)
