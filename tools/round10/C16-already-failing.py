# -*- coding: utf-8 -*-
"""C16 on the UNCHANGED tree: a state of the application that is labelled by a string.

``plumpy.base.state_machine.LABEL_TYPE`` is ``Union[None, enum.Enum, str]``: a state class may be labelled by a plain
string.  ``Process.on_entered`` only announces a transition whose *target* label is an ``enum.Enum`` (so the transition
into a string-labelled state is silently not announced), and it computes the ``<from>`` part as ``from_state.LABEL.value``
without any such check: the transition *out of* the string-labelled state raises ``AttributeError`` in the ENTERED hook
-- but only when the process has a communicator.  So the very same program finishes without a communicator and ends up
EXCEPTED with one: announcing the transitions disturbs the process, and the completed transitions created->held and
held->running are never announced.

Exits 0 if the violation is observed (i.e. "already failing"), 1 if the tree behaves according to the property.
"""

import asyncio
import sys

import kiwipy

import plumpy
from plumpy import process_states
from plumpy.process_states import ProcessState


class Held(process_states.State):
    LABEL = 'held'
    ALLOWED = {ProcessState.RUNNING, ProcessState.KILLED, ProcessState.EXCEPTED}

    def __init__(self, process, run_fn):
        super().__init__(process)
        self.run_fn = run_fn

    def execute(self):
        return self.create_state(ProcessState.RUNNING, self.run_fn)


class Created(process_states.Created):
    ALLOWED = process_states.Created.ALLOWED | {'held'}

    def execute(self):
        return self.create_state('held', self.run_fn)


class HeldProcess(plumpy.Process):
    @classmethod
    def get_state_classes(cls):
        states = dict(super().get_state_classes())
        states[ProcessState.CREATED] = Created
        states['held'] = Held
        return states

    async def run(self):
        return 7


def run(communicator):
    loop = asyncio.new_event_loop()
    asyncio.set_event_loop(loop)
    proc = HeldProcess(pid=1, communicator=communicator, loop=loop)
    loop.run_until_complete(asyncio.wait_for(proc.step_until_terminated(), 10))
    return proc


if __name__ == '__main__':
    without = run(None)
    print('without communicator:', without.state)

    comm = kiwipy.LocalCommunicator()
    announced = []
    comm.add_broadcast_subscriber(lambda _c, body, sender, subject, correlation_id: announced.append(subject), 'observer')
    with_comm = run(comm)
    print('with communicator   :', with_comm.state, repr(with_comm.exception()))
    print('announced           :', announced)

    violated = without.state != with_comm.state or 'state_changed.created.held' not in announced
    print('property violated on this tree:', violated)
    sys.exit(0 if violated else 1)
