# -*- coding: utf-8 -*-
"""Histories / inputs for which the UNCHANGED tree already violates the statement of C09.

Run as ``PYTHONPATH=<tree>/src /venv/bin/python already-failing.py``: exits 1 and lists the violations found.

1. checkpoint taken while an ``elif_`` predicate is being evaluated: the recreated chain takes the WRONG branch
   (``_IfStepper._pos`` is saved half-way through the scan and the scan starts again from the first predicate without
   resetting it)
2. after loading a checkpoint a step is looked up BY NAME on the class of the chain (``_FunctionStepper.load_instance_state``)
   instead of being the function written in the outline (``func_spec`` is handed over in the load context but not used):
   an outline that names ``Base.work`` calls ``Sub.work`` after a reload
3. a step that returns a plumpy command (``Stop``, ``Continue``, ...) does not stop the chain with that value as result:
   ``Running.execute`` interprets the value instead
4. a step called ``run`` replaces ``Process.run``: the outline is never executed (the test suite itself has such a chain,
   ``test_tocontext_schedule_workchain``, whose ``check`` step is therefore never called)
"""

import sys

import plumpy
from plumpy.workchains import WorkChain, if_

PROBLEMS = []
CHECKPOINTS = {}


# --- 1 -------------------------------------------------------------------------------------------------------------
class Branches(WorkChain):
    calls = None

    @classmethod
    def define(cls, spec):
        super().define(spec)
        spec.outline(if_(cls.is_a)(cls.do_a).elif_(cls.is_b)(cls.do_b).else_(cls.do_c), cls.end)

    def on_create(self):
        super().on_create()
        self.calls = []

    def is_a(self):
        self.calls.append('is_a')
        return False

    def is_b(self):
        self.calls.append('is_b')
        if 'branches' not in CHECKPOINTS:
            CHECKPOINTS['branches'] = plumpy.Bundle(self, dereference=True)
        return True

    def do_a(self):
        self.calls.append('do_a')

    def do_b(self):
        self.calls.append('do_b')

    def do_c(self):
        self.calls.append('do_c')

    def end(self):
        self.calls.append('end')
        return 'end'


def case_1():
    chain = Branches()
    chain.execute()
    copy = CHECKPOINTS['branches'].unbundle()
    copy.calls = []
    copy.execute()
    expected = ['is_a', 'is_b', 'do_b', 'end']
    print('1. original:', chain.calls, '| recreated:', copy.calls)
    if chain.calls != expected:
        PROBLEMS.append(f'1. original: expected {expected}, got {chain.calls}')
    if copy.calls != expected:
        PROBLEMS.append(f'1. chain recreated from a checkpoint taken in an elif_ predicate: expected {expected}, got {copy.calls}')


# --- 2 -------------------------------------------------------------------------------------------------------------
class Base(WorkChain):
    calls = None

    @classmethod
    def define(cls, spec):
        super().define(spec)
        # The outline names the implementation of the base class explicitly
        spec.outline(cls.begin, Base.work, cls.end)

    def on_create(self):
        super().on_create()
        self.calls = []

    def begin(self):
        self.calls.append('begin')

    def work(self):
        self.calls.append('Base.work')
        if 'byname' not in CHECKPOINTS:
            # (the recreated chain runs the step during which the checkpoint was taken again)
            CHECKPOINTS['byname'] = plumpy.Bundle(self, dereference=True)

    def end(self):
        self.calls.append('end')
        return 'end'


class Sub(Base):
    def work(self):
        self.calls.append('Sub.work')
        return 'stopped by Sub.work'


def case_2():
    chain = Sub()
    chain.execute()
    # Checkpoint taken during the second step
    copy = CHECKPOINTS['byname'].unbundle()
    copy.calls = []
    copy.execute()
    print('2. original:', chain.calls, chain.result(), '| recreated:', copy.calls, copy.result())
    if chain.calls != ['begin', 'Base.work', 'end']:
        PROBLEMS.append(f"2. original: expected ['begin', 'Base.work', 'end'], got {chain.calls}")
    expected = ['Base.work', 'end']
    if copy.calls != expected or copy.result() != 'end':
        PROBLEMS.append(
            f'2. recreated chain calls another function than the one written in the outline: expected {expected} and '
            f"'end', got {copy.calls} and {copy.result()!r}"
        )


# --- 3 -------------------------------------------------------------------------------------------------------------
def case_3():
    calls = []
    values = {}

    class Commands(WorkChain):
        @classmethod
        def define(cls, spec):
            super().define(spec)
            spec.outline(cls.first, cls.second)

        def first(self):
            calls.append('first')
            values['stop'] = plumpy.Stop('inner', True)
            return values['stop']

        def second(self):
            calls.append('second')
            return 'second'

    chain = Commands()
    chain.execute()
    print('3. calls:', calls, 'result:', repr(chain.result()))
    if chain.result() is not values['stop']:
        PROBLEMS.append(f"3. step returned {values['stop']!r} (not None, not a ToContext): the result is {chain.result()!r}")

    calls.clear()

    class Continues(WorkChain):
        @classmethod
        def define(cls, spec):
            super().define(spec)
            spec.outline(cls.first, cls.second)

        def first(self):
            calls.append('first')
            return plumpy.Continue(self.elsewhere)

        def elsewhere(self):
            calls.append('elsewhere')
            return 'elsewhere'

        def second(self):
            calls.append('second')
            return 'second'

    chain = Continues()
    chain.execute()
    print('3. calls:', calls, 'result:', repr(chain.result()))
    if calls != ['first'] or not isinstance(chain.result(), plumpy.Continue):
        PROBLEMS.append(f'3. step returned a Continue command as its value: calls {calls}, result {chain.result()!r}')


# --- 4 -------------------------------------------------------------------------------------------------------------
def case_4():
    calls = []

    class Named(WorkChain):
        @classmethod
        def define(cls, spec):
            super().define(spec)
            spec.outline(cls.run, cls.check)

        def run(self):
            calls.append('run')

        def check(self):
            calls.append('check')
            return 'checked'

    chain = Named()
    chain.execute()
    print('4. calls:', calls, 'result:', repr(chain.result()))
    if calls != ['run', 'check'] or chain.result() != 'checked':
        PROBLEMS.append(f"4. outline (run, check): expected the calls ['run', 'check'] and 'checked', got {calls} and {chain.result()!r}")


def main():
    for case in (case_1, case_2, case_3, case_4):
        try:
            case()
        except Exception as exception:
            PROBLEMS.append(f'{case.__name__}: raised {type(exception).__name__}: {exception}')

    if PROBLEMS:
        print('\nVIOLATIONS of C09 on this tree:')
        for problem in PROBLEMS:
            print('  -', problem)
        return 1
    print('\nno violation')
    return 0


if __name__ == '__main__':
    sys.exit(main())
