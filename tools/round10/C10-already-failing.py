# -*- coding: utf-8 -*-
"""C10 on the UNCHANGED tree: an awaited child that ends EXCEPTED is taken for a success.

``Process.on_finish`` resolves the future of the process (``set_result(outputs)``) while the FINISHED state is being
*entered*.  If something that runs later in the same transition fails -- an ``on_finished`` / ``on_terminated`` hook of the
child class, or ``broadcast_send`` of an application's communicator raising something else than the three exceptions that
are caught -- the child ends EXCEPTED: ``on_except`` finds the future done and *replaces* it with a new one carrying the
exception.  A work chain that handed the child to the context holds the old future, so its barrier sees a success: the next
step runs (with the outputs under the key) although the awaited item failed, and the work chain ends FINISHED.

Statement violated: "If an awaited item fails or is killed the workchain ends EXCEPTED with that error and the following
step never runs."

(2) A second, weaker observation: the public ``Process.resume()`` called by anybody while the work chain waits for its
awaitables opens the barrier at once: the next step starts before the awaited items have completed and never gets the results.

Exit status: 1 when a violation is observed (which is what happens on the unchanged tree), 0 otherwise.
"""

import asyncio
import sys

import plumpy
from plumpy import ToContext, WorkChain

PROBLEMS = []


class Child(plumpy.Process):
    @classmethod
    def define(cls, spec):
        super().define(spec)
        spec.output('value')

    def run(self):
        self.out('value', 5)

    def on_finished(self):
        super().on_finished()
        raise RuntimeError('the termination hook of the child failed')


async def excepted_child_taken_for_success():
    ran = []

    class Parent(WorkChain):
        @classmethod
        def define(cls, spec):
            super().define(spec)
            spec.outline(cls.begin, cls.after)

        def begin(self):
            self.child = self.launch(Child)
            return ToContext(child=self.child)

        def after(self):
            ran.append((dict(self.ctx.child), self.child.state, self.child.exception()))

    parent = Parent()
    await asyncio.wait_for(parent.step_until_terminated(), 5)
    child = parent.child
    assert child.state == plumpy.ProcessState.EXCEPTED, child.state
    if parent.state != plumpy.ProcessState.EXCEPTED or ran:
        PROBLEMS.append(
            f'(1) the awaited child ended {child.state} with {child.exception()!r} (its future now raises: '
            f'{child.future().exception()!r}), but the work chain ended {parent.state} / {parent.exception()!r} and the next '
            f'step ran: {ran}'
        )


async def resume_opens_the_barrier():
    ran = []

    class Parent(WorkChain):
        @classmethod
        def define(cls, spec):
            super().define(spec)
            spec.outline(cls.begin, cls.after)

        def begin(self):
            self.item = plumpy.Future(loop=self.loop)
            return ToContext(item=self.item)

        def after(self):
            ran.append((self.item.done(), dict(vars(self.ctx))))

    parent = Parent()
    task = asyncio.ensure_future(parent.step_until_terminated())
    for _ in range(10):
        await asyncio.sleep(0)
    assert parent.state == plumpy.ProcessState.WAITING
    parent.resume()
    for _ in range(10):
        await asyncio.sleep(0)
    if ran:
        PROBLEMS.append(f'(2) after resume() the next step ran while the awaited item was pending: (item done, ctx) = {ran}')
    parent.item.set_result('late')
    await asyncio.wait_for(task, 5)


async def main():
    await excepted_child_taken_for_success()
    await resume_opens_the_barrier()


if __name__ == '__main__':
    asyncio.run(main())
    if PROBLEMS:
        print('C10 violated on this tree:')
        for problem in PROBLEMS:
            print(' -', problem)
        sys.exit(1)
    print('ok')
