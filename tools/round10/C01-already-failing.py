"""Unchanged tree: a terminal state that has been ENTERED is left again when the state-change broadcast fails with an
exception that ``Process.on_entered`` does not expect (here ``kiwipy.CommunicatorClosed``: the communicator was closed
while a step of the process was running).  No lifecycle hook of the process raises.

Observed: FINISHED is entered (ENTERED_STATE fired, ``on_process_finished`` delivered, future result set), then the
process moves FINISHED -> EXCEPTED.
"""
import asyncio
import sys

import kiwipy
import plumpy
from plumpy.base.state_machine import StateEventHook


class P(plumpy.Process):
    gate = None

    async def run(self):
        await self.gate  # an asynchronous step that is in flight while the communicator goes away
        return None


class L(plumpy.ProcessListener):
    def __init__(self):
        super().__init__()
        self.seen = []

    def on_process_finished(self, process, outputs):
        self.seen.append('finished')

    def on_process_excepted(self, process, reason):
        self.seen.append('excepted')


async def main():
    comm = kiwipy.LocalCommunicator()
    proc = P(communicator=comm)
    proc.gate = asyncio.get_event_loop().create_future()
    listener = L()
    proc.add_process_listener(listener)
    task = asyncio.ensure_future(proc.step_until_terminated())
    while proc.state != plumpy.ProcessState.RUNNING:
        await asyncio.sleep(0)
    await asyncio.sleep(0)
    comm.close()  # the other party goes away
    proc.gate.set_result(None)
    try:
        await task
    except BaseException as exc:  # noqa
        print('stepping raised', type(exc).__name__)
    return proc, listener


proc, listener = asyncio.get_event_loop().run_until_complete(main())
print('listener saw', listener.seen, 'final state', proc.state)
if 'finished' in listener.seen and proc.state != plumpy.ProcessState.FINISHED:
    print('VIOLATION: FINISHED had been entered, the state is now', proc.state)
    sys.exit(1)
sys.exit(0)
