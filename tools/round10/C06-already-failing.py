# -*- coding: utf-8 -*-
"""UNCHANGED tree: a work chain stays WAITING for ever when the item it awaits ended with an exception that is not an
``Exception`` (a ``BaseException`` subclass of the application, as a task may well end with).

``workchains.Waiting._awaitable_done`` only catches ``asyncio.CancelledError`` and ``Exception`` around
``awaitable.result()``: anything else is raised out of the done callback into the event loop's exception handler, the
wait future is never resolved and the chain -- playing, with everything it awaits completed -- never continues.

Exits 0 if the chain leaves WAITING (fails, as it does for an ordinary exception), 1 if it hangs.
"""
import asyncio
import sys

import plumpy
from plumpy import ProcessState

AWAITED = {}


class Abort(BaseException):
    """An application's own 'stop everything' exception, deliberately not an ``Exception``"""


class Chain(plumpy.WorkChain):
    @classmethod
    def define(cls, spec):
        super().define(spec)
        spec.outline(cls.start, cls.finish)

    def start(self):
        self.to_context(answer=AWAITED['future'])

    def finish(self):
        pass


async def failing_job():
    await asyncio.sleep(0.05)
    raise Abort('stop')


async def main():
    loop = asyncio.get_running_loop()
    loop.set_exception_handler(lambda _loop, context: print('  (loop exception handler got:', context.get('message'), repr(context.get('exception')), ')'))
    AWAITED['future'] = asyncio.ensure_future(failing_job())
    chain = Chain()
    task = loop.create_task(chain.step_until_terminated())
    try:
        await asyncio.wait_for(asyncio.shield(task), 2)
    except asyncio.TimeoutError:
        print(f'FAIL: the awaited task is done ({AWAITED["future"]!r}) but the chain is still {chain.state}, paused={chain.paused}')
        task.cancel()
        return 1
    print(f'OK: chain ended {chain.state} with {chain.exception()!r}')
    return 0


if __name__ == '__main__':
    sys.exit(asyncio.run(main()))
