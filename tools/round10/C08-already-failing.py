# -*- coding: utf-8 -*-
"""C08: histories / inputs for which the UNCHANGED tree already violates the property.

Each case runs a process uninterrupted, then runs it again checkpointing at every step boundary (the bundle is deep
copied, as ``InMemoryPersister`` does) and resumes every checkpoint in a fresh event loop.  Prints what differs, exits
non-zero if any case shows a violation.

1. private steps: a continuation / outline step that is a name mangled method (``self.__second``, ``cls.__second``) is
   saved under its ``__name__`` (``__second``) but must be looked up as ``_Class__second``: the checkpoint cannot be loaded.
2. outline naming the step of a base class explicitly (``Base.work``) in a work chain that overrides ``work``: the
   uninterrupted execution calls ``Base.work``, a resumed one ``getattr(type(self), 'work')``, i.e. the override.
3. an object shared by the context and the outputs (``self.out('values', self.ctx.values)``, appended to in a later
   step): the outputs are encoded on their own, the two are different objects after a restore and the output emitted
   before the checkpoint no longer follows the context.
"""

import asyncio
import copy
import sys

import plumpy

EXECUTED = []


class PrivateSteps(plumpy.Process):
    @classmethod
    def define(cls, spec):
        super().define(spec)
        spec.outputs.dynamic = True

    def run(self):
        EXECUTED.append('run')
        self.out('a', 1)
        return plumpy.Continue(self.__second)

    def __second(self):
        EXECUTED.append('second')
        self.out('b', 2)


class PrivateOutline(plumpy.WorkChain):
    @classmethod
    def define(cls, spec):
        super().define(spec)
        spec.outputs.dynamic = True
        spec.outline(cls.first, cls.__second, cls.third)

    def first(self):
        EXECUTED.append('first')

    def __second(self):
        EXECUTED.append('second')

    def third(self):
        EXECUTED.append('third')
        self.out('done', True)


class Base(plumpy.WorkChain):
    @classmethod
    def define(cls, spec):
        super().define(spec)
        spec.outputs.dynamic = True
        # (the step of this class, whatever a subclass makes of ``work``)
        spec.outline(cls.prepare, Base.work, cls.finish)

    def prepare(self):
        EXECUTED.append('prepare')
        self.ctx.value = 1

    def work(self):
        EXECUTED.append('Base.work')
        self.ctx.value += 1

    def finish(self):
        EXECUTED.append('finish')
        self.out('value', self.ctx.value)


class Derived(Base):
    def work(self):
        EXECUTED.append('Derived.work')
        self.ctx.value += 100


class SharedObject(plumpy.WorkChain):
    @classmethod
    def define(cls, spec):
        super().define(spec)
        spec.outputs.dynamic = True
        spec.outline(cls.start, cls.more)

    def start(self):
        EXECUTED.append('start')
        self.ctx.values = [1]
        self.out('values', self.ctx.values)

    def more(self):
        EXECUTED.append('more')
        self.ctx.values.append(2)


def outcome(proc):
    result = {'state': proc.state.value, 'outputs': copy.deepcopy(dict(proc.outputs))}
    if isinstance(proc, plumpy.WorkChain):
        result['context'] = copy.deepcopy(dict(vars(proc.ctx)))
    return result


def run_all(proc_class):
    """Uninterrupted execution, with a (dereferenced) bundle and the steps made so far at every boundary"""
    loop = asyncio.new_event_loop()
    proc = proc_class(loop=loop)
    del EXECUTED[:]
    snapshots = []
    while True:
        try:
            snapshots.append((copy.deepcopy(dict(plumpy.Bundle(proc))), list(EXECUTED)))
        except Exception as exception:
            snapshots.append((exception, list(EXECUTED)))
        if proc.has_terminated():
            break
        loop.run_until_complete(proc.step())
    loop.close()
    return outcome(proc), list(EXECUTED), snapshots


def check(proc_class):
    problems = []
    reference, all_steps, snapshots = run_all(proc_class)
    for boundary, (saved, done) in enumerate(snapshots):
        label = f'{proc_class.__name__}, checkpoint of boundary {boundary} (after {done})'
        if isinstance(saved, Exception):
            problems.append(f'{label}: cannot be checkpointed: {type(saved).__name__}: {saved}')
            continue
        loop = asyncio.new_event_loop()
        del EXECUTED[:]
        try:
            bundle = plumpy.Bundle.__new__(plumpy.Bundle)
            bundle.update(saved)
            proc = bundle.unbundle(plumpy.LoadSaveContext(loop=loop))
            if not proc.has_terminated():
                loop.run_until_complete(proc.step_until_terminated())
            got = outcome(proc)
        except Exception as exception:
            problems.append(f'{label}: cannot be resumed: {type(exception).__name__}: {exception}')
            continue
        finally:
            loop.close()
        expected_steps = all_steps[len(done) :]
        if EXECUTED != expected_steps:
            problems.append(f'{label}: executed {EXECUTED}, the uninterrupted execution {expected_steps}')
        if got != reference:
            problems.append(f'{label}: outcome {got}, the uninterrupted execution {reference}')
    return problems


def main():
    asyncio.set_event_loop(asyncio.new_event_loop())
    failed = 0
    for proc_class in (PrivateSteps, PrivateOutline, Derived, SharedObject):
        problems = check(proc_class)
        print(f'{proc_class.__name__}: {"VIOLATED" if problems else "ok"}')
        for problem in problems:
            print('   -', problem)
        failed += bool(problems)
    return 1 if failed else 0


if __name__ == '__main__':
    sys.exit(main())
