# -*- coding: utf-8 -*-
"""Histories / inputs for which the UNCHANGED tree already violates C13.  Prints every violation found, exits 1 if any.

1. keyword arguments of Continue named like a parameter of the state factory (``state_label``, ``process``, ``run_fn``)
2. a step that is a name-mangled ("private", ``__step``) method, with a checkpoint restore before it
3. resume(v) followed by a checkpoint before the stepping task consumed the value: the restored process has lost v
4. a Bundle that is unbundled twice: the second process sees the arguments as the first one's step left them
"""
import asyncio
import sys

import plumpy
from plumpy import ProcessState
from plumpy import process_states as ps

problems = []
loop = asyncio.get_event_loop()


async def until(proc, state):
    for _ in range(50):
        if proc.state == state or proc.has_terminated():
            return
        await asyncio.sleep(0)


# 1 ------------------------------------------------------------------------------------------------------------------
class Keywords(plumpy.Process):
    KEYWORD = None

    def run(self):
        return ps.Continue(self.labelled, **{self.KEYWORD: 'x'})

    def labelled(self, state_label=None, process=None, run_fn=None):
        return (state_label, process, run_fn)


for keyword in ('state_label', 'process', 'run_fn'):
    Keywords.KEYWORD = keyword
    proc = Keywords()
    try:
        proc.execute()
    except Exception:
        pass
    if proc.state != ProcessState.FINISHED:
        problems.append(f"1. Continue(f, {keyword}='x') did not run f({keyword}='x'): {proc.state}: {proc.exception()!r}")


# 2 ------------------------------------------------------------------------------------------------------------------
class Private(plumpy.Process):
    def run(self):
        return ps.Continue(self.__second, 5)

    def __second(self, value):
        return value + 1


async def private():
    proc = Private()
    await proc.step()  # CREATED -> RUNNING(run)
    await proc.step()  # RUNNING(run) -> RUNNING(__second, 5)
    try:
        restored = plumpy.Bundle(proc).unbundle()
        await restored.step_until_terminated()
        assert restored.result() == 6
    except Exception as exception:
        problems.append(f'2. Continue(self.__second, 5) + checkpoint restore: {type(exception).__name__}: {exception}')
    await proc.step_until_terminated()
    assert proc.result() == 6  # (without the restore it works)


loop.run_until_complete(private())


# 3 ------------------------------------------------------------------------------------------------------------------
class Waiter(plumpy.Process):
    def run(self):
        return ps.Wait(self.got)

    def got(self, value=None):
        return value


async def resumed_then_saved():
    proc = Waiter()
    task = loop.create_task(proc.step_until_terminated())
    await until(proc, ProcessState.WAITING)
    proc.resume('v')  # the process has been resumed with 'v' ...
    bundle = plumpy.Bundle(proc)  # ... and is checkpointed before got('v') ran
    await task
    assert proc.result() == 'v'

    restored = bundle.unbundle()
    try:
        await asyncio.wait_for(restored.step_until_terminated(), 0.5)
    except asyncio.TimeoutError:
        pass
    if restored.state != ProcessState.FINISHED or restored.result() != 'v':
        problems.append(f"3. resume('v'), checkpoint, restore: got('v') never runs, the restored process is {restored.state}")


loop.run_until_complete(resumed_then_saved())


# 4 ------------------------------------------------------------------------------------------------------------------
class Mutator(plumpy.Process):
    def run(self):
        return ps.Continue(self.consume, [1, 2])

    def consume(self, items):
        seen = list(items)
        items.append(99)
        return seen


async def loaded_twice():
    proc = Mutator()
    await proc.step()
    await proc.step()  # now RUNNING(consume, [1, 2])
    bundle = plumpy.Bundle(proc)
    results = []
    for _ in range(2):
        loaded = bundle.unbundle()
        await loaded.step_until_terminated()
        results.append(loaded.result())
    if results != [[1, 2], [1, 2]]:
        problems.append(f'4. the same Bundle unbundled twice: consume([1, 2]) was called with {results}')


loop.run_until_complete(loaded_twice())

for problem in problems:
    print('VIOLATION (unchanged tree):', problem)
sys.exit(1 if problems else 0)
