# -*- coding: utf-8 -*-
"""C20: histories/inputs for which the UNCHANGED tree already violates the property statement.

Run as: PYTHONPATH=<tree>/src /venv/bin/python already-failing.py   (exits 1 and prints the violations it found)

1. ``unwrap_kiwi_future`` (and ``kiwipy.copy_future``/``chain``) learn about a failure only by calling ``fut.result()``
   and waiting for it to raise.  ``concurrent.futures.Future.result()`` decides with ``if self._exception:`` (a
   truthiness test), so for an exception object that is *falsy* -- an application exception with ``__len__``/``__bool__``,
   e.g. a collection of validation errors that happens to be empty -- it does not raise but returns ``None``.  The
   unwrapping future then ends with the *result None* instead of the exception.  (``fut.exception()`` does return the
   exception: asking ``fut.exception() is not None`` in ``unwrap`` would fix it.)  The same exception goes through
   ``create_task`` and ``plum_to_kiwi_future`` (asyncio side) unharmed, so the loss happens in the unwrapping only.

2. ``CancellableAction.run`` reports a failure of its function with ``asyncio.Future.set_exception``, which refuses
   ``StopIteration`` (TypeError "StopIteration interacts badly with generators").  An action whose function raises
   StopIteration (e.g. an ``on_pausing`` hook doing ``next()`` on an exhausted iterator) therefore does not report its
   outcome through itself: ``run`` raises TypeError to its caller, the action stays pending, and it does not refuse to
   be run again (the second ``run`` is accepted and ends with "'NoneType' object is not callable").  Likewise for a
   function ending with a ``BaseException`` that is not an ``Exception`` (e.g. ``asyncio.CancelledError``).
"""

import asyncio
import sys

import kiwipy

from plumpy import communications, futures

VIOLATIONS = []


def violation(text):
    VIOLATIONS.append(text)
    print('VIOLATION:', text)


class ValidationErrors(Exception):
    def __init__(self, *errors):
        super().__init__(*errors)
        self.errors = list(errors)

    def __len__(self):
        return len(self.errors)


def falsy_exception_through_unwrap():
    for depth in (0, 1, 2):
        levels = [kiwipy.Future() for _ in range(depth + 1)]
        unwrapped = futures.unwrap_kiwi_future(levels[0])
        for i in range(depth):
            levels[i].set_result(levels[i + 1])
        err = ValidationErrors()
        levels[-1].set_exception(err)
        if not unwrapped.done():
            violation('unwrap depth %d: never completed' % depth)
        elif unwrapped.cancelled() or unwrapped.exception() is not err:
            violation(
                'unwrap depth %d: innermost future failed with ValidationErrors() but the unwrapping future ended with '
                'exception=%r result=%r' % (depth, unwrapped.exception(), unwrapped.result())
            )


async def falsy_exception_through_mirror():
    """Control: the loop side and the mirror carry the same exception faithfully"""
    err = ValidationErrors()

    async def coro():
        raise err

    mirror = communications.plum_to_kiwi_future(futures.create_task(coro))
    for _ in range(100):
        if mirror.done():
            break
        await asyncio.sleep(0.01)
    if not mirror.done() or mirror.exception() is not err:
        violation('mirror: did not end with the exception')
    # ... but whoever unwraps the mirror loses it
    unwrapped = futures.unwrap_kiwi_future(mirror)
    if unwrapped.exception() is not err:
        violation('mirror+unwrap: ended with exception=%r result=%r instead of the ValidationErrors()'
                  % (unwrapped.exception(), unwrapped.result()))


async def action_function_raises(exc_type):
    calls = []

    def function():
        calls.append(1)
        raise exc_type('from the function')

    action = futures.CancellableAction(function)
    try:
        action.run()
    except BaseException as exc:
        violation('action(%s): run() reported the outcome by raising %s(%s) to its caller'
                  % (exc_type.__name__, type(exc).__name__, exc))
    if not action.done():
        violation('action(%s): the action is still pending after it was run' % exc_type.__name__)
        try:
            action.run()
        except futures.InvalidStateError:
            pass  # refused: fine
        else:
            violation('action(%s): a second run() was accepted; action now: %r' % (exc_type.__name__, action))
    if action.done() and not action.cancelled():
        action.exception()


async def main():
    falsy_exception_through_unwrap()
    await falsy_exception_through_mirror()
    await action_function_raises(StopIteration)
    await action_function_raises(asyncio.CancelledError)


if __name__ == '__main__':
    asyncio.run(main())
    print('%d violation(s)' % len(VIOLATIONS))
    sys.exit(1 if VIOLATIONS else 0)
