# -*- coding: utf-8 -*-
"""Inputs for which the UNCHANGED tree already violates C19 (members declared with auto_persist are not restored).

Run: PYTHONPATH=<tree>/src /venv/bin/python already-failing.py   (exits 1 and lists the violations)
"""

import asyncio
import sys

import plumpy

problems = []


# 1) Multiple inheritance: two bases that both declare members.  `auto_persist` starts from `savable._auto_persist`,
#    i.e. the set of the FIRST base in the MRO only; what the second base declared is neither saved nor restored.
@plumpy.auto_persist('a')
class A(plumpy.Savable):
    pass


@plumpy.auto_persist('b')
class B(plumpy.Savable):
    pass


@plumpy.auto_persist('c')
class C(A, B):
    def __init__(self):
        self.a, self.b, self.c = 1, 2, 3


saved = C().save()
loaded = plumpy.Savable.load(saved)
if 'b' not in saved or getattr(loaded, 'b', None) != 2:
    problems.append(f"1) member 'b' declared by the second base class is lost: saved state {saved}")


# 2) A subclass of SavableFuture with a member of its own: saved, but SavableFuture.recreate_from builds the object
#    with cls(loop=loop) and never calls load_instance_state, so the declared member is not restored.
@plumpy.auto_persist('label')
class LabelledFuture(plumpy.SavableFuture):
    pass


loop = asyncio.new_event_loop()
asyncio.set_event_loop(loop)
future = LabelledFuture(loop=loop)
future.label = 'x'
future.set_result(5)
saved = future.save()
loaded = plumpy.Savable.load(saved)
if getattr(loaded, 'label', None) != 'x':
    problems.append(f"2) member 'label' of a SavableFuture subclass is saved ({saved}) but not restored")


# 3) A bound method with a name-mangled (double underscore) name: saved under `__name__` ('__priv'), which
#    getattr(self, ...) cannot find on load (the attribute is '_P__priv'): AttributeError instead of a rebound method.
@plumpy.auto_persist('cb')
class P(plumpy.Savable):
    def __init__(self):
        self.cb = self.__priv

    def __priv(self):
        return 'called'


saved = P().save()
try:
    loaded = plumpy.Savable.load(saved)
    assert loaded.cb() == 'called' and loaded.cb.__self__ is loaded
except Exception as exc:
    problems.append(f'3) bound method with a private name is saved as {saved["cb"]!r} and cannot be rebound: {exc!r}')


# 4) (weaker) A second load of the same bundle: values are copied at save time but handed out by reference at load
#    time, so an object recreated from a bundle shares its mutable members with the bundle and with every later load.
@plumpy.auto_persist('items')
class L(plumpy.Savable):
    def __init__(self):
        self.items = [1]


bundle = plumpy.Bundle(L())
first = bundle.unbundle()
first.items.append(2)
second = bundle.unbundle()
if second.items != [1]:
    problems.append(f'4) second load of the same bundle sees the mutation made through the first: {second.items}')

loop.close()
if problems:
    print('ALREADY FAILING on this tree:')
    for problem in problems:
        print(' -', problem)
    sys.exit(1)
print('nothing fails')
