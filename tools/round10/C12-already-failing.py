"""Histories / inputs for which the UNCHANGED tree already departs from the C12 statement.

Run as  PYTHONPATH=<tree>/src /venv/bin/python already-failing.py  : prints one line per finding, exits 1 if any reproduces.
"""
import sys

import plumpy

findings = []


# 1. ``UNSPECIFIED`` is the empty tuple and is tested by identity; CPython has only one empty tuple.  So ``()`` emitted
#    on an output port *is* "not specified": it is stored on an optional port whatever the declared type / validator
#    say, and refused ("required value was not provided") on a required port that does accept tuples.
class EmptyTuple(plumpy.Process):
    @classmethod
    def define(cls, spec):
        super().define(spec)
        spec.output('number', valid_type=int, required=False, validator=lambda value, port: 'never valid')
        spec.output('items', valid_type=tuple)

    def run(self):
        try:
            self.out('number', tuple())
            findings.append(f"1a. out('number', ()) stored on an optional int port with a validator that refuses all: {self.outputs}")
        except ValueError:
            pass
        try:
            self.out('items', tuple())
        except ValueError as exception:
            findings.append(f"1b. out('items', ()) refused on a required port of type tuple: {exception}")


EmptyTuple().execute()


# 2. ``out()`` resolves the namespace of a nested port with ``get_port(create_dynamically=True)`` *before* validating:
#    the sub-namespace it creates stays in the (class level, sealed) spec even when the value is then refused, and it
#    changes what later emissions -- of this and of every other process of the class -- are accepted.
class Polluted2(plumpy.Process):
    @classmethod
    def define(cls, spec):
        super().define(spec)
        spec.input('spoil', valid_type=bool, default=False)
        spec.output_namespace('dyn', valid_type=int, dynamic=True)

    def run(self):
        if self.inputs.spoil:
            try:
                self.out('dyn.a.b', 'not an int')
            except ValueError:
                pass
            return
        self.out('dyn.a', 5)


ok = Polluted2()
ok.execute()
assert ok.is_successful and ok.outputs == {'dyn': {'a': 5}}
Polluted2(inputs={'spoil': True}).execute()  # its emission is refused, outputs stay empty...
again = Polluted2()
try:
    again.execute()
except ValueError as exception:
    findings.append(f"2. after a *refused* out('dyn.a.b', 'x') of another process of the class, out('dyn.a', 5) is refused: {exception}")


# 3. The lookup of the port and its validation share one ``try ... except KeyError``: a validator that raises KeyError
#    (``value['key']`` on a mapping that lacks it) makes a declared port look undeclared, and in a dynamic namespace the
#    value is then stored without the validator having accepted it.
def needs_key(value, port):
    if value['key'] != 'value':
        return 'wrong value'


class KeyErrorValidator(plumpy.Process):
    @classmethod
    def define(cls, spec):
        super().define(spec)
        spec.outputs.dynamic = True
        spec.output('settings', valid_type=dict, validator=needs_key, required=False)

    def run(self):
        try:
            self.out('settings', {'other': 1})
            findings.append(f"3. out('settings', {{'other': 1}}) stored although the validator of the port did not accept it: {self.outputs}")
        except (ValueError, KeyError):
            pass
        self.outputs.clear()


KeyErrorValidator().execute()


# 4. ``close()`` (public) drops the state hooks: a process closed from inside ``run`` still transitions to FINISHED,
#    but ``on_finish`` is never called: no validation (successful although the required output is missing), and the
#    future is never resolved.
class ClosedEarly(plumpy.Process):
    @classmethod
    def define(cls, spec):
        super().define(spec)
        spec.output('must', valid_type=int)

    def run(self):
        self.close()


proc = ClosedEarly()
try:
    proc.execute()
except Exception:
    pass
if proc.state == plumpy.ProcessState.FINISHED and proc.is_successful:
    findings.append(f'4. closed inside run(): FINISHED, successful={proc.is_successful}, outputs={proc.outputs}, future done={proc.future().done()}')

for finding in findings:
    print(finding)
sys.exit(1 if findings else 0)
