# -*- coding: utf-8 -*-
"""Histories for which the UNCHANGED tree already violates C02 (exits non-zero and prints them when they reproduce).

1. close() followed by kill() on a live process: ``close`` drops the state event hooks, ``kill`` is not guarded by
   ``ensure_not_closed`` and still performs the transition.  The process ends up KILLED, but ``on_kill``/``on_killed``
   never ran: the future stays pending for ever (waiters are never released), no listener is notified.

2. A termination hook that fails after the listeners were notified (here: an ``on_finished`` override that raises after
   calling super; an unexpected exception from ``communicator.broadcast_send`` in ``on_entered`` does the same): the
   process goes on from FINISHED to EXCEPTED, listeners get TWO terminal notifications, and whoever took
   ``process.future()`` before sees the outputs of a "finished" process while the process reports EXCEPTED (``on_except``
   replaces the future object).

3. One ``Bundle`` unbundled twice: both instances share the very same ``_listeners`` set (``EventHelper`` is loaded with
   the set object stored in the bundle), so a listener added to the first instance is notified of the termination of the
   second, to which it was never added.  (``InMemoryPersister.load_checkpoint`` hides this by deep-copying.)
"""

import sys

import plumpy
from plumpy import ProcessState

FOUND = []


class Listener(plumpy.ProcessListener):
    def __init__(self):
        super().__init__()
        self.terminal = []

    def on_process_finished(self, process, outputs):
        self.terminal.append('finished')

    def on_process_excepted(self, process, reason):
        self.terminal.append('excepted')

    def on_process_killed(self, process, msg):
        self.terminal.append('killed')


class Simple(plumpy.Process):
    async def run(self):
        return 5


class FailingHook(plumpy.Process):
    async def run(self):
        return 5

    def on_finished(self):
        super().on_finished()
        raise RuntimeError('boom')


# 1 ------------------------------------------------------------------------------------------------------------------
proc = Simple()
listener = Listener()
proc.add_process_listener(listener)
proc.close()
killed = proc.kill('bye')
if proc.state == ProcessState.KILLED and not proc.future().done():
    FOUND.append(
        f'1. close()+kill(): kill() returned {killed}, state is KILLED, but the future is still pending and the '
        f'listener got {listener.terminal}'
    )

# 2 ------------------------------------------------------------------------------------------------------------------
proc = FailingHook()
listener = Listener()
proc.add_process_listener(listener)
early_future = proc.future()
try:
    proc.execute()
except Exception:
    pass
if len(listener.terminal) != 1:
    FOUND.append(f'2. failing on_finished override: terminal notifications {listener.terminal}, state {proc.state}')
if proc.state == ProcessState.EXCEPTED and early_future.done() and early_future.exception() is None:
    FOUND.append(
        f'2. failing on_finished override: the future taken before the run resolved to {early_future.result()!r} '
        f'although the process is EXCEPTED (process.future() is a different object: {proc.future() is not early_future})'
    )

# 3 ------------------------------------------------------------------------------------------------------------------
bundle = plumpy.Bundle(Simple())
first = bundle.unbundle()
second = bundle.unbundle()
listener = Listener()
first.add_process_listener(listener)
second.execute()
if listener.terminal:
    FOUND.append(f'3. bundle loaded twice: listener of the first instance was notified by the second: {listener.terminal}')

if FOUND:
    print('the unchanged tree violates C02 for:')
    for line in FOUND:
        print('  -', line)
    sys.exit(1)
print('nothing reproduced')
