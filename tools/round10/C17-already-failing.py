# -*- coding: utf-8 -*-
"""Unchanged tree: the launcher's configured object loader is NOT the one used for the process *state* of a
continued checkpoint.

``Process.load_instance_state`` recreates the state through ``Process.recreate_state``, which builds a brand new
``LoadSaveContext(process=self)`` and so drops the loader of the load context the launcher passed.  The state is then
loaded with (a new, argument-less instance of) the loader class named in the checkpoint, or with the global default
loader -- never with the loader instance the launcher was configured with.

Exit code 0: behaves as the property demands; 1: violation reproduced.
"""
import asyncio
import sys

import plumpy
from plumpy import process_comms


class Proc(plumpy.Process):
    def run(self):
        self.out('default', 5)

    @classmethod
    def define(cls, spec):
        super().define(spec)
        spec.outputs.dynamic = True


class RecordingLoader(plumpy.DefaultObjectLoader):
    """Default behaviour, but every instance records what it was asked to load"""

    def __init__(self):
        self.loaded = []

    def load_object(self, identifier):
        self.loaded.append(identifier)
        return super().load_object(identifier)


async def main():
    configured = RecordingLoader()
    persister = plumpy.InMemoryPersister()  # checkpoints name no loader: whatever is configured at load time decides
    launcher = plumpy.ProcessLauncher(persister=persister, loader=configured)

    pid = await launcher(None, process_comms.create_create_body(Proc, persist=True, loader=configured))
    configured.loaded.clear()
    result = await launcher(None, process_comms.create_continue_body(pid))
    assert result == {'default': 5}, result

    print('identifiers the configured loader was asked for during the continue task:')
    for identifier in configured.loaded:
        print('   ', identifier)
    state_loaded = [i for i in configured.loaded if i.startswith('plumpy.process_states:')]
    if not state_loaded:
        print('VIOLATION: the state class (plumpy.process_states:Created) was loaded by some other loader')
        return 1
    return 0


if __name__ == '__main__':
    sys.exit(asyncio.run(main()))
