"""Unchanged tree: the empty tuple given as an input value is taken for "no value given" (UNSPECIFIED = ()).

`UNSPECIFIED` is the empty tuple, and CPython has only one empty tuple object, so `value is UNSPECIFIED` is true for an
empty tuple that the caller really supplied. `Port.validate` then skips the type check and the validator, so a process is
created with an input that is neither of the declared type nor accepted by the validator (C11: "values of the declared
types, port ... validators satisfied ... otherwise construction raises").
"""
import sys

import plumpy


def never(value, port):
    return 'the validator accepts nothing at all'


class Proc(plumpy.Process):
    @classmethod
    def define(cls, spec):
        super().define(spec)
        spec.input('count', valid_type=int, required=False)
        spec.input('name', valid_type=str, required=False, validator=never)

    async def run(self):
        pass


failed = []

# sanity: other values of the wrong type are refused
for bad in ({'count': 'x'}, {'count': (1,)}, {'name': 'abc'}):
    try:
        Proc(bad)
    except ValueError:
        pass
    else:
        failed.append(f'{bad!r} accepted')

for bad in ({'count': ()}, {'name': ()}):
    try:
        proc = Proc(bad)
    except ValueError:
        pass
    else:
        failed.append(f'process created with inputs {dict(proc.inputs)!r} for the given {bad!r} (int / str port with rejecting validator)')

if failed:
    print('PROPERTY VIOLATED:')
    for line in failed:
        print('  ', line)
    sys.exit(1)
print('ok')
