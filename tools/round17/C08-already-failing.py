"""Unchanged tree: a function step is saved by NAME and rebound with getattr(type(workchain), name) on load.  If the outline of a
base class names the step explicitly (``Base.s2``) and a subclass overrides ``s2``, the uninterrupted run executes ``Base.s2`` but a
run resumed from a checkpoint taken while that step is the current instruction executes ``Sub.s2``.  Exits 1 if the divergence is seen."""
import asyncio
import sys

import plumpy


class Base(plumpy.WorkChain):
    @classmethod
    def define(cls, spec):
        super().define(spec)
        spec.outputs.dynamic = True
        spec.outline(Base.s1, Base.s2, Base.s3)

    def s1(self):
        self.ctx.trace = ['Base.s1']

    def s2(self):
        self.ctx.trace.append('Base.s2')

    def s3(self):
        self.out('trace', list(self.ctx.trace))


class Sub(Base):
    def s2(self):
        self.ctx.trace.append('Sub.s2')


def run(crash_points):
    persister = plumpy.InMemoryPersister()
    loop = asyncio.new_event_loop()
    asyncio.set_event_loop(loop)
    proc = Sub(loop=loop)
    boundary = 0
    while not proc.has_terminated():
        if boundary in crash_points:
            persister.save_checkpoint(proc)
            pid = proc.pid
            loop.close()
            loop = asyncio.new_event_loop()
            asyncio.set_event_loop(loop)
            proc = persister.load_checkpoint(pid).unbundle(plumpy.LoadSaveContext(loop=loop))
        loop.run_until_complete(proc.step())
        boundary += 1
    out = proc.outputs.get('trace')
    loop.close()
    return out


reference = run(())
bad = [(cp, run(cp)) for cp in [(1,), (2,), (3,)] if run(cp) != reference]
print('uninterrupted:', reference)
for cp, trace in bad:
    print('crash points', cp, '->', trace)
sys.exit(1 if bad else 0)
