"""Histories for which the UNCHANGED tree already violates C02.  Exits 1 and prints the violations found.

1. close() on a live process, then kill(): close() dropped the state event hooks, so the process enters KILLED without
   on_kill/on_killed: kill() returns True and the state is KILLED, but the future is never resolved and listeners get no
   terminal notification.
2. A cleanup that calls close() (re-entrant close: `_closed` is only set when on_close is over): on_close runs the whole
   cleanup list again, recursively until RecursionError, so the other cleanups run many times instead of once.
"""
import asyncio
import logging
import sys

import plumpy

logging.disable(logging.CRITICAL)
sys.setrecursionlimit(300)


class P(plumpy.Process):
    async def run(self):
        return 5


class L(plumpy.ProcessListener):
    def __init__(self):
        super().__init__()
        self.terminal = []

    def on_process_killed(self, process, msg):
        self.terminal.append('killed')


loop = asyncio.new_event_loop()
asyncio.set_event_loop(loop)
problems = []

proc = P(loop=loop)
listener = L()
proc.add_process_listener(listener)
proc.close()
answer = proc.kill('stop')
if proc.state == plumpy.ProcessState.KILLED:
    if not proc.future().done():
        problems.append(f'1: kill() -> {answer}, state KILLED, but the process future is still pending')
    if listener.terminal != ['killed']:
        problems.append(f'1: terminal notifications received by the listener: {listener.terminal}')

proc = P(loop=loop)
count = []
proc.add_cleanup(lambda: proc.close())
proc.add_cleanup(lambda: count.append(1))
proc.execute()
if len(count) != 1:
    problems.append(f'2: a cleanup registered once ran {len(count)} times (another cleanup called close())')

for problem in problems:
    print(problem)
sys.exit(1 if problems else 0)
