"""A subclass of SavableFuture that declares a further auto_persist member loses it on the round trip:
SavableFuture.recreate_from builds the object itself and never calls load_members for the declared members."""
import asyncio
import sys

import plumpy
from plumpy import persistence


@persistence.auto_persist('tag')
class TaggedFuture(persistence.SavableFuture):
    def __init__(self, loop=None, tag=None):
        super().__init__(loop=loop)
        self.tag = tag


loop = asyncio.new_event_loop()
asyncio.set_event_loop(loop)
fut = TaggedFuture(loop=loop, tag={'k': 1})
fut.set_result(5)
state = fut.save()
assert state['tag'] == {'k': 1}, state
loaded = persistence.Savable.load(state, persistence.LoadSaveContext(loop=loop))
assert loaded.result() == 5
if getattr(loaded, 'tag', None) != {'k': 1}:
    print('VIOLATION: declared member `tag` not restored: %r' % (getattr(loaded, 'tag', '<missing>'),))
    sys.exit(1)
print('ok')
