"""Unchanged tree: Continue(f, **k) does not make f(**k) the next step for every choice of keyword arguments.
A keyword named like a parameter of the state constructor chain (`process`, `run_fn`, `state_label`) collides in
State.create_state()/Running.__init__() and the process ends EXCEPTED with a TypeError instead of running f(process=5) etc.
Exits 1 (printing the violations) when the defect is present."""
import sys

import plumpy
from plumpy import ProcessState

bad = 0
for kw in ('process', 'run_fn', 'state_label'):

    class P(plumpy.Process):
        def run(self):
            return plumpy.Continue(self.nxt, **{kw: 5})

        def nxt(self, **kwargs):
            return kwargs

    proc = P()
    try:
        proc.execute()
    except Exception as exc:
        print('Continue(f, %s=5): %s: %s (state %s)' % (kw, type(exc).__name__, exc, proc.state))
        bad += 1
        continue
    if proc.state != ProcessState.FINISHED or proc.result() != {kw: 5}:
        print('Continue(f, %s=5): wrong outcome %s' % (kw, proc.state))
        bad += 1

print('violations:', bad)
sys.exit(1 if bad else 0)
