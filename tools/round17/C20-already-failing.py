# -*- coding: utf-8 -*-
"""Candidate violation on the UNCHANGED tree: the future of ``create_task`` never ends when the task that is to run the
coroutine is cancelled before its first step (e.g. all pending tasks cancelled at loop shutdown right after a message
came in).  The ``CancelledError`` is thrown into ``run_task`` at its very first line, i.e. outside the ``try`` that
reports cancellations, so the future (and the kiwi future mirroring it) stays pending forever.
Exits 1 if the future is left pending, 0 otherwise."""

import asyncio
import sys

from plumpy import futures


async def main() -> int:
    loop = asyncio.get_running_loop()
    started = []

    async def handler():
        started.append(True)
        return 'value'

    me = asyncio.current_task()
    future = futures.create_task(handler, loop)
    await asyncio.sleep(0)  # the threadsafe scheduling creates the task now, it has not run yet
    for task in asyncio.all_tasks(loop):
        if task is not me:
            task.cancel()
    await asyncio.sleep(0.1)
    print(f'coroutine started: {bool(started)}; future done: {future.done()}; cancelled: {future.cancelled()}')
    if not future.done():
        print('VIOLATION: the future of create_task is left pending forever')
        return 1
    return 0


if __name__ == '__main__':
    sys.exit(asyncio.run(main()))
