"""Unchanged tree: an awaited future that FAILS with an exception object of type plumpy.process_states.KillInterruption
(or PauseInterruption) does not make the workchain end EXCEPTED with that error: Process.step() takes the exception coming
out of the wait for an interruption request and kills (pauses) the workchain instead."""
import asyncio, sys
import plumpy
from plumpy import process_states

ran = []

class Wc(plumpy.WorkChain):
    @classmethod
    def define(cls, spec):
        super().define(spec)
        spec.outline(cls.s1, cls.s2)

    def s1(self):
        self.fut = plumpy.Future()
        self.to_context(r=self.fut)
        self.loop.call_soon(self.fut.set_exception, process_states.KillInterruption('boom'))

    def s2(self):
        ran.append('s2')

async def main():
    wc = Wc()
    await asyncio.wait_for(wc.step_until_terminated(), 5)
    return wc

wc = asyncio.new_event_loop().run_until_complete(main())
print('state', wc.state, 'ran', ran)
if wc.state != plumpy.ProcessState.EXCEPTED or ran:
    print('VIOLATION: expected EXCEPTED with the KillInterruption as error')
    sys.exit(1)
