"""Unchanged tree: a chain recreated from a checkpoint calls a DIFFERENT step function than the one written in the
outline, because `_FunctionStepper.load_instance_state` looks the step up by `__name__` on the class of the work chain.
Exits 1 when the violation shows."""
import sys
import plumpy
from plumpy import WorkChain

calls = []


class Base(WorkChain):
    @classmethod
    def define(cls, spec):
        super().define(spec)
        spec.outline(Base.first, Base.second)  # the outline names Base's functions explicitly

    def first(self):
        calls.append('Base.first')

    def second(self):
        calls.append('Base.second')
        return 1


class Sub(Base):
    def first(self):
        calls.append('Sub.first')
        return 99


Sub().execute()
direct = list(calls)
del calls[:]

bundle = plumpy.Bundle(Sub())  # checkpoint before anything ran
wc = bundle.unbundle()
wc.execute()
loaded = list(calls)
print('direct :', direct)
print('loaded :', loaded, 'result', wc.result())
if direct != loaded:
    print('VIOLATION: same outline, same history, different step functions called after a checkpoint load')
    sys.exit(1)
