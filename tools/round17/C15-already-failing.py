"""Unchanged tree: the `default` of an exposed namespace (top level and nested) is shared with the source, not copied.

absorb() takes the namespace properties over with setattr(self, attr, getattr(source, attr)) and copies a nested
namespace with copy.copy(): a mutable default (a dict, the natural default of a namespace) is the SAME object in both
specs, so a later change made through one spec shows through to the other (leaf ports, in contrast, are deep-copied).
Exits 1 when the sharing is observed.
"""
import sys

from plumpy import Process


class Sub(Process):
    @classmethod
    def define(cls, spec):
        super().define(spec)
        spec.input_namespace('ns', default={'x': 1}, required=False)
        spec.input('ns.x', valid_type=int)
        spec.inputs.default = {'k': 1}


class Parent(Process):
    @classmethod
    def define(cls, spec):
        super().define(spec)
        spec.expose_inputs(Sub, namespace='sub')


dst = Parent.spec().inputs['sub']
src = Sub.spec().inputs
# later change on the source side
src['ns'].default['x'] = 99
src.default['k'] = 99
problems = []
if dst['ns'].default != {'x': 1}:
    problems.append(f"nested namespace default of the copy now {dst['ns'].default!r} (shared: {dst['ns'].default is src['ns'].default})")
if dst.default != {'k': 1}:
    problems.append(f'target namespace default of the copy now {dst.default!r} (shared: {dst.default is src.default})')
if problems:
    print('C15 independence violated on this tree:')
    for p in problems:
        print('  -', p)
    sys.exit(1)
print('ok')
