"""Unchanged tree: PicklePersister names files '<pid>.<tag>.pickle' / '<pid>.pickle', so (pid='job.v2', tag=None) and
(pid='job', tag='v2') are the same file: a continue task for a checkpoint that was never persisted resumes another
process's checkpoint instead of failing (InMemoryPersister raises KeyError for the same history)."""
import asyncio
import sys
import tempfile

import plumpy
from plumpy import process_comms


class Echo(plumpy.Process):
    @classmethod
    def define(cls, spec):
        super().define(spec)
        spec.outputs.dynamic = True

    def run(self):
        self.out('pid', self.pid)


async def main():
    with tempfile.TemporaryDirectory() as tmp:
        launcher = plumpy.ProcessLauncher(persister=plumpy.PicklePersister(tmp))
        await launcher(None, process_comms.create_create_body(Echo, init_kwargs={'pid': 'job.v2'}, persist=True))
        try:
            result = await launcher(None, process_comms.create_continue_body('job', tag='v2', nowait=False))
        except Exception as exc:
            print('OK: refused,', type(exc).__name__)
            return 0
        print('VIOLATION: continue(pid="job", tag="v2") ran the checkpoint of another process:', result)
        return 1


sys.exit(asyncio.run(main()))
