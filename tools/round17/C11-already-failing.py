"""UNCHANGED tree: the empty tuple `()` IS the `UNSPECIFIED` marker (CPython has one empty tuple object), so an explicit
`()` given for an optional port of a declared type, or for a declared namespace, passes validation as "not supplied"
and lands in `inputs` as it is: a value not of the declared type / a namespace level that is not a read-only mapping."""
import sys
import plumpy


class Proc(plumpy.Process):
    @classmethod
    def define(cls, spec):
        super().define(spec)
        spec.input('n', valid_type=int, required=False)
        spec.input_namespace('ns', required=False)
        spec.input('ns.a', valid_type=int, required=False)

    async def run(self):
        return None


bad = []
for inputs in ({'n': ()}, {'n': tuple([])}, {'ns': ()}):
    try:
        proc = Proc(inputs=inputs)
    except (ValueError, TypeError):
        continue
    bad.append(f'inputs {inputs!r} accepted; process.inputs = {dict(proc.inputs)!r}')
if bad:
    print('VIOLATION on the unchanged tree:')
    for line in bad:
        print('  ', line)
    sys.exit(1)
print('ok')
