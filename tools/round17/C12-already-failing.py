"""Unchanged tree: candidates where out() stores a value the declared port does not accept. Exit 1 if any shows."""
import sys

import plumpy


def needs_key(value, port):
    return None if value['k'] > 0 else 'k must be positive'   # raises KeyError for a dict without 'k'


class P(plumpy.Process):
    @classmethod
    def define(cls, spec):
        super().define(spec)
        spec.outputs.dynamic = True
        spec.output('typed', valid_type=int, required=False)
        spec.output('checked', validator=needs_key, required=False)

    def run(self):
        self.report = []
        # 1. UNSPECIFIED is the empty tuple, a singleton in CPython: `()` skips the type check of an optional port
        try:
            self.out('typed', ())
            self.report.append(f"out('typed', ()) accepted on a valid_type=int port; outputs={self.outputs}")
        except ValueError:
            pass
        # 2. `except KeyError` in out() also catches a KeyError coming out of the validator: the declared port is then
        #    treated as an undeclared dynamic port and the value stored without validation
        try:
            self.out('checked', {})
            self.report.append(f"out('checked', {{}}) stored although the validator never accepted it; outputs={self.outputs}")
        except (ValueError, KeyError):
            pass


proc = P()
try:
    proc.execute()
except Exception as exc:  # the finish-time validation runs the validator again
    proc.report.append(f'execute() raised {exc!r}; state {proc.state}')
for line in proc.report:
    print(' -', line)
sys.exit(1 if proc.report else 0)
