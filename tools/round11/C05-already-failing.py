# -*- coding: utf-8 -*-
"""Candidate violation of C05 on the UNCHANGED tree (arguable: the request comes from one of the process's own hooks).

Statement: "play() always leaves the process un-paused and cancels a pause that has not yet taken effect".

``on_pausing`` is the hook announcing that the process *is being* paused: at that point ``proc.paused`` is still False, the
pause has not taken effect.  A play() issued there (a process vetoing its pause, or a re-entrant controller) is answered
True, but the pause is carried out all the same: ``_do_pause`` goes on to ``on_paused`` without looking whether it was
played in between (it only looks after the state transition, not after ``on_pausing``).  Both the immediate pause of a
process that is not being stepped and the deferred pause of one that is blocked in a wait behave like this.

Exits 1 (printing what happened) if the process ends up paused, 0 otherwise.
"""
import asyncio
import sys

import plumpy
from plumpy import ProcessState


class Veto(plumpy.Process):
    veto = True

    async def run(self):
        return plumpy.Wait(self.last)

    def last(self, *_args):
        return 'done'

    def on_pausing(self, msg=None):
        super().on_pausing(msg)
        if self.veto:
            assert not self.paused  # the pause has not taken effect yet
            self.play_result = self.play()


problems = []


async def main():
    # 1. immediate pause of a process that is not being stepped
    proc = Veto()
    proc.pause('immediate')
    if proc.paused:
        problems.append(f'immediate pause: play() in on_pausing returned {proc.play_result} but the process is paused')

    # 2. deferred pause of a process blocked in a wait
    proc = Veto()
    task = asyncio.ensure_future(proc.step_until_terminated())
    for _ in range(10):
        await asyncio.sleep(0)
    assert proc.state == ProcessState.WAITING
    proc.pause('deferred')
    for _ in range(10):
        await asyncio.sleep(0)
    if proc.paused:
        problems.append(f'deferred pause: play() in on_pausing returned {proc.play_result} but the process is paused')
    proc.veto = False
    proc.play()
    proc.resume()
    await asyncio.wait_for(task, 2)


asyncio.get_event_loop().run_until_complete(main())
if problems:
    print('C05 (literal reading) violated on this tree:')
    for problem in problems:
        print('  -', problem)
    sys.exit(1)
print('OK')
