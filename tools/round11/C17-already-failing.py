"""Histories for which the UNCHANGED tree already violates C17 (exits 1 and says what it saw when they reproduce).

1. PicklePersister: the file name of a checkpoint is '<pid>.pickle' or '<pid>.<tag>.pickle', so the untagged checkpoint of
   the process with pid '1.2' and the checkpoint tagged '2' of the process with pid 1 are one and the same file.  A continue
   task for pid '1.2' then resumes ANOTHER process's checkpoint (not "exactly the persisted checkpoint of the requested
   tag").  (The same goes for pid 1 and pid '1'.)

2. The loader configured on the launcher is not the one used for the state object nested in a process checkpoint:
   ``Process.recreate_state`` builds a new ``LoadSaveContext(process=self)`` without the loader of the context it was given,
   so ``_ensure_object_loader`` falls back to INSTANTIATING the loader class named in the checkpoint (``LoaderClass()``)
   or to the default loader.  With a loader that needs constructor arguments (or carries state) a continue task fails /
   goes through another loader object than the configured one.
"""

import asyncio
import sys
import tempfile

import plumpy
from plumpy import process_comms


class A(plumpy.Process):
    @classmethod
    def define(cls, spec):
        super().define(spec)
        spec.outputs.dynamic = True

    def run(self):
        self.out('who', 'A')


class B(A):
    def run(self):
        self.out('who', 'B')


class PrefixLoader(plumpy.DefaultObjectLoader):
    """A loader that needs configuration: it cannot be rebuilt as ``PrefixLoader()``"""

    def __init__(self, prefix):
        self.prefix = prefix

    def load_object(self, identifier):
        if identifier.startswith(self.prefix):
            identifier = identifier[len(self.prefix):]
        return super().load_object(identifier)

    def identify_object(self, obj):
        return self.prefix + super().identify_object(obj)


async def main():
    problems = []

    # 1. file name collision in the pickle persister
    persister = plumpy.PicklePersister(tempfile.mkdtemp())
    launcher = plumpy.ProcessLauncher(persister=persister)
    await launcher(None, process_comms.create_create_body(B, init_kwargs={'pid': '1.2'}, persist=True))
    persister.save_checkpoint(A(pid=1), tag='2')  # another process, tagged checkpoint
    reply = await launcher(None, process_comms.create_continue_body('1.2'))
    if reply != {'who': 'B'}:
        problems.append(f"continue of pid '1.2' (untagged) ran the checkpoint of pid 1 tagged '2': reply {reply!r}")

    # 2. configured loader instance not used for the nested state
    loader = PrefixLoader('reg!')
    persister = plumpy.InMemoryPersister(loader=loader)
    launcher = plumpy.ProcessLauncher(persister=persister, loader=loader)
    pid = await launcher(None, process_comms.create_create_body(B, persist=True, loader=loader))
    try:
        reply = await launcher(None, process_comms.create_continue_body(pid))
        if reply != {'who': 'B'}:
            problems.append(f'continue with the configured loader: unexpected reply {reply!r}')
    except Exception as exc:
        problems.append(
            f'continue with a configured loader instance failed, the launcher tried to build another loader: '
            f'{type(exc).__name__}: {exc}'
        )

    return problems


if __name__ == '__main__':
    found = asyncio.run(main())
    for problem in found:
        print('ALREADY FAILING:', problem)
    sys.exit(1 if found else 0)
