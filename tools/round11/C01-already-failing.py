"""Candidate violation of C01 on the UNCHANGED tree.

A process that announces its state changes through a kiwipy communicator which has been closed in the meantime
(``kiwipy.LocalCommunicator.close()``; the RabbitMQ communicator raises the same ``kiwipy.CommunicatorClosed`` from
``broadcast_send`` once it is closed) is killed.  ``Process.on_entered`` only tolerates ``ConnectionClosed``,
``ChannelInvalidStateError`` and ``kiwipy.TimeoutError`` from the broadcast; ``CommunicatorClosed`` escapes *after*
KILLED has been entered, the failed transition is routed to EXCEPTED and the process goes CREATED -> KILLED -> EXCEPTED.
No lifecycle hook of the process raises: the failure is that of the transport.

Exit status: 0 when the terminal state stays final, 1 when it was left again.
"""
import sys

import kiwipy
import plumpy
from plumpy import ProcessState


class Proc(plumpy.Process):
    def run(self):
        return 5


def main():
    communicator = kiwipy.LocalCommunicator()
    proc = Proc(communicator=communicator)

    entered = [proc.state]

    class Recorder(plumpy.ProcessListener):
        """Notified by on_killed / on_excepted / on_finished, i.e. once the state has been entered"""

        def on_process_killed(self, process, msg):
            entered.append(process.state)

        def on_process_excepted(self, process, reason):
            entered.append(process.state)

        def on_process_finished(self, process, outputs):
            entered.append(process.state)

    recorder = Recorder()
    proc.add_process_listener(recorder)

    communicator.close()  # the transport goes away while the process is alive

    try:
        outcome = proc.kill('bye')
    except Exception as exc:  # the failure of the second broadcast comes out of kill()
        outcome = f'raised {type(exc).__name__}'

    print('kill() ->', outcome)
    print('states entered:', [s.value for s in entered], 'final:', proc.state.value)

    terminal = (ProcessState.FINISHED, ProcessState.EXCEPTED, ProcessState.KILLED)
    for i, state in enumerate(entered[:-1]):
        if state in terminal:
            print(f'VIOLATION: terminal state {state.value} was left for {entered[i + 1].value}')
            return 1
    if entered[-1] != proc.state:
        print(f'VIOLATION: state changed from {entered[-1].value} to {proc.state.value} without notification')
        return 1
    return 0


if __name__ == '__main__':
    sys.exit(main())
