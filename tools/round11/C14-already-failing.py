# -*- coding: utf-8 -*-
"""C14 on the UNCHANGED tree: the two persisters are not equivalent for a process that excepted with an exception whose
class cannot be re-created from ``exception.args`` (a commonplace shape: ``__init__(self, code, detail)`` passing one
message on to ``Exception.__init__``).  The saved state of the process holds the exception object itself
(``SavableFuture.save_instance_state``: ``out_state['exception'] = self.exception()``):

  * InMemoryPersister.save_checkpoint deep-copies the state, which re-creates the exception at once: the save is refused
    (TypeError) and the store stays as it was;
  * PicklePersister.save_checkpoint pickles it without complaint; the file can never be unpickled.  From then on
    ``load_checkpoint`` of that key, but also ``get_checkpoints()``, ``get_process_checkpoints(other_pid)`` and
    ``delete_process_checkpoints(other_pid)`` -- for ANY process, they unpickle every file -- raise TypeError: listing no
    longer returns the keys stored, and the checkpoints of another process cannot be deleted.

Exits 1 when the violation is observed (as it is on the unchanged tree).
"""
import asyncio
import shutil
import sys
import tempfile

import plumpy


class Boom(Exception):
    def __init__(self, code, detail):
        super().__init__(f'{code}: {detail}')
        self.code = code


class Failing(plumpy.Process):
    def run(self):
        raise Boom(3, 'no luck')


class Fine(plumpy.Process):
    def run(self):
        return None


def attempt(fn, *args):
    try:
        return 'ok', fn(*args)
    except Exception as exception:  # noqa: BLE001
        return 'raised', f'{type(exception).__name__}: {exception}'


def main():
    loop = asyncio.new_event_loop()
    asyncio.set_event_loop(loop)
    failing, fine = Failing(pid=1), Fine(pid=2)
    try:
        failing.execute()
    except Boom:
        pass
    assert failing.state == plumpy.ProcessState.EXCEPTED

    directory = tempfile.mkdtemp()
    observed = {}
    try:
        for name, persister in (('in-memory', plumpy.InMemoryPersister()), ('pickle', plumpy.PicklePersister(directory))):
            persister.save_checkpoint(fine, 't')
            observed[name] = (
                attempt(persister.save_checkpoint, failing, 't')[0],
                attempt(lambda p=persister: sorted((c.pid, c.tag) for c in p.get_checkpoints())),
                attempt(persister.delete_process_checkpoints, 2)[0],
            )
            print(name, '-> save(1, t):', observed[name][0], '| list:', observed[name][1], '| delete_process(2):', observed[name][2])
    finally:
        shutil.rmtree(directory, ignore_errors=True)

    if observed['in-memory'] != observed['pickle'] or observed['pickle'][1][0] != 'ok':
        print('VIOLATION: the persisters differ / listing fails after a save that was accepted')
        return 1
    print('ok')
    return 0


if __name__ == '__main__':
    sys.exit(main())
