# -*- coding: utf-8 -*-
"""C10 on the UNCHANGED tree: two histories in which an awaited item fails, yet the workchain does not end EXCEPTED with
that error.  Exits 1 when a violation is observed (it is, on the unchanged tree), 0 otherwise.

1. An awaited child process that ends EXCEPTED because a hook that runs after its future was resolved fails (here
   ``on_finished``): ``Process.on_except`` puts a NEW future in place of the resolved one, the workchain keeps waiting on the
   old one (resolved with the outputs) and takes the child for successful: the following step runs.
2. An awaited future that fails with an exception of the ``Interruption`` family (``PauseInterruption``/``KillInterruption``):
   the failure raised out of the wait is taken by ``Process.step`` for a pause (or kill) request: the workchain pauses (and
   pauses again on every play) or ends KILLED instead of EXCEPTED with that error.
"""
import asyncio
import sys

from plumpy import Process, ProcessState, ToContext, WorkChain, process_states

problems = []


class LateFailingChild(Process):
    async def run(self):
        return None

    def on_finished(self):
        super().on_finished()
        raise RuntimeError('failure after the future was resolved')


class Wc1(WorkChain):
    ran = []

    @classmethod
    def define(cls, spec):
        super().define(spec)
        spec.outline(cls.first, cls.second)

    def first(self):
        self.child = self.launch(LateFailingChild)
        return ToContext(r=self.child)

    def second(self):
        self.ran.append('second')


def make_wc2(error):
    class Wc2(WorkChain):
        ran = []

        @classmethod
        def define(cls, spec):
            super().define(spec)
            spec.outline(cls.first, cls.second)

        def first(self):
            future = asyncio.Future()
            future.set_exception(error)
            return ToContext(r=future)

        def second(self):
            self.ran.append('second')

    return Wc2


async def main():
    wc = Wc1()
    await asyncio.wait_for(wc.step_until_terminated(), 5)
    if wc.child.state == ProcessState.EXCEPTED and (wc.state != ProcessState.EXCEPTED or 'second' in wc.ran):
        problems.append(
            f'1: awaited child ended {wc.child.state} ({wc.child.exception()!r}) but the workchain ended {wc.state}, '
            f'ran={wc.ran}, ctx.r={wc.ctx.r!r}'
        )

    for error in (process_states.PauseInterruption('not a pause request'), process_states.KillInterruption('not a kill')):
        wc = make_wc2(error)()
        try:
            await asyncio.wait_for(wc.step_until_terminated(), 1)
        except asyncio.TimeoutError:
            pass
        if wc.state != ProcessState.EXCEPTED or wc.exception() is not error:
            problems.append(
                f'2: awaited future failed with {error!r} but the workchain is {wc.state} (paused={wc.paused}), '
                f'exception={wc.exception()!r}'
            )


if __name__ == '__main__':
    loop = asyncio.new_event_loop()
    asyncio.set_event_loop(loop)
    loop.set_exception_handler(lambda _loop, _context: None)
    loop.run_until_complete(main())
    for problem in problems:
        print('VIOLATION', problem)
    sys.exit(1 if problems else 0)
