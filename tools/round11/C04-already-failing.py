# -*- coding: utf-8 -*-
"""Observations on the UNCHANGED tree (borderline for C04: the requests come from the process's own hooks / from
state-event callbacks, not from ProcessListener callbacks).  Exits 1 when either is reproduced.

1. kill() called from ``on_exit_running`` while the step is making its last transition (RUNNING -> FINISHED):
   the process has not terminated when kill() is called, kill() hands back a pending action, the process ends
   FINISHED and the action is cancelled: the kill is lost.
2. kill() called from a state-event callback (``add_state_event_callback``, ENTERING_STATE) while a kill() of a
   process that is not being stepped is under way raises AssertionError ("already transitioning").
"""
import asyncio
import sys

import plumpy
from plumpy.base.state_machine import StateEventHook


class KillOnTheWayOut(plumpy.Process):
    kill_result = None

    def run(self):
        return 5

    def on_exit_running(self):
        super().on_exit_running()
        self.kill_result = self.kill('from on_exit_running')


class Waits(plumpy.Process):
    async def run(self):
        return plumpy.Wait(self.done)

    def done(self):
        return None


def main():
    found = []

    proc = KillOnTheWayOut()
    try:
        proc.execute()
    except Exception as exc:  # KilledError would be the expected outcome
        print('execute() raised', type(exc).__name__, exc)
    result = proc.kill_result
    print('1. state:', proc.state, '| kill() returned:', result)
    if proc.state != plumpy.ProcessState.KILLED:
        found.append(f'kill() from on_exit_running during the last transition was lost: {proc.state}, {result}')

    async def second():
        other = Waits()
        raised = []

        def callback(_sm, _hook, _state):
            try:
                other.kill('nested')
            except BaseException as exc:
                raised.append(exc)

        other.add_state_event_callback(StateEventHook.ENTERING_STATE, callback)
        outer = other.kill('outer')
        print('2. outer kill ->', outer, other.state, '| nested kill raised:', [repr(exc) for exc in raised])
        if raised:
            found.append(f'nested kill() raised {raised[0]!r}')

    asyncio.run(second())

    for line in found:
        print('OBSERVED:', line)
    return 1 if found else 0


if __name__ == '__main__':
    sys.exit(main())
