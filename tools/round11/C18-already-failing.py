# -*- coding: utf-8 -*-
"""Candidates for C18 on the UNCHANGED tree: overridable methods of a process that the library calls outside any
process scope, so that ``Process.current()`` is not the process while they run.

 1. ``callback_excepted``: called by ``ProcessCallback.run`` when a callback scheduled with ``call_soon`` raises, after
    ``_run_task`` (and with it the scope) has been left (when the process scheduled the callback itself, from inside its
    own scope, the task inherits a stack that ends in the process, which hides this: here other code schedules it)
 2. ``init``: called by the metaclass after the initial transition (and by ``recreate_from``), outside the scope
 3. ``get_status_info``: called by ``message_receive`` for a STATUS request

Whether these count as "hooks" in the sense of the property is debatable (1. is the clearest: it is the failure hook of a
scheduled callback).  Exits 1 if any of them observes a wrong ``Process.current()``.
"""

import asyncio
import sys

import plumpy
from plumpy import Process, process_comms

problems = []


def check(where, expected):
    current = Process.current()
    if current is not expected:
        problems.append(f'{where}: Process.current() is {current!r}, expected {expected!r}')


class Proc(plumpy.Process):
    def init(self):
        super().init()
        check('init', self)

    async def run(self):
        await asyncio.sleep(0.01)

    def broken(self):
        check('scheduled callback', self)
        raise RuntimeError('broken callback')

    def callback_excepted(self, callback, exception, trace):
        check('callback_excepted', self)
        super().callback_excepted(callback, exception, trace)

    def get_status_info(self, out_status_info):
        check('get_status_info', self)
        super().get_status_info(out_status_info)


class Outer(plumpy.Process):
    """The same, with another process being the current one"""

    def run(self):
        inner = Proc()
        inner.message_receive(None, {process_comms.INTENT_KEY: process_comms.Intent.STATUS})
        inner.call_soon(inner.broken)  # (scheduled by other code than the process itself)
        try:
            inner.execute()
        except RuntimeError:
            pass


if __name__ == '__main__':
    plumpy.set_event_loop_policy()
    proc = Proc()
    proc.message_receive(None, {process_comms.INTENT_KEY: process_comms.Intent.STATUS})
    proc.call_soon(proc.broken)  # (scheduled by other code than the process itself)
    try:
        proc.execute()
    except RuntimeError:
        pass
    assert proc.state == plumpy.ProcessState.EXCEPTED, proc.state
    Outer().execute()

    if problems:
        print('Process.current() was not the process in:')
        for problem in problems:
            print('  -', problem)
        sys.exit(1)
    print('OK')
