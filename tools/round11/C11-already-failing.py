"""UNCHANGED tree: the "not specified" marker ``plumpy.ports.UNSPECIFIED`` is the empty tuple ``()``, which CPython
interns, so an empty tuple GIVEN as an input value *is* the marker (``value is UNSPECIFIED``).  An optional port declared
with ``valid_type=int`` therefore accepts ``()`` (the type check and the validator are skipped) and a declared namespace
accepts ``()`` in place of a mapping; the process is created and ``inputs`` holds a value that is not of the declared type
/ a declared namespace level that is not a read-only mapping.

Run: PYTHONPATH=<tree>/src /venv/bin/python already-failing.py   (exits 1 on the unchanged tree)
"""
import sys
from collections.abc import Mapping

import plumpy


class P(plumpy.Process):
    @classmethod
    def define(cls, spec):
        super().define(spec)
        spec.input('x', valid_type=int, required=False, validator=lambda value, port: 'never acceptable')
        spec.input_namespace('ns', required=False)
        spec.input('ns.y', valid_type=int, required=False)

    def run(self):
        pass


failures = []
try:
    p = P(inputs={'x': ()})
except (ValueError, TypeError):
    pass
else:
    failures.append(f"port x (valid_type=int, validator refusing everything) accepted (): inputs.x = {p.inputs['x']!r}")

try:
    p = P(inputs={'ns': ()})
except (ValueError, TypeError):
    pass
else:
    if not isinstance(p.inputs['ns'], Mapping):
        failures.append(f"namespace ns accepted () as its value: inputs.ns = {p.inputs['ns']!r}")

# for comparison: another empty non-mapping is refused
try:
    P(inputs={'ns': []})
except ValueError:
    pass
else:
    failures.append('namespace ns accepted []')

for failure in failures:
    print('VIOLATION:', failure)
sys.exit(1 if failures else 0)
