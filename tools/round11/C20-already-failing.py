# -*- coding: utf-8 -*-
"""UNCHANGED tree: the reply future of a scheduled control call is left pending forever when the control call itself ends
with an ``asyncio.CancelledError`` (e.g. an overridden ``kill`` that asks an already cancelled loop future for its
result).  ``asyncio.CancelledError`` is a ``BaseException``: neither the ``except Exception`` around the call nor
``kiwipy.capture_exceptions`` sees it, and the ``except asyncio.CancelledError`` of ``Process._schedule_rpc`` only wraps the
wait for a future handed back, not the call.  (``futures.create_task`` was hardened against exactly this, the control call
path was not.)  Expected by the property: the reply ends (cancelled), it does not stay pending.

Run as:  PYTHONPATH=<tree>/src /venv/bin/python already-failing.py    (exit 1 = violation observed)
"""

import asyncio
import sys

import kiwipy

import plumpy
from plumpy import communications, futures, process_comms


class Proc(plumpy.Process):
    def run(self):
        return plumpy.Wait(self.finish)

    def finish(self):
        return None

    def kill(self, msg_text=None):
        # waits on some resource that has been cancelled in the meantime
        cancelled = self.loop.create_future()
        cancelled.cancel()
        cancelled.result()  # raises asyncio.CancelledError
        return super().kill(msg_text)


async def main():
    loop = asyncio.get_running_loop()
    comm = communications.LoopCommunicator(kiwipy.LocalCommunicator(), loop)
    proc = Proc(communicator=comm, loop=loop)
    loop.create_task(proc.step_until_terminated())
    while proc.state != plumpy.ProcessState.WAITING:
        await asyncio.sleep(0.01)

    controller = process_comms.RemoteProcessThreadController(comm)
    reply = futures.unwrap_kiwi_future(controller.kill_process(str(proc.pid), 'bye'))
    for _ in range(200):
        if reply.done():
            break
        await asyncio.sleep(0.01)

    if not reply.done():
        print('VIOLATION: the reply to the kill request is still pending after 2s (it will never resolve)')
        return 1
    print('reply ended:', 'cancelled' if reply.cancelled() else reply.exception() or reply.result())
    return 0


if __name__ == '__main__':
    sys.exit(asyncio.run(main()))
