"""Histories for which the UNCHANGED tree already violates C09 (outline executed as the structured program it denotes).

1. A checkpoint taken from inside an ``elif_`` predicate (the process is being stepped; ``_IfStepper._pos`` is already
   advanced past the false predicates, ``_child_stepper`` is still None).  ``_IfStepper.step`` of the loaded process
   starts the scan over the predicates from the first one again but keeps counting from the saved ``_pos``: the body
   it enters is not the body of the predicate that was found true.

2. ``_FunctionStepper.load_instance_state`` resolves the step by NAME on the class of the workchain: after a load, the
   first step executed is the class attribute of that name, not the function written in the outline (here the outline
   of a subclass names the step of the base class, which the subclass overrides).

3. A checkpoint taken while the RUNNING state of a step is being left (``on_exit_running``): the stepper has advanced but
   the saved state is still the RUNNING state of the step that was just executed, whose outcome is not saved.  If that
   step returned a stop value the loaded process carries on with the next instruction instead of stopping.

4. A step that returns a plumpy command object (here ``plumpy.Continue``) does not stop the chain with that value as
   the result: ``Running.execute`` carries the command out.
"""
import asyncio
import sys

import plumpy
from plumpy import WorkChain, if_

TRACE = []
BUNDLES = {}


class InPredicate(WorkChain):
    @classmethod
    def define(cls, spec):
        super().define(spec)
        spec.outline(cls.s0, if_(cls.p1)(cls.a).elif_(cls.p2)(cls.b).elif_(cls.p3)(cls.c).else_(cls.d), cls.end)

    def s0(self):
        TRACE.append('s0')

    def p1(self):
        TRACE.append('p1')
        return False

    def p2(self):
        TRACE.append('p2')
        if 'p2' not in BUNDLES:
            BUNDLES['p2'] = plumpy.Bundle(self)
        return True

    def p3(self):
        TRACE.append('p3')
        return False

    def a(self):
        TRACE.append('a')

    def b(self):
        TRACE.append('b')

    def c(self):
        TRACE.append('c')

    def d(self):
        TRACE.append('d')

    def end(self):
        TRACE.append('end')


class Base(WorkChain):
    @classmethod
    def define(cls, spec):
        super().define(spec)
        spec.outline(cls.first, cls.second)

    def first(self):
        TRACE.append('Base.first')
        BUNDLES.setdefault('first', None)

    def second(self):
        TRACE.append('Base.second')


class Derived(Base):
    @classmethod
    def define(cls, spec):
        super().define(spec)
        # the outline names the functions of the base class explicitly
        spec.outline(Base.first, Base.second)

    def on_entered(self, from_state):
        super().on_entered(from_state)
        if self.state == plumpy.ProcessState.RUNNING and TRACE == ['Base.first'] and BUNDLES.get('second') is None:
            BUNDLES['second'] = plumpy.Bundle(self)

    def second(self):
        TRACE.append('Derived.second')


class StopMid(WorkChain):
    @classmethod
    def define(cls, spec):
        super().define(spec)
        spec.outline(cls.s1, cls.s2, cls.s3)

    def s1(self):
        TRACE.append('s1')

    def s2(self):
        TRACE.append('s2')
        return 5

    def s3(self):
        TRACE.append('s3')

    def on_exit_running(self):
        super().on_exit_running()
        if TRACE == ['s1', 's2'] and 'exit' not in BUNDLES:
            BUNDLES['exit'] = plumpy.Bundle(self)


class ReturnsCommand(WorkChain):
    @classmethod
    def define(cls, spec):
        super().define(spec)
        spec.outline(cls.s1, cls.s2)

    def s1(self):
        TRACE.append('s1')
        self.returned = plumpy.Continue(self._do_step)
        return self.returned

    def s2(self):
        TRACE.append('s2')


def main():
    bad = []

    # 1
    proc = InPredicate()
    proc.execute()
    live = list(TRACE)
    del TRACE[:]
    loaded = BUNDLES['p2'].unbundle()
    loaded.execute()
    resumed = list(TRACE)
    del TRACE[:]
    print('1. live run            :', live)
    print('1. resumed from inside p2:', resumed)
    if live != ['s0', 'p1', 'p2', 'b', 'end']:
        bad.append('live run of InPredicate wrong')
    if resumed != ['p1', 'p2', 'b', 'end']:
        bad.append(f'resumed run entered the wrong branch: {resumed}')

    # 2
    proc = Derived()
    proc.execute()
    live = list(TRACE)
    del TRACE[:]
    loaded = BUNDLES['second'].unbundle()
    loaded.execute()
    resumed = list(TRACE)
    print('2. live run   :', live)
    print('2. resumed run:', resumed)
    if live != ['Base.first', 'Base.second']:
        bad.append('live run of Derived wrong')
    if resumed != ['Base.second']:
        bad.append(f'resumed run called another function than the one written in the outline: {resumed}')

    del TRACE[:]

    # 3
    proc = StopMid()
    proc.execute()
    live, live_result = list(TRACE), proc.result()
    del TRACE[:]
    loaded = BUNDLES['exit'].unbundle()
    loaded.execute()
    resumed, resumed_result = list(TRACE), loaded.result()
    del TRACE[:]
    print('3. live run   :', live, live_result)
    print('3. resumed run:', resumed, resumed_result)
    if (live, live_result) != (['s1', 's2'], 5):
        bad.append('live run of StopMid wrong')
    if resumed or resumed_result != 5:
        bad.append(f'resumed after the stopping step: called {resumed}, result {resumed_result!r} (expected nothing, 5)')

    # 4
    proc = ReturnsCommand()
    proc.execute()
    print('4. run:', TRACE, repr(proc.result()))
    if TRACE != ['s1'] or proc.result() is not proc.returned:
        bad.append(f'step returning a command object: called {TRACE}, result {proc.result()!r}')

    for line in bad:
        print('VIOLATION:', line)
    return 1 if bad else 0


if __name__ == '__main__':
    sys.exit(main())
