# -*- coding: utf-8 -*-
"""Unchanged tree, borderline: the chain of `state_changed.<from>.<to>` announcements is broken when an `on_<entered>` hook
(here `on_running`, equally `on_waiting`) of the process raises.

`Process.on_entered` calls the hook BEFORE it broadcasts.  By then the state machine has already exited CREATED and set
`_state` to RUNNING; the failure turns into a transition RUNNING -> EXCEPTED, which IS announced -- with `running` as its
origin -- while `created -> running` never is.  A subscriber sees  None.created, running.excepted : a transition out of a
state the process was never announced to have entered (whether created->running counts as "completed" is debatable).

Run:  PYTHONPATH=<tree>/src /venv/bin/python already-failing.py   (exits 1 when the chain is broken)
"""
import asyncio
import sys

import kiwipy

import plumpy


class HookFails(plumpy.Process):
    def on_running(self):
        super().on_running()
        raise RuntimeError('hook failed')

    async def run(self):
        return 1


loop = asyncio.new_event_loop()
asyncio.set_event_loop(loop)
comm = kiwipy.LocalCommunicator()
subjects = []
comm.add_broadcast_subscriber(lambda _c, body, sender, subject, correlation_id: subjects.append(subject))
proc = HookFails(communicator=comm, loop=loop)
try:
    proc.execute()
except RuntimeError:
    pass
print('final state:', proc.state)
print('announced  :', subjects)
previous = None
broken = False
for subject in subjects:
    _, origin, target = subject.split('.')
    if origin != str(previous):
        print(f'chain broken: {subject!r} follows an announcement that ended in {previous!r}')
        broken = True
    previous = target
sys.exit(1 if broken else 0)
