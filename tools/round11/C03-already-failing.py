# -*- coding: utf-8 -*-
"""Histories for which the UNCHANGED tree already violates C03.  Run: PYTHONPATH=<tree>/src /venv/bin/python already-failing.py
(prints the violations found and exits 1 if there is any)

 1. A callback scheduled with ``call_soon`` cancels its own handle and then raises: ``ProcessCallback.cancel()`` drops the
    reference to the process, so ``ProcessCallback.run()`` dies with ``AttributeError: 'NoneType' object has no attribute
    'callback_excepted'`` -- that error escapes into the event loop ("Task exception was never retrieved") and the
    process is not failed.
 2. A hook (here ``on_run``) raises ``StopIteration`` (e.g. a bare ``next()`` on an exhausted iterator): ``on_except`` hands
    it to ``Future.set_exception`` which refuses it with ``TypeError``; that second error is raised out of ``step()`` and
    the process is left in CREATED, exited but never entered anywhere, future pending.
 3. A live process is closed with ``close()`` and then failed by a scheduled callback: ``close()`` dropped the state event
    hooks and ``fail()`` (unlike ``transition_failed``) does not reinstall them, so ``on_except`` never runs: the process is
    EXCEPTED but its future stays pending for ever.
"""

import asyncio
import sys

import plumpy
from plumpy import ProcessState, process_states


class WaitingProc(plumpy.Process):
    async def run(self):
        return process_states.Wait(self.carry_on)

    def carry_on(self):
        return 5


async def settle(n=5):
    for _ in range(n):
        await asyncio.sleep(0)


async def case_1():
    problems = []
    escaped = []
    asyncio.get_event_loop().set_exception_handler(lambda _l, ctx: escaped.append(ctx.get('exception')))
    boom = RuntimeError('boom')

    class Proc(WaitingProc):
        def callback(self):
            self.handle.cancel()
            raise boom

    proc = Proc()
    stepping = asyncio.ensure_future(proc.step_until_terminated())
    await settle()
    proc.handle = proc.call_soon(proc.callback)
    await settle()
    import gc

    gc.collect()
    await settle()
    if escaped:
        problems.append(f'escaped into the event loop: {escaped!r}')
    if proc.state != ProcessState.EXCEPTED or proc.exception() is not boom:
        problems.append(f'process is {proc.state} (exception {proc.exception()!r}), not EXCEPTED with the callback exception')
    if not proc.has_terminated():
        proc.resume()
    await asyncio.wait_for(stepping, 2)
    return problems


async def case_2():
    problems = []

    class Proc(plumpy.Process):
        def on_run(self):
            super().on_run()
            next(iter([]))

        async def run(self):
            return 5

    proc = Proc()
    try:
        await asyncio.wait_for(proc.step_until_terminated(), 2)
    except BaseException as exception:  # noqa: BLE001
        problems.append(f'step_until_terminated() raised {exception!r}')
    if proc.state != ProcessState.EXCEPTED or not isinstance(proc.exception(), StopIteration):
        problems.append(f'process is {proc.state} (exception {proc.exception()!r}), future {proc.future()!r}')
    return problems


async def case_3():
    problems = []
    boom = RuntimeError('boom')

    class Proc(WaitingProc):
        def callback(self):
            raise boom

    proc = Proc()
    stepping = asyncio.ensure_future(proc.step_until_terminated())
    await settle()
    proc.close()
    proc.call_soon(proc.callback)
    await settle()
    await asyncio.wait_for(stepping, 2)
    if proc.state != ProcessState.EXCEPTED or proc.exception() is not boom:
        problems.append(f'process is {proc.state} (exception {proc.exception()!r})')
    future = proc.future()
    if not future.done() or future.cancelled() or future.exception() is not boom:
        problems.append(f'the process is {proc.state} but its future does not raise the exception: {future!r}')
    return problems


def main():
    failures = 0
    for case in (case_1, case_2, case_3):
        problems = asyncio.get_event_loop().run_until_complete(case())
        if problems:
            failures += 1
            print(f'[{case.__name__}] VIOLATION on the unchanged tree:')
            for problem in problems:
                print('   -', problem)
        else:
            print(f'[{case.__name__}] ok')
    return 1 if failures else 0


if __name__ == '__main__':
    sys.exit(main())
