# -*- coding: utf-8 -*-
"""C15: inputs for which the UNCHANGED tree already departs from the property statement.

Run as: PYTHONPATH=<tree>/src /venv/bin/python already-failing.py   (exits 1 and prints each finding that reproduces)
"""

import sys

from plumpy.ports import PortNamespace
from plumpy.process_spec import ProcessSpec

found = []


def report(title, detail):
    found.append(title)
    print(f'[{len(found)}] {title}\n      {detail}')


# 1. (clearest) `dynamic` is applied before `valid_type` (absorb walks the properties in the order of dir()), and the
#    valid_type setter forces dynamic=True. So the `dynamic` of the source, or a `dynamic` override, is lost whenever
#    the valid type that ends up on the namespace is not None.
source = ProcessSpec()
source.input('x', required=False)
source.inputs.valid_type = int
source.inputs.dynamic = False  # public setter; the source now is (valid_type=int, dynamic=False)
destination = ProcessSpec()
destination._expose_ports(None, source.inputs, destination.inputs, destination._exposed_inputs, 'sub', None, None, None)
if destination.inputs['sub'].dynamic != source.inputs.dynamic:
    report(
        'the exposed namespace does not have the `dynamic` of the source when the source has a valid type',
        f'source dynamic={source.inputs.dynamic}, exposed dynamic={destination.inputs["sub"].dynamic}; '
        f'validate({{"extra": 1}}): source -> {source.inputs.validate({"extra": 1})!s:.60}, '
        f'exposed -> {destination.inputs["sub"].validate({"extra": 1})}',
    )

source = ProcessSpec()
source.inputs.valid_type = int  # (valid_type=int, dynamic=True)
destination = ProcessSpec()
destination._expose_ports(
    None, source.inputs, destination.inputs, destination._exposed_inputs, 'sub', None, None, {'dynamic': False}
)
if destination.inputs['sub'].dynamic is not False:
    report(
        'the namespace option dynamic=False is silently ignored when the source namespace has a valid type',
        f'namespace_options={{"dynamic": False}} -> exposed dynamic={destination.inputs["sub"].dynamic}',
    )

# the same one level down (the nested copy is re-absorbed, which re-applies the setters in the same order)
source = ProcessSpec()
source.input_namespace('ns', valid_type=int)
source.inputs['ns'].dynamic = False
destination = ProcessSpec()
destination._expose_ports(None, source.inputs, destination.inputs, destination._exposed_inputs, None, None, None, None)
if destination.inputs['ns'].dynamic != source.inputs['ns'].dynamic:
    report(
        'same for a nested namespace of the source',
        f'source ns.dynamic={source.inputs["ns"].dynamic}, exposed ns.dynamic={destination.inputs["ns"].dynamic}',
    )

# 2. (borderline) the default of a namespace is taken over by reference: a later in-place change shows through
source = ProcessSpec()
source.input_namespace('ns', default={'k': 1}, dynamic=True)
source.inputs.default = {'top': 1}
destination = ProcessSpec()
destination._expose_ports(None, source.inputs, destination.inputs, destination._exposed_inputs, 'sub', None, None, None)
source.inputs['ns'].default['later'] = 2
source.inputs.default['later'] = 2
if 'later' in destination.inputs['sub']['ns'].default or 'later' in destination.inputs['sub'].default:
    report(
        'the (mutable) default of an exposed namespace is shared with the source (leaf ports are deep-copied)',
        f'exposed sub.default={destination.inputs["sub"].default}, sub.ns.default={destination.inputs["sub"]["ns"].default}',
    )

# 3. (borderline) an empty include rule set selects nothing, yet everything is exposed
source = ProcessSpec()
source.input('a')
source.input('ns.b')
destination = ProcessSpec()
destination._expose_ports(None, source.inputs, destination.inputs, destination._exposed_inputs, 'sub', None, (), None)
if len(destination.inputs['sub']):
    report(
        'include=() exposes every port instead of none',
        f'exposed with include=(): {sorted(destination.inputs["sub"].keys())}',
    )

# 4. (borderline) a nested namespace of the destination with the name of an exposed one is replaced wholesale, so a port
#    of the destination that was not selected by anything (ns.own) does not stay in place
source = ProcessSpec()
source.input('ns.x')
destination = ProcessSpec()
destination.input('ns.own')
destination._expose_ports(None, source.inputs, destination.inputs, destination._exposed_inputs, None, None, None, None)
if 'own' not in destination.inputs['ns']:
    report(
        "a port of the destination inside a namespace that the source also has is dropped ('ns.own')",
        f'destination ns after the exposure: {sorted(destination.inputs["ns"].keys())}',
    )

assert isinstance(destination.inputs, PortNamespace)
sys.exit(1 if found else 0)
