"""Shapes for which the UNCHANGED tree already violates C19 (each prints what it finds; exit 1 if any is violated).

Run as:  PYTHONPATH=<tree>/src /venv/bin/python already-failing.py
"""
import asyncio
import sys

import plumpy
from plumpy import Savable, SavableFuture, auto_persist

found = []


# 1. Two bases that each declare members: the decorator (and Savable.auto_persist) start from ``cls._auto_persist``, which
#    the MRO resolves to the FIRST base that has one; what the second base declares is neither saved nor restored.
@auto_persist('a')
class A(Savable):
    pass


@auto_persist('b')
class B(Savable):
    pass


@auto_persist('c')
class C(A, B):
    def __init__(self):
        self.a, self.b, self.c = 1, 2, 3


state = C().save()
loaded = Savable.load(state)
if 'b' not in state or getattr(loaded, 'b', None) != 2:
    found.append(f"1. class C(A, B): member 'b' declared by the second base is lost: saved {sorted(k for k in state if k != '!!meta')}, "
                 f'C._auto_persist={sorted(C._auto_persist)}')


# 2. A subclass of SavableFuture that declares a member of its own: it is saved, but SavableFuture.recreate_from builds the
#    future by hand and never loads the declared members.
@auto_persist('extra')
class TaggedFuture(SavableFuture):
    pass


loop = asyncio.new_event_loop()
asyncio.set_event_loop(loop)
fut = TaggedFuture(loop=loop)
fut.extra = ['tag']
fut.set_result(5)
state = fut.save()
loaded = Savable.load(state, plumpy.LoadSaveContext(loop=loop))
if getattr(loaded, 'extra', None) != ['tag']:
    found.append(f"2. TaggedFuture(SavableFuture): member 'extra' is in the saved state ({state.get('extra')!r}) but not restored: "
                 f"{getattr(loaded, 'extra', '<<missing>>')!r}")


# 3. A bound method whose function name is not the attribute it is reachable under (a name-mangled private method; the
#    same goes for a lambda or an undecorated wrapper in the class body): saved as ``__name__``, cannot be rebound.
@auto_persist('cb')
class M(Savable):
    def __init__(self):
        self.cb = self.__private

    def __private(self):
        return 1


state = M().save()
try:
    loaded = Savable.load(state)
    assert loaded.cb() == 1 and loaded.cb.__self__ is loaded
except Exception as exception:  # noqa: BLE001
    found.append(f"3. bound method member saved as {state['cb']!r} cannot be rebound: {type(exception).__name__}: {exception}")

for line in found:
    print(line)
print(f'{len(found)} violation(s) on this tree')
sys.exit(1 if found else 0)
