"""Histories / inputs for which the UNCHANGED tree already violates the C12 statement.

Run as: PYTHONPATH=<tree>/src /venv/bin/python already-failing.py   (exits 1 if at least one violation shows)
"""
import asyncio
import sys

import plumpy
from plumpy import Process

found = []


def report(tag, text):
    found.append(tag)
    print(f'[{tag}] VIOLATION: {text}')


def exclusive(values, _port):
    if 'x' in values and 'y' in values:
        return "'x' and 'y' are mutually exclusive"


# 1. An output emitted after the verdict (from on_finished, an on_process_finished listener, a cleanup, or on a process
#    loaded in a terminal state, which is never closed) is stored, but the verdict is not revisited:
#    the process is reported successful with outputs that the spec refuses.
class LateEmitter(Process):
    @classmethod
    def define(cls, spec):
        super().define(spec)
        spec.output('x', required=False)
        spec.output('y', required=False)
        spec.outputs.validator = exclusive

    def run(self):
        self.out('x', 1)

    def on_finished(self):
        super().on_finished()
        self.out('y', 2)


proc = LateEmitter()
proc.execute()
error = LateEmitter.spec().outputs.validate(proc.outputs)
if proc.is_successful and error is not None:
    report('late-emission', f'successful={proc.is_successful} with outputs {proc.outputs}: {error.message}')


# 2. ``out`` tells a declared port from an undeclared one with ``except KeyError`` around the lookup AND the validation:
#    a KeyError raised by the validator of a declared port is taken for "no such port", the value is then checked against
#    the dynamic namespace only and stored (and announced as dynamic), although the port's validator never accepted it.
def needs_energy(value, _port):
    if value['energy'] > 0:  # KeyError for a mapping without the key
        return 'the energy must not be positive'


class KeyErrorValidator(Process):
    @classmethod
    def define(cls, spec):
        super().define(spec)
        spec.output('res', validator=needs_energy, required=False)
        spec.outputs.dynamic = True

    def run(self):
        try:
            self.out('res', {'forces': 1})
        except Exception as exception:  # what should happen: the emission raises and nothing is stored
            print('   (emission raised', type(exception).__name__, ')')


proc = KeyErrorValidator()
try:
    proc.execute()
except KeyError:
    pass
if 'res' in proc.outputs:
    report('keyerror-validator', f"out('res', ...) stored {proc.outputs} although the validator of 'res' did not accept it "
           f'(the process then ends {proc.state})')


# 3. A REJECTED nested emission still creates the namespace on the fly in the (class wide, sealed) spec: afterwards a
#    value that the declared spec accepts for that name is refused, for this and every later process of the class.
class RejectedNested(Process):
    @classmethod
    def define(cls, spec):
        super().define(spec)
        spec.outputs.dynamic = True
        spec.outputs.valid_type = int

    def emit(self, first):  # (called on a process that has been created but is not being stepped)
        if first:
            try:
                self.out('a.b', 'not an int')
            except ValueError:
                pass
        self.out('a', 5)


fresh = RejectedNested()
try:
    fresh.emit(first=True)
except ValueError as exception:
    report('rejected-nested', f"after the rejected out('a.b', 'not an int'), out('a', 5) is refused: {exception}; "
           f'outputs {fresh.outputs}')
other = RejectedNested()
try:
    other.emit(first=False)
except ValueError as exception:
    report('rejected-nested-other-process', f"another process of the class: out('a', 5) refused: {exception}")


# 4. Re-entrancy: a listener answers out('x', 1) with out('x', 2) from within on_output_emitted.  The listeners that are
#    notified after it get (x, 2) first and the stale (x, 1) last: what they report is not what is stored.
class Recorder(plumpy.ProcessListener):
    def __init__(self, react=False):
        super().__init__()
        self.react, self.last = react, {}

    def on_output_emitted(self, process, port, value, dynamic):
        self.last[port] = value
        if self.react and value == 1:
            process.out(port, 2)


class Plain(Process):
    @classmethod
    def define(cls, spec):
        super().define(spec)
        spec.outputs.dynamic = True

    def run(self):
        self.out('x', 1)


for _ in range(30):  # (the listeners are kept in a set: the order of notification varies)
    proc = Plain()
    listeners = [Recorder(react=(index == 0)) for index in range(6)]
    for listener in listeners:
        proc.add_process_listener(listener)
    proc.execute()
    stale = [listener.last for listener in listeners if listener.last != proc.outputs]
    if stale:
        report('reentrant-same-port', f'stored {proc.outputs}, but {len(stale)} listener(s) were last told {stale[0]}')
        break


# 5. With missing / invalid outputs the refused entry of FINISHED makes the state machine exit RUNNING twice: an exit
#    hook that cannot run twice turns "FINISHED, unsuccessful, result preserved" into EXCEPTED.
class ReleasesOnExit(Process):
    @classmethod
    def define(cls, spec):
        super().define(spec)
        spec.output('x')

    def on_run(self):
        super().on_run()
        self._lock = ['held']

    def on_exit_running(self):
        super().on_exit_running()
        self._lock.pop()  # released once

    def run(self):
        return 7


proc = ReleasesOnExit()
try:
    proc.execute()
except Exception:
    pass
if proc.state != plumpy.ProcessState.FINISHED:
    report('exit-hooks-twice', f'a normal return with a missing output ended {proc.state} ({proc.exception()!r}) '
           'instead of FINISHED/unsuccessful: on_exit_running was run twice')

print('violations found on this tree:', found)
sys.exit(1 if found else 0)
