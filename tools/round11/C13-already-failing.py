# -*- coding: utf-8 -*-
"""Histories / inputs for which the UNCHANGED tree already violates the C13 statement.
Run as: PYTHONPATH=<tree>/src /venv/bin/python already-failing.py   (exits 1 and lists what it saw)

1. Continue(f, **k) with a keyword that happens to be called ``process``, ``run_fn`` or ``state_label``: the keywords travel
   through State.create_state(state_label, *args, **kwargs) and Running.__init__(process, run_fn, *args, **kwargs) by
   ``**`` and collide with those parameters -> TypeError, the process EXCEPTS instead of running f(**k).
   ("for every choice of positional/keyword arguments")
2. Continue(self.__private_step, ...) (a name-mangled method) works live, but a checkpoint stores ``run_fn.__name__``
   ('__private_step') and the restore does getattr(process, '__private_step') -> AttributeError: the restored process
   cannot be loaded at all.  (Same for Wait(self.__private_step).)
3. (arguable) A wait that has been resumed with a value but whose continuation has not run yet (the process is paused, or
   not being stepped) is checkpointed as a plain WAITING state: the value lives only in the wait future, the restored
   process waits for ever and f(v) never runs.
"""

import asyncio
import sys

import plumpy
from plumpy import process_states as ps

problems = []

# --- 1 -------------------------------------------------------------------------------------------------------------
SEEN = []


class KwProc(plumpy.Process):
    KW = {}

    def run(self):
        return ps.Continue(self.nxt, 1, **self.KW)

    def nxt(self, *args, **kwargs):
        SEEN.append((args, kwargs))
        return 'done'


for kw in ({'x': 2}, {'process': 5}, {'run_fn': 5}, {'state_label': 5}):
    SEEN.clear()
    KwProc.KW = kw
    proc = KwProc()
    try:
        proc.execute()
    except BaseException as exc:  # noqa
        problems.append(f'1. Continue(f, 1, **{kw}) -> {proc.state}: {type(exc).__name__}: {exc}')
    else:
        if SEEN != [((1,), kw)]:
            problems.append(f'1. Continue(f, 1, **{kw}) -> f called with {SEEN}')


# --- 2 -------------------------------------------------------------------------------------------------------------
class PrivateStep(plumpy.Process):
    def run(self):
        return ps.Continue(self.__second, 7)

    def __second(self, x):
        return x + 1


class Saver(plumpy.ProcessListener):
    def __init__(self):
        self.bundles = []

    def on_process_running(self, proc):
        self.bundles.append(plumpy.Bundle(proc))


proc = PrivateStep()
saver = Saver()
proc.add_process_listener(saver)
proc.execute()
assert proc.result() == 8
for bundle in saver.bundles:
    try:
        restored = bundle.unbundle()
        restored.execute()
        if restored.result() != 8:
            problems.append(f'2. restored result {restored.result()!r}')
    except BaseException as exc:  # noqa
        problems.append(
            f"2. checkpoint taken on entering {bundle['_state']['run_fn']!r} cannot be restored: "
            f'{type(exc).__name__}: {exc}'
        )


# --- 3 -------------------------------------------------------------------------------------------------------------
CALLS = []


class WaitProc(plumpy.Process):
    def run(self):
        return ps.Wait(self.after)

    def after(self, *args):
        CALLS.append(args)
        return args


async def case3():
    proc = WaitProc()
    task = asyncio.ensure_future(proc.step_until_terminated())
    while proc.state != plumpy.ProcessState.WAITING:
        await asyncio.sleep(0)
    await asyncio.sleep(0)
    await proc.pause()
    proc.resume('v')  # delivered while paused: f('v') is due as soon as the process is played
    bundle = plumpy.Bundle(proc)  # checkpoint between the return of the step and the next step
    restored = bundle.unbundle()
    restored.play()
    task2 = asyncio.ensure_future(restored.step_until_terminated())
    try:
        await asyncio.wait_for(task2, 1)
    except asyncio.TimeoutError:
        problems.append(
            f'3. (arguable) restored copy of a resumed-but-paused wait is still {restored.state}: resume value lost, '
            f'f(v) calls: {CALLS}'
        )
    proc.play()
    await task
    assert proc.result() == ('v',)


loop = asyncio.new_event_loop()
asyncio.set_event_loop(loop)
loop.run_until_complete(case3())

if problems:
    print('violations observed on this tree:')
    for problem in problems:
        print('  -', problem)
    sys.exit(1)
print('nothing observed')
