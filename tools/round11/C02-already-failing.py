"""Histories for which the UNCHANGED tree already violates C02 (exits 1 and says what it saw).

1. A registered cleanup that calls ``close()`` on its process (documented as "safe to call multiple times"): ``_closed`` is
   only set when ``on_close`` is over, so the nested ``close()`` runs ``on_close`` again, which calls the cleanup again ...
   until the recursion limit; every level then runs the remaining cleanups: cleanups run ~200 times, not once.
2. A termination hook of the process (here an ``on_killed`` override, after calling its parent) that raises
   ``asyncio.CancelledError`` -- e.g. it looked at a cancelled future, the very case that was fixed for listeners and
   cleanups.  ``transition_to`` only catches ``Exception``: the error flies out of ``kill()``, ``on_terminated`` is never
   called: the process is KILLED but never closed, its cleanups never run and a stepping coroutine blocked on the pause is
   never released, so ``step_until_terminated()`` does not return.
"""
import asyncio
import logging
import sys

import plumpy

logging.disable(logging.CRITICAL)


def reentrant_close(problems):
    class Proc(plumpy.Process):
        async def run(self):
            return 5

    proc = Proc()
    counts = {'first': 0, 'second': 0}

    def first():
        counts['first'] += 1
        proc.close()

    def second():
        counts['second'] += 1

    proc.add_cleanup(first)
    proc.add_cleanup(second)
    proc.execute()
    if counts != {'first': 1, 'second': 1}:
        problems.append(f'1. cleanups did not run exactly once each: {counts}')


async def cancelled_error_from_hook(problems):
    class Proc(plumpy.Process):
        async def run(self):
            return plumpy.Wait(self.after_wait)

        def after_wait(self):
            return 1

        def on_killed(self):
            super().on_killed()
            raise asyncio.CancelledError()

    proc = Proc()
    cleanups = []
    proc.add_cleanup(lambda: cleanups.append(1))
    stepper = asyncio.ensure_future(proc.step_until_terminated())
    while proc.state != plumpy.ProcessState.WAITING:
        await asyncio.sleep(0)
    result = proc.pause()
    if asyncio.isfuture(result):
        await result
    for _ in range(3):
        await asyncio.sleep(0)
    try:
        proc.kill('bye')
    except BaseException as exc:  # noqa: BLE001
        problems.append(f'2. kill() raised {type(exc).__name__}')
    for _ in range(5):
        await asyncio.sleep(0)
    if proc.has_terminated():
        if not stepper.done():
            problems.append(f'2. the process is {proc.state} but step_until_terminated() has not returned')
        if cleanups != [1]:
            problems.append(f'2. the process is {proc.state} but its cleanup ran {len(cleanups)} times (never closed)')
    stepper.cancel()


def main():
    problems = []
    reentrant_close(problems)
    asyncio.run(cancelled_error_from_hook(problems))
    for problem in problems:
        print(problem)
    return 1 if problems else 0


if __name__ == '__main__':
    sys.exit(main())
