# -*- coding: utf-8 -*-
"""Unchanged tree: a bundle saved with a custom object loader *instance* that carries state of its own (here: a table of
aliases filled at run time) cannot be loaded back, even when that very instance is handed over in the load context.

``Process.load_instance_state`` -> ``recreate_state`` (and ``WorkChain`` -> ``recreate_stepper``) build a fresh
``LoadSaveContext`` without a loader, so ``_ensure_object_loader`` falls back on the loader *class* named in the nested saved
state and instantiates it anew with no arguments: the instance given by the caller is ignored for the state (and steppers).

Run as:  PYTHONPATH=<tree>/src /venv/bin/python already-failing.py    (exit 1 = the round trip fails)
"""
import asyncio
import sys

import plumpy
from plumpy import persistence


class AliasLoader(plumpy.DefaultObjectLoader):
    """Identifies registered classes by a short alias; everything else like the default loader"""

    def __init__(self):
        self.aliases = {}

    def register(self, alias, cls):
        self.aliases[alias] = cls

    def identify_object(self, obj):
        for alias, cls in self.aliases.items():
            if cls is obj:
                return f'alias!{alias}'
        return super().identify_object(obj)

    def load_object(self, identifier):
        if identifier.startswith('alias!'):
            try:
                return self.aliases[identifier[len('alias!'):]]
            except KeyError:
                raise ValueError(f'unknown alias {identifier}')
        return super().load_object(identifier)


class Simple(plumpy.Process):
    def run(self):
        pass


def main():
    loop = asyncio.new_event_loop()
    asyncio.set_event_loop(loop)

    loader = AliasLoader()
    loader.register('created', plumpy.process_states.Created)

    proc = Simple(loop=loop)
    bundle = persistence.Bundle(proc, persistence.LoadSaveContext(loader=loader))
    print('state saved as', bundle['_state'][persistence.META][persistence.META__CLASS_NAME])
    try:
        loaded = bundle.unbundle(persistence.LoadSaveContext(loader=loader, loop=loop))
    except Exception as exception:
        print(f'loading with the very same loader instance failed: {type(exception).__name__}: {exception}')
        return 1
    bundle2 = persistence.Bundle(loaded, persistence.LoadSaveContext(loader=loader))
    print('round trip ok:', bundle2['_state'][persistence.META] == bundle['_state'][persistence.META])
    return 0


if __name__ == '__main__':
    sys.exit(main())
