# -*- coding: utf-8 -*-
"""Histories for which the UNCHANGED tree already violates C08 (resuming from a checkpoint reproduces the uninterrupted
execution).  Run as: PYTHONPATH=<tree>/src /venv/bin/python already-failing.py ; exits 1 when a violation is observed.

case 1  a context value that was also emitted as an output: live, the output *is* the object kept in the context, so later
        steps that modify it through the context change the output; in a checkpoint the outputs and the context are copied
        separately (Process.save_instance_state encodes the outputs with their own deepcopy), the link is lost and the
        restored run ends with other outputs.
case 2  a continuation with a private (name mangled) name: Running/Waiting save ``fn.__name__`` ('__second') and rebind it
        with ``getattr(process, '__second')``, which does not exist ('_Priv__second' does): the checkpoint cannot be loaded.
case 3  an outline step given as ``Base.second`` while the process class overrides ``second``: the uninterrupted run calls
        the function of the outline (Base.second); a _FunctionStepper loaded from a checkpoint is rebound by name on the
        class of the work chain and calls Sub.second.
case 4  the same ``Bundle`` (even one made with dereference=True) unbundled twice: ``unbundle`` hands the mutable values of
        the bundle (context values, state arguments) to the process, the first continuation modifies the checkpoint and the
        second one starts from the modified state.  (InMemoryPersister.load_checkpoint copies for this reason; Bundle does
        not.)
"""

import asyncio
import sys

import plumpy

PERSISTER = plumpy.InMemoryPersister()
BUNDLES = []


class Saver(plumpy.ProcessListener):
    def on_process_running(self, process):
        PERSISTER.save_checkpoint(process, f'n{len(PERSISTER.get_process_checkpoints(process.pid))}')
        BUNDLES.append(plumpy.Bundle(process, dereference=True))


def run(cls):
    loop = asyncio.new_event_loop()
    proc = cls(loop=loop)
    proc.add_process_listener(Saver())
    loop.run_until_complete(proc.step_until_terminated())
    return proc


def continue_from(bundle):
    loop = asyncio.new_event_loop()
    proc = bundle.unbundle(plumpy.LoadSaveContext(loop=loop))
    proc._event_helper.remove_all_listeners()
    loop.run_until_complete(proc.step_until_terminated())
    return proc


def check(title, reference):
    bad = False
    for checkpoint in sorted(PERSISTER.get_process_checkpoints(reference.pid), key=lambda c: c.tag):
        try:
            restored = continue_from(PERSISTER.load_checkpoint(reference.pid, checkpoint.tag))
            got = (restored.state, restored.outputs)
        except Exception as exception:  # noqa: BLE001
            got = f'cannot be continued: {type(exception).__name__}: {exception}'
        if got != (reference.state, reference.outputs):
            bad = True
            print(f'{title}: from checkpoint {checkpoint.tag}: {got}; uninterrupted: {(reference.state, reference.outputs)}')
    return bad


class Alias(plumpy.WorkChain):
    @classmethod
    def define(cls, spec):
        super().define(spec)
        spec.outputs.dynamic = True
        spec.outline(cls.s1, cls.s2, cls.s3)

    def s1(self):
        self.ctx.items = ['a']
        self.out('items', self.ctx.items)

    def s2(self):
        self.ctx.items.append('b')

    def s3(self):
        self.ctx.items.append('c')


class Priv(plumpy.Process):
    @classmethod
    def define(cls, spec):
        super().define(spec)
        spec.outputs.dynamic = True

    def run(self):
        self.out('a', 1)
        return plumpy.Continue(self.__second)

    def __second(self):
        self.out('b', 2)


class Base(plumpy.WorkChain):
    @classmethod
    def define(cls, spec):
        super().define(spec)
        spec.outputs.dynamic = True
        spec.outline(Base.first, Base.second)

    def first(self):
        self.out('first', 'base')

    def second(self):
        self.out('second', 'base')


class Sub(Base):
    def second(self):
        self.out('second', 'sub')


class Twice(plumpy.WorkChain):
    @classmethod
    def define(cls, spec):
        super().define(spec)
        spec.outputs.dynamic = True
        spec.outline(cls.s1, cls.s2, cls.s3)

    def s1(self):
        self.ctx.items = ['a']

    def s2(self):
        self.ctx.items.append('b')

    def s3(self):
        self.ctx.items.append('c')
        self.out('items', list(self.ctx.items))


def main():
    bad = False
    bad |= check('case 1 (context value emitted as output)', run(Alias))
    bad |= check('case 2 (private continuation)', run(Priv))
    bad |= check('case 3 (outline step overridden in the subclass)', run(Sub))

    del BUNDLES[:]
    reference = run(Twice)
    bundle = BUNDLES[1]  # the boundary between s1 and s2
    for attempt in (1, 2):
        restored = continue_from(bundle)
        if restored.outputs != reference.outputs:
            bad = True
            print(f'case 4 (same Bundle loaded twice): continuation {attempt}: {restored.outputs}; uninterrupted: {reference.outputs}')

    print('violations observed on this tree' if bad else 'no violation observed')
    return 1 if bad else 0


if __name__ == '__main__':
    sys.exit(main())
