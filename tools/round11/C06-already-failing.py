"""Unchanged tree: a resume() that reaches a paused, WAITING process is lost when the process is saved and loaded
before it is played (the value lives only in the wait future, which the checkpoint does not carry; the loaded state
gets a fresh pending future).  NOTE: this needs a checkpoint between the resume and the play, which is arguably outside
what the property quantifies over (orders of wake-ups relative to pause/play requests).

exit 1 = the loaded process stays WAITING forever although it was resumed and is playing."""
import asyncio
import sys
import warnings

warnings.simplefilter('ignore')
import plumpy
from plumpy import Process
from plumpy import process_states as ps


class P(Process):
    got = None

    def run(self):
        return ps.Wait(self.cont)

    def cont(self, *args):
        type(self).got = args
        return 'done'


async def main():
    p = P()
    task = asyncio.ensure_future(p.step_until_terminated())
    for _ in range(5):
        await asyncio.sleep(0)
    assert p.state == ps.ProcessState.WAITING
    await p.pause()
    assert p.paused
    p.resume(42)  # the wake-up: delivered to the wait future of the paused process
    bundle = plumpy.Bundle(p)
    task.cancel()
    try:
        await task
    except asyncio.CancelledError:
        pass
    q = bundle.unbundle()
    assert q.paused and q.state == ps.ProcessState.WAITING
    q.play()
    try:
        await asyncio.wait_for(q.step_until_terminated(), 1)
    except asyncio.TimeoutError:
        print('VIOLATION: resumed before the checkpoint, played after it, and still', q.state, 'paused =', q.paused)
        return 1
    print('ok', q.state, P.got)
    return 0


loop = asyncio.new_event_loop()
asyncio.set_event_loop(loop)
sys.exit(loop.run_until_complete(main()))
