# -*- coding: utf-8 -*-
"""Histories / inputs for which the UNCHANGED tree already departs from the C15 statement (exits 1 when any shows).

Run as: PYTHONPATH=<tree>/src /venv/bin/python already-failing.py
"""

import sys

from plumpy.process_spec import ProcessSpec

found = []


def expose(source, destination, namespace=None, exclude=None, include=None, options=None):
    destination._expose_ports(
        None, source.inputs, destination.inputs, destination._exposed_inputs, namespace, exclude, include, options
    )


# 1. "The copy is independent": the `default` of a namespace (the exposed top level one, set with setattr, and a nested
#    one, copied with copy.copy) is the very same object in source and destination
src = ProcessSpec()
src.input_namespace('ns', default={'k': 1})
src.input('ns.x', required=False)
src.inputs.default = {'q': 1}
dst = ProcessSpec()
expose(src, dst, namespace='n')
src.inputs['ns'].default['k'] = 2
src.inputs.default['q'] = 2
if dst.inputs['n']['ns'].default != {'k': 1}:
    found.append(f"1a. nested namespace default shows through: {dst.inputs['n']['ns'].default}")
if dst.inputs['n'].default != {'q': 1}:
    found.append(f"1b. target namespace default shows through: {dst.inputs['n'].default}")

# 2. "with the source namespace's properties unless overridden": properties are set in alphabetical order, `dynamic`
#    before `valid_type`, and the valid_type setter forces dynamic=True
src = ProcessSpec()
src.input('a')
src.inputs.valid_type = str
src.inputs.dynamic = False  # legal: typed, but not accepting undeclared ports
dst = ProcessSpec()
expose(src, dst, namespace='n')
if dst.inputs['n'].dynamic is not src.inputs.dynamic:
    found.append(f"2a. source dynamic={src.inputs.dynamic}, exposed copy dynamic={dst.inputs['n'].dynamic}")
src = ProcessSpec()
src.input('a')
src.inputs.valid_type = str
dst = ProcessSpec()
expose(src, dst, namespace='n', options={'dynamic': False})
if dst.inputs['n'].dynamic is not False:
    found.append("2b. namespace option dynamic=False is lost when the source has a valid_type")

# 3. "adds exactly the ports selected by the include rules": an empty include set selects every port
src = ProcessSpec()
src.input('a')
src.input('ns.x')
dst = ProcessSpec()
expose(src, dst, namespace='n', include=())
if list(dst.inputs['n'].keys()):
    found.append(f"3. include=() exposed {sorted(dst.inputs['n'].keys())}")

# 4. "leaves other ports of the destination in place": a namespace of the destination with the name of an exposed
#    namespace is replaced as a whole, ports of its own included
src = ProcessSpec()
src.input('ns.y')
dst = ProcessSpec()
dst.input('ns.x')
expose(src, dst)
if 'x' not in dst.inputs['ns']:
    found.append(f"4. own port `ns.x` of the destination is gone, ns holds {sorted(dst.inputs['ns'].keys())}")

# 5. a rejected exposure (unknown namespace option) has already overwritten the properties of the target
src = ProcessSpec()
src.inputs.required = False
dst = ProcessSpec()
try:
    expose(src, dst, options={'bogus': 1})
except ValueError:
    if dst.inputs.required is not True:
        found.append('5. the rejected exposure changed `required` of the target namespace')

for line in found:
    print(line)
sys.exit(1 if found else 0)
