# -*- coding: utf-8 -*-
"""Histories for which the UNCHANGED tree already violates C02.  Exits 1 and prints the violations found.

1. (the important one) A listener that fails, inside its terminal notification, in a *super-checked call on the same
   process* -- here: taking a checkpoint (``Bundle(process)`` -> ``call_with_super_check(save_instance_state)``) that
   cannot be taken -- is NOT isolated, although the EventHelper catches the listener's exception:
   ``call_with_super_check`` leaves ``process._called`` incremented when the wrapped call raises; the nested leak makes
   the check of the enclosing hook (``on_finished`` / ``on_killed``) fail with "Base 'on_finished' was not called",
   the transition "fails" and the FINISHED / KILLED process is turned into EXCEPTED: two terminal notifications,
   the future replaced (a waiter on the first one got the outputs / KilledError); as the listener checkpoints on
   EXCEPTED too, the entry into EXCEPTED fails the same way, so the process is never closed, its cleanups never run
   and execute() / kill() raise AssertionError.
   Candidate fix: restore the counter in ``call_with_super_check`` (try/finally: ``self._called = call_count``).
2. ``close()`` on a live process drops the state event hooks; a later ``kill()`` enters KILLED without ``on_kill`` /
   ``on_killed``: the future stays pending for ever and no listener is notified.
3. A hook failing after the future has been resolved (here ``on_finished`` of a subclass, after calling super) turns
   FINISHED into EXCEPTED: listeners get two terminal notifications and a waiter holding the future handed out earlier
   is told the outputs although the process is EXCEPTED (``on_except`` swaps in a new future).
"""

import asyncio
import logging
import sys
import threading

import plumpy

logging.disable(logging.CRITICAL)
found = []


class Recorder(plumpy.ProcessListener):
    def __init__(self):
        super().__init__()
        self.events = []

    def on_process_finished(self, process, outputs):
        self.events.append('finished')

    def on_process_excepted(self, process, reason):
        self.events.append('excepted')

    def on_process_killed(self, process, msg):
        self.events.append('killed')


# --- 1 -------------------------------------------------------------------------------------------------------
@plumpy.auto_persist('handle')
class HoldsALock(plumpy.Process):
    def init(self):
        super().init()
        self.handle = threading.Lock()  # cannot be deep-copied: saving the process raises TypeError

    def run(self):
        return 7


class Checkpointer(Recorder):
    def on_process_finished(self, process, outputs):
        super().on_process_finished(process, outputs)
        plumpy.Bundle(process)

    def on_process_killed(self, process, msg):
        super().on_process_killed(process, msg)
        plumpy.Bundle(process)

    def on_process_excepted(self, process, reason):
        super().on_process_excepted(process, reason)
        plumpy.Bundle(process)


proc = HoldsALock()
listener = Checkpointer()
proc.add_process_listener(listener)
cleanups = []
proc.add_cleanup(lambda: cleanups.append(1))
first_future = proc.future()
try:
    proc.execute()
    raised = None
except BaseException as exc:  # noqa: BLE001
    raised = exc
if proc.state != plumpy.ProcessState.FINISHED or listener.events != ['finished'] or not proc._closed or cleanups != [1]:
    found.append(
        f'1 (finish): state={proc.state}, notifications={listener.events}, closed={proc._closed}, cleanups ran '
        f'{len(cleanups)}x, execute() raised {type(raised).__name__}, future replaced={proc.future() is not first_future}, '
        f'first future -> {first_future.result() if first_future.exception() is None else first_future.exception()!r}'
    )

proc = HoldsALock()
listener = Checkpointer()
proc.add_process_listener(listener)
first_future = proc.future()
try:
    answer = proc.kill('stop')
except BaseException as exc:  # noqa: BLE001
    answer = exc
if proc.state != plumpy.ProcessState.KILLED or listener.events != ['killed'] or not proc._closed:
    found.append(
        f'1 (kill): state={proc.state}, notifications={listener.events}, closed={proc._closed}, kill() -> {answer!r}'[:300]
    )

# --- 2 -------------------------------------------------------------------------------------------------------
proc = plumpy.Process()
listener = Recorder()
proc.add_process_listener(listener)
proc.close()
answer = proc.kill('too late?')
if proc.state == plumpy.ProcessState.KILLED and (not proc.future().done() or listener.events != ['killed']):
    found.append(
        f'2: close() then kill() -> {answer}, state={proc.state}, future done={proc.future().done()}, '
        f'notifications={listener.events}'
    )


# --- 3 -------------------------------------------------------------------------------------------------------
class FailsAfterFinishing(plumpy.Process):
    def run(self):
        return 5

    def on_finished(self):
        super().on_finished()
        raise RuntimeError('boom')


proc = FailsAfterFinishing()
listener = Recorder()
proc.add_process_listener(listener)
first_future = proc.future()
try:
    proc.execute()
except RuntimeError:
    pass
if listener.events != ['excepted'] or first_future.exception() is None:
    found.append(
        f'3: state={proc.state}, notifications={listener.events}, the future handed out before the run resolved to '
        f'{first_future.result() if first_future.exception() is None else first_future.exception()!r}, '
        f'process future raises {proc.future().exception()!r}'
    )

if found:
    print('C02 violated on this tree:')
    for line in found:
        print('  -', line)
    sys.exit(1)
print('ok')
