# -*- coding: utf-8 -*-
"""Inputs for which the UNCHANGED tree already violates C19 (run: PYTHONPATH=<tree>/src /venv/bin/python already-failing.py).

Prints one line per case and exits 1 if any case shows a violation (which is what happens on the unchanged tree).
"""
import asyncio
import sys

import plumpy

violations = []


# 1. A subclass of SavableFuture that declares a member of its own: saved, but never restored, because
#    SavableFuture.recreate_from builds the object with cls(loop=loop) and never calls load_instance_state/load_members
@plumpy.auto_persist('label')
class LabelledFuture(plumpy.SavableFuture):
    def __init__(self, label='unset', loop=None):
        super().__init__(loop=loop)
        self.label = label


loop = asyncio.new_event_loop()
asyncio.set_event_loop(loop)
future = LabelledFuture('important', loop=loop)
future.set_result(5)
state = future.save()
assert state['label'] == 'important'
restored = plumpy.Savable.load(state)
if restored.result() != 5 or restored.label != 'important':
    violations.append(f'1. SavableFuture subclass: declared member `label` saved as {state["label"]!r}, restored as {restored.label!r}')


# 2. A member that holds a private (name mangled) method of the object: saved under its __name__ (`__step`), which
#    is not an attribute of the new object (that is `_Machine__step`), so loading fails with an AttributeError
@plumpy.auto_persist('callback')
class Machine(plumpy.Savable):
    def __init__(self):
        self.callback = self.__step

    def __step(self):
        return 'stepped'


machine = Machine()
state = machine.save()
try:
    restored = plumpy.Savable.load(state)
    if restored.callback.__self__ is not restored or restored.callback() != 'stepped':
        violations.append('2. private method member: not rebound to the new object')
except AttributeError as exception:
    violations.append(f'2. private method member: saved as {state["callback"]!r}, load fails with AttributeError: {exception}')


# 3. A member that holds the parent's implementation of a method the class overrides (super().handle): saved by name
#    only, hence rebound to the override
@plumpy.auto_persist('handler')
class Base(plumpy.Savable):
    def handle(self):
        return 'base'


class Derived(Base):
    def __init__(self):
        self.handler = super().handle

    def handle(self):
        return 'derived'


derived = Derived()
assert derived.handler() == 'base'
restored = plumpy.Savable.load(derived.save())
if restored.handler() != 'base':
    violations.append(f"3. super() method member: original handler() gives 'base', restored handler() gives {restored.handler()!r}")


# 4. Two bases that each declare members: only the declarations of the first base in the MRO are inherited
@plumpy.auto_persist('left')
class Left(plumpy.Savable):
    pass


@plumpy.auto_persist('right')
class Right(plumpy.Savable):
    pass


@plumpy.auto_persist('own')
class Both(Left, Right):
    def __init__(self):
        self.left, self.right, self.own = 1, 2, 3


state = Both().save()
restored = plumpy.Savable.load(state)
if getattr(restored, 'right', None) != 2:
    violations.append(f"4. two declaring bases: member `right` of the second base is not saved (state keys {sorted(k for k in state if k != '!!meta')})")

for line in violations:
    print('ALREADY FAILING:', line)
if not violations:
    print('no violation')
sys.exit(1 if violations else 0)
