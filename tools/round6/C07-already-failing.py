# -*- coding: utf-8 -*-
"""Histories/inputs for which the UNCHANGED tree already violates C07 (save works, the bundle cannot be loaded).

Callables are persisted under their bare ``__name__`` and looked up again with ``getattr`` on the process (class):

1. ``Waiting.DONE_CALLBACK`` / ``Running.RUN_FN`` (src/plumpy/process_states.py): a continuation that is a name-mangled
   private method (``self.__second``) is saved as ``'__second'``, while the attribute is ``_PrivateStep__second``.
2. ``_FunctionStepper`` (src/plumpy/workchains.py): an outline step that is a plain function (accepted by ``_FunctionCall``,
   it only has to take one argument), not an attribute of the workchain class, is saved as ``'helper'`` and looked up with
   ``getattr(WorkChainClass, 'helper')``.

Run: PYTHONPATH=<tree>/src /venv/bin/python already-failing.py   (exits 1 when a violation is seen)
"""

import asyncio
import copy
import sys

import plumpy
from plumpy import persistence, process_states


class PrivateStep(plumpy.Process):
    async def run(self):
        return process_states.Wait(self.__second, msg='waiting')

    def __second(self):
        return 1


def helper(self):
    self.ctx.x = 1


class FunctionInOutline(plumpy.WorkChain):
    @classmethod
    def define(cls, spec):
        super().define(spec)
        spec.outline(helper, cls.last)

    def last(self):
        pass


async def some_steps(proc, number):
    for _ in range(number):
        asyncio.ensure_future(proc.step())
        await asyncio.sleep(0.01)


def main():
    loop = asyncio.new_event_loop()
    asyncio.set_event_loop(loop)
    failures = 0
    for cls, steps in ((PrivateStep, 2), (FunctionInOutline, 1)):
        proc = cls(loop=loop)
        loop.run_until_complete(some_steps(proc, steps))
        bundle = persistence.Bundle(proc, dereference=True)  # saving works
        try:
            loaded = copy.deepcopy(bundle).unbundle(plumpy.LoadSaveContext(loop=loop))
        except Exception as exception:
            failures += 1
            print(f'{cls.__name__} saved in state {proc.state}: cannot be loaded: {type(exception).__name__}: {exception}')
        else:
            assert persistence.Bundle(loaded, dereference=True) == bundle
            print(f'{cls.__name__}: ok')
    return 1 if failures else 0


if __name__ == '__main__':
    sys.exit(main())
