"""Histories for which the UNCHANGED tree already violates C10 (exit 1 = violated).

1. An awaited child whose ``on_finished`` hook raises ends EXCEPTED, but its future was already resolved with the outputs
   in ``on_finish`` (and ``on_except`` then *replaces* ``child._future`` by a new one carrying the exception).  The
   workchain registered the original future, so it sees a success: the next step runs and the workchain FINISHES although
   an awaited item failed.
2. (borderline: an operation outside the quantification) the public ``Process.resume()`` called on a workchain that is
   waiting for its awaitables opens the barrier: the next step starts although the awaited future is still pending."""
import asyncio
import sys

import plumpy
from plumpy import ToContext, WorkChain

problems = []


class Child(plumpy.Process):
    @classmethod
    def define(cls, spec):
        super().define(spec)
        spec.output('res')

    async def run(self):
        await asyncio.sleep(0.02)
        self.out('res', 1)

    def on_finished(self):
        super().on_finished()
        raise RuntimeError('boom in on_finished')


class Wc1(WorkChain):
    ran_second = False

    @classmethod
    def define(cls, spec):
        super().define(spec)
        spec.outline(cls.first, cls.second)

    def first(self):
        self.child = self.launch(Child)
        return ToContext(a=self.child)

    def second(self):
        self.ran_second = True


class Wc2(WorkChain):
    ran_second = None

    @classmethod
    def define(cls, spec):
        super().define(spec)
        spec.outline(cls.first, cls.second)

    def first(self):
        self.fut = asyncio.get_event_loop().create_future()
        return ToContext(a=self.fut)

    def second(self):
        self.ran_second = (self.fut.done(), dict(self.ctx.__dict__))


async def main():
    wc = Wc1()
    try:
        await wc.step_until_terminated()
    except Exception:
        pass
    if wc.child.state == plumpy.ProcessState.EXCEPTED and (wc.ran_second or wc.state != plumpy.ProcessState.EXCEPTED):
        problems.append(
            f'1: awaited child ended {wc.child.state} ({wc.child.exception()!r}) but the workchain ended {wc.state}, '
            f'next step ran={wc.ran_second}, ctx={wc.ctx}'
        )

    wc = Wc2()
    task = asyncio.ensure_future(wc.step_until_terminated())
    await asyncio.sleep(0.01)
    assert wc.state == plumpy.ProcessState.WAITING
    wc.resume()
    await asyncio.sleep(0.01)
    if wc.ran_second is not None and not wc.ran_second[0]:
        problems.append(f'2: after resume() the next step ran with the awaited future pending, ctx={wc.ran_second[1]}')
    wc.fut.set_result(1)
    await task


asyncio.new_event_loop().run_until_complete(main())
if problems:
    print('C10 violated on this tree:')
    for problem in problems:
        print('  -', problem)
    sys.exit(1)
print('ok')
