# -*- coding: utf-8 -*-
"""Two histories for which the UNCHANGED tree already violates C09 (exit 1 = violations reproduced, 0 = not reproduced).

1. Outline names a base-class function explicitly (``Base.s1``) while the subclass overrides ``s1``.  A fresh run calls
   ``Base.s1`` (what the outline says); a process restored from a checkpoint calls ``Sub.s1`` because
   ``_FunctionStepper.load_instance_state`` looks the step up by ``__name__`` on the workchain class
   (the ``func_spec`` handed over in the load context is ignored).

2. A checkpoint taken while an ``elif_`` predicate is being evaluated (here: the predicate itself bundles the process).
   ``_IfStepper.step`` uses the persisted ``_pos`` as its loop counter, so the saved state has ``_pos == 1`` and no child
   stepper; after loading, the predicates are evaluated again from the first one while ``_pos`` keeps counting from 1, so
   the wrong branch (here the ``else_`` body ``c`` instead of ``b``) is executed -- or none at all if there is no further branch.
"""
import sys

from plumpy import Bundle, WorkChain, if_

LOG = []
BUNDLES = []
SAVE = True


class Base(WorkChain):
    @classmethod
    def define(cls, spec):
        super().define(spec)
        spec.outline(Base.s1, cls.s2, if_(cls.p0)(cls.a).elif_(cls.p1)(cls.b).else_(cls.c), cls.s3)

    def s1(self):
        LOG.append('Base.s1')

    def s2(self):
        LOG.append('s2')

    def s3(self):
        LOG.append('s3')

    def a(self):
        LOG.append('a')

    def b(self):
        LOG.append('b')

    def c(self):
        LOG.append('c')

    def p0(self):
        LOG.append('p0')
        return False

    def p1(self):
        LOG.append('p1')
        if SAVE:
            BUNDLES.append(Bundle(self))
        return True


class Sub(Base):
    def s1(self):
        LOG.append('Sub.s1')


def main():
    global SAVE
    violations = 0

    chain = Sub()
    created = Bundle(chain)
    chain.execute()
    fresh = list(LOG)
    print('fresh run                 :', fresh)
    assert fresh == ['Base.s1', 's2', 'p0', 'p1', 'b', 's3']
    SAVE = False

    LOG.clear()
    created.unbundle().execute()
    print('restored (CREATED)        :', LOG)
    if LOG != fresh:
        violations += 1
        print('  VIOLATION 1: the restored chain calls Sub.s1, the outline says Base.s1')

    LOG.clear()
    BUNDLES[0].unbundle().execute()
    print('restored (inside elif p1) :', LOG)
    if LOG != fresh[2:]:  # p0, p1 are evaluated again, then b, s3
        violations += 1
        print("  VIOLATION 2: expected ['p0', 'p1', 'b', 's3']: p1 is true but the else_ branch was taken")

    return 1 if violations else 0


if __name__ == '__main__':
    sys.exit(main())
