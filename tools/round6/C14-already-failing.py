# -*- coding: utf-8 -*-
"""Unchanged tree: boundary inputs for which the two bundled persisters are NOT observationally equivalent.

The ids/tags below are legal "separator-free strings" (no '.', no '/'), yet the pickle persister cannot store them
because it turns the key into a file name, while the in-memory persister stores them without complaint:

  * a pid (or tag) longer than the file system's name limit (255 bytes)  -> OSError ENAMETOOLONG on save
  * a pid (or tag) containing a NUL character                             -> ValueError (embedded null byte) on save

Exits non-zero (printing the divergence) when the persisters disagree, i.e. on the unchanged tree.
"""
import sys
import tempfile

import plumpy


class Proc(plumpy.Process):
    def run(self):
        pass


def outcome(fn, *args):
    try:
        return ('ok', fn(*args))
    except Exception as exc:  # noqa: BLE001
        return ('raised', type(exc).__name__)


def main():
    diverged = []
    for label, pid, tag in (('long pid', 'p' * 300, None), ('long tag', 'p', 't' * 300), ('NUL in tag', 'p', 'a\x00b')):
        with tempfile.TemporaryDirectory() as directory:
            results = {}
            for name, persister in (('memory', plumpy.InMemoryPersister()), ('pickle', plumpy.PicklePersister(directory))):
                saved = outcome(persister.save_checkpoint, Proc(pid=pid), tag)[0]
                listed = outcome(persister.get_checkpoints)
                results[name] = (saved, listed[0], len(listed[1]) if listed[0] == 'ok' else listed[1])
            if results['memory'] != results['pickle']:
                diverged.append(f'{label}: in-memory (save, list, #keys) = {results["memory"]}, pickle = {results["pickle"]}')
    for line in diverged:
        print('DIVERGENCE ' + line)
    return 1 if diverged else 0


if __name__ == '__main__':
    sys.exit(main())
