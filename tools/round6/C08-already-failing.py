# -*- coding: utf-8 -*-
"""Histories/inputs for which the UNCHANGED tree already violates C08 (resume from a checkpoint == uninterrupted execution).
Run as: PYTHONPATH=<tree>/src /venv/bin/python already-failing.py   (exits 1 if any of the cases diverges)"""
import asyncio
import sys

import plumpy
from plumpy import Process, WorkChain, process_states


def fresh_loop(install=True):
    loop = asyncio.new_event_loop()
    if install:
        asyncio.set_event_loop(loop)
    return loop


async def run_steps(process, number):
    for _ in range(number):
        await process.step()


# Case 1 -- a step is saved by the NAME of its function and rebound with getattr(type(workchain), name) on load
# (workchains._FunctionStepper.load_instance_state), whereas the live stepper calls the function object given in the outline.
# With an outline that names the base class functions explicitly and a subclass that overrides one of them, the uninterrupted
# run executes Base.second, the restored run executes Derived.second.  (Same mechanism for process_states.Running/Waiting/
# Created, e.g. ``Continue(super().last_step)`` in a subclass that overrides ``last_step``.)
class Base(WorkChain):
    @classmethod
    def define(cls, spec):
        super().define(spec)
        spec.outputs.dynamic = True
        spec.outline(Base.first, Base.second)

    def first(self):
        self.ctx.trace = ['Base.first']

    def second(self):
        self.ctx.trace.append('Base.second')
        self.out('trace', list(self.ctx.trace))


class Derived(Base):
    def second(self):
        self.ctx.trace.append('Derived.second')
        self.out('trace', list(self.ctx.trace))


def case_override():
    loop = fresh_loop()
    reference = Derived()
    reference.execute()
    process = Derived()
    loop.run_until_complete(run_steps(process, 2))  # CREATED -> RUNNING, then ``first``
    bundle = plumpy.Bundle(process, dereference=True)
    loop.close()
    loop = fresh_loop()
    restored = bundle.unbundle(plumpy.LoadSaveContext(loop=loop))
    restored.execute()
    loop.close()
    return reference.outputs, restored.outputs


# Case 2 -- process_states.Waiting.load_instance_state creates the future the state waits on with ``futures.Future()``, i.e.
# on the *current* event loop and not on the loop of the process (``LoadSaveContext(loop=...)``).  A WAITING checkpoint loaded
# for a fresh loop that is not (yet) installed as the current one ends up EXCEPTED ("attached to a different loop").
class Waiter(Process):
    @classmethod
    def define(cls, spec):
        super().define(spec)
        spec.outputs.dynamic = True

    def run(self):
        return process_states.Wait(self.after, 'waiting for a value')

    def after(self, value):
        self.out('got', value)


async def drive(process, value):
    task = asyncio.ensure_future(process.step_until_terminated())
    await asyncio.sleep(0)
    process.resume(value)
    await task


def case_waiting_other_loop():
    loop = fresh_loop()
    reference = Waiter()
    loop.run_until_complete(drive(reference, 7))
    process = Waiter()
    loop.run_until_complete(run_steps(process, 2))  # now WAITING
    bundle = plumpy.Bundle(process, dereference=True)
    fresh = fresh_loop(install=False)  # ``loop`` is still the current loop
    restored = bundle.unbundle(plumpy.LoadSaveContext(loop=fresh))
    fresh.run_until_complete(drive(restored, 7))
    fresh.close()
    loop.close()
    return (reference.state, reference.outputs), (restored.state, restored.outputs)


# Case 3 -- the context, the outputs and the state arguments are copied into the checkpoint one by one (``encode_input_args``,
# ``save_members``), so an object referenced from two of them is one object in the live process and two after a restore.
class Shared(WorkChain):
    @classmethod
    def define(cls, spec):
        super().define(spec)
        spec.outputs.dynamic = True
        spec.outline(cls.first, cls.second)

    def first(self):
        self.ctx.results = []
        self.out('results', self.ctx.results)  # the output IS the list in the context

    def second(self):
        self.ctx.results.append(1)


def case_shared_between_context_and_outputs():
    loop = fresh_loop()
    reference = Shared()
    reference.execute()
    process = Shared()
    loop.run_until_complete(run_steps(process, 2))
    bundle = plumpy.Bundle(process, dereference=True)
    loop.close()
    loop = fresh_loop()
    restored = bundle.unbundle(plumpy.LoadSaveContext(loop=loop))
    restored.execute()
    loop.close()
    return reference.outputs, restored.outputs


def main():
    diverged = 0
    for case in (case_override, case_waiting_other_loop, case_shared_between_context_and_outputs):
        uninterrupted, restored = case()
        same = uninterrupted == restored
        diverged += not same
        print(f"{case.__name__}: {'same' if same else 'DIVERGES'}\n    uninterrupted: {uninterrupted}\n    restored:      {restored}")
    return 1 if diverged else 0


if __name__ == '__main__':
    sys.exit(main())
