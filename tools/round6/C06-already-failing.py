# -*- coding: utf-8 -*-
"""UNCHANGED tree: a resume() is lost for good once the task stepping a WAITING process has been cancelled.

History (no pause/play needed):
  1. ``task = ensure_future(proc.step_until_terminated())``; the process reaches WAITING, the step coroutine is blocked
     in ``Waiting.execute`` on ``await self._waiting_future``.
  2. The stepping task is cancelled (``task.cancel()``; the same happens with ``asyncio.wait_for(..., timeout)`` around
     ``step_until_terminated``).  asyncio cancels the future a cancelled task is blocked on, i.e. the state's
     ``_waiting_future`` itself, and nothing re-arms it.
  3. ``proc.resume(value)`` : ``Waiting.resume`` sees ``_waiting_future.done()`` and silently drops the value.
  4. A new ``step_until_terminated()`` task is started: ``Waiting.execute`` awaits the cancelled future, which raises
     ``asyncio.CancelledError`` (a BaseException) straight through ``step``; the new task dies at once.

The process has been resumed, is playing, is being stepped again - and stays WAITING forever, the value is never
delivered.  (Borderline w.r.t. the quantifier of C06, which speaks of pause/play and "other control requests": cancelling
the stepping task is not a Process method, but ``step``/``_forget_withdrawn_requests`` explicitly cater for it.)

Exits 1 (printing what happened) when the violation is observed, 0 otherwise.
"""

import asyncio
import sys
import warnings

warnings.simplefilter('ignore')

import plumpy
from plumpy import ProcessState, process_states


class WaitProc(plumpy.Process):
    def __init__(self, *args, **kwargs):
        super().__init__(*args, **kwargs)
        self.delivered = []

    def run(self):
        return process_states.Wait(self.continuation)

    def continuation(self, *values):
        self.delivered.append(values)


async def main():
    proc = WaitProc()
    task = asyncio.ensure_future(proc.step_until_terminated())
    for _ in range(10):
        await asyncio.sleep(0)
    assert proc.state == ProcessState.WAITING

    task.cancel()
    try:
        await task
    except asyncio.CancelledError:
        pass
    print(f'after cancelling the stepping task: state={proc.state} waiting future={proc._state._waiting_future!r}')

    proc.resume('the-value')
    proc.play()
    task2 = asyncio.ensure_future(proc.step_until_terminated())
    try:
        await asyncio.wait_for(asyncio.shield(task2), 1.0)
        outcome = 'returned'
    except asyncio.TimeoutError:
        outcome = 'still blocked after 1s'
    except BaseException as exception:
        outcome = f'died with {type(exception).__name__}'

    print(f'second stepping task: {outcome}; state={proc.state} paused={proc.paused} delivered={proc.delivered}')
    if proc.state == ProcessState.FINISHED and proc.delivered == [('the-value',)]:
        print('fine: the resumed process continued')
        return 0
    print('VIOLATION: the process was resumed and is playing but stays WAITING; the value was never delivered')
    return 1


if __name__ == '__main__':
    sys.exit(asyncio.get_event_loop().run_until_complete(main()))
