# -*- coding: utf-8 -*-
"""Candidate violation of C04 on the UNCHANGED tree (borderline, see the final report).

A process listener's exceptions are swallowed by ``EventHelper.fire_event`` -- a listener that simply raises in
``on_process_killed`` leaves the kill untouched (control case below).  But if the listener fails *inside a method that is
run through* ``call_with_super_check`` *on the process* (here: taking a checkpoint with ``plumpy.Bundle(process)`` whose
``save_instance_state`` raises before reaching the base class), the per-object ``_called`` counter of
``plumpy.base.utils`` is left one too high.  The swallowed exception then resurfaces as
``AssertionError: Base 'on_killed' was not called ...`` in the super check of the ``on_killed`` hook, the kill
transition is declared failed and the process ends EXCEPTED, kill() returning False -- although no step failed.

Exits 0 if kill() ends KILLED/True in both cases, 1 otherwise.
"""
import sys

import plumpy
from plumpy import ProcessState

plumpy.set_event_loop_policy()


class Proc(plumpy.Process):
    unsavable = False

    def run(self):
        return plumpy.Wait(self.after)

    def after(self):
        return 1

    def save_instance_state(self, out_state, save_context):
        if self.unsavable:
            raise RuntimeError('cannot be checkpointed right now')
        super().save_instance_state(out_state, save_context)


class PlainFailingListener(plumpy.ProcessListener):
    def on_process_killed(self, process, msg):
        raise RuntimeError('listener failure')


class CheckpointingListener(plumpy.ProcessListener):
    def on_process_killed(self, process, msg):
        plumpy.Bundle(process)  # raises for an unsavable process; fire_event swallows that


def run_case(listener, unsavable):
    proc = Proc()
    proc.unsavable = unsavable
    proc.add_process_listener(listener)
    result = proc.kill('stop')
    return proc.state, result, proc.exception()


def main():
    bad = False
    for label, listener, unsavable in (
        ('listener raising directly', PlainFailingListener(), False),
        ('listener whose checkpoint of the process fails', CheckpointingListener(), True),
    ):
        state, result, exception = run_case(listener, unsavable)
        ok = state == ProcessState.KILLED and result is True
        print(f'[{label}] state={state} kill()={result!r} exception={exception!r} -> {"ok" if ok else "VIOLATION"}')
        bad = bad or not ok
    return 1 if bad else 0


if __name__ == '__main__':
    sys.exit(main())
