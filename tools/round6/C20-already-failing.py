# -*- coding: utf-8 -*-
"""UNCHANGED tree: the future of ``plumpy.futures.create_task`` never ends when the scheduled coroutine ends with
``asyncio.CancelledError`` (e.g. because it awaited a future that was cancelled): ``kiwipy.capture_exceptions`` only
catches ``Exception`` and ``asyncio.CancelledError`` is a ``BaseException``, so neither ``set_result`` nor
``set_exception`` nor ``cancel`` is ever called on the returned future.  Through a ``LoopCommunicator`` this means the
sender of an RPC/task whose (coroutine) subscriber is cancelled waits for the reply forever.
(``Process._schedule_rpc`` was hardened against exactly this, ``create_task`` was not.)

Exit status 1 = the violation is present.
"""

import asyncio
import concurrent.futures
import sys
import threading

import kiwipy

from plumpy import futures
from plumpy.communications import LoopCommunicator


class LocalCommunicator(kiwipy.CommunicatorHelper):
    def task_send(self, task, no_reply=False):
        return self.fire_task(task, no_reply)

    def rpc_send(self, recipient_id, msg):
        return self.fire_rpc(recipient_id, msg)

    def broadcast_send(self, body, sender=None, subject=None, correlation_id=None):
        return self.fire_broadcast(body, sender, subject, correlation_id)


def main():
    loop = asyncio.new_event_loop()
    threading.Thread(target=loop.run_forever, daemon=True).start()
    bad = 0

    # 1. create_task directly
    async def direct():
        inner = asyncio.get_running_loop().create_future()

        async def coro():
            return await inner

        future = futures.create_task(coro)
        await asyncio.sleep(0.05)
        inner.cancel()
        await asyncio.sleep(0.3)
        return future.done(), repr(future)

    done, text = asyncio.run_coroutine_threadsafe(direct(), loop).result(5)
    print('create_task: coroutine ended with CancelledError, returned future done=%s (%s)' % (done, text))
    bad += not done

    # 2. through a LoopCommunicator
    communicator = LoopCommunicator(LocalCommunicator(), loop)
    inner = loop.create_future()

    async def subscriber(_comm, _msg):
        return await inner

    communicator.add_rpc_subscriber(subscriber, 'worker')
    reply = futures.unwrap_kiwi_future(communicator.rpc_send('worker', 'hello'))
    asyncio.run_coroutine_threadsafe(asyncio.sleep(0.05), loop).result(5)
    loop.call_soon_threadsafe(inner.cancel)
    try:
        reply.result(3)
        print('rpc reply: got a result?!')
    except concurrent.futures.CancelledError:
        print('rpc reply: cancelled (fine)')
    except concurrent.futures.TimeoutError:
        print('rpc reply: NEVER DELIVERED although the subscriber coroutine has ended (cancelled)')
        bad += 1
    except Exception as exception:
        print('rpc reply: exception %r (fine)' % exception)

    return 1 if bad else 0


if __name__ == '__main__':
    sys.exit(main())
