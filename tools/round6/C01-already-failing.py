"""Unchanged tree: a communicator fault while the terminal state is being announced moves a KILLED
(or FINISHED) process on to EXCEPTED.

``Process.on_entered`` broadcasts the state change *after* the new state has been entered and only absorbs
``ConnectionClosed``, ``ChannelInvalidStateError`` and ``kiwipy.TimeoutError``.  Any other failure of
``broadcast_send`` (here: ``kiwipy.CommunicatorClosed`` of a communicator that was closed in the meantime, or a
broadcast subscriber that raises with the synchronous ``LocalCommunicator``) is routed through
``transition_failed`` with the *initial* (live) state label, so the exit check is bypassed and the already
terminal process is pushed into EXCEPTED.

(Outside the stated quantification of C01 -- it needs a communicator -- but the statement itself is violated.)
"""
import asyncio
import sys

import kiwipy
import plumpy
from plumpy import ProcessState


class Recorder(plumpy.ProcessListener):
    def __init__(self):
        super().__init__()
        self.seen = []

    def on_process_running(self, process):
        self.seen.append(process.state)

    def on_process_waiting(self, process):
        self.seen.append(process.state)

    def on_process_finished(self, process, outputs):
        self.seen.append(process.state)

    def on_process_killed(self, process, msg):
        self.seen.append(process.state)

    def on_process_excepted(self, process, reason):
        self.seen.append(process.state)


class Waiter(plumpy.Process):
    def run(self):
        return plumpy.Wait(self.done)

    def done(self):
        return 1


class Quick(plumpy.Process):
    def run(self):
        return 1


problems = []


def scenario_killed():
    comm = kiwipy.LocalCommunicator()
    proc = Waiter(communicator=comm)
    rec = Recorder()
    proc.add_process_listener(rec)
    loop = asyncio.get_event_loop()

    async def main():
        task = asyncio.ensure_future(proc.step_until_terminated())
        while proc.state != ProcessState.WAITING:
            await asyncio.sleep(0)
        # the fault: the connection goes away while the process waits
        comm.close()
        try:
            proc.kill('stop')
        except Exception as exc:  # noqa: BLE001
            print('kill() raised', type(exc).__name__, exc)
        await asyncio.sleep(0)
        task.cancel()

    loop.run_until_complete(main())
    print('killed scenario: observed', [s.value for s in rec.seen], 'final', proc.state.value)
    terminal = [s for s in rec.seen if s in (ProcessState.KILLED, ProcessState.FINISHED, ProcessState.EXCEPTED)]
    if len(set(terminal)) > 1 or (terminal and proc.state != terminal[0]):
        problems.append(f'terminal state changed: {[s.value for s in terminal]} -> final {proc.state.value}')


def scenario_finished():
    comm = kiwipy.LocalCommunicator()

    def subscriber(_comm, body, sender, subject, correlation_id):
        if subject.endswith('.finished'):
            raise RuntimeError('subscriber broke')

    comm.add_broadcast_subscriber(subscriber)
    proc = Quick(communicator=comm)
    rec = Recorder()
    proc.add_process_listener(rec)
    try:
        proc.execute()
    except Exception as exc:  # noqa: BLE001
        print('execute() raised', type(exc).__name__, exc)
    print('finished scenario: observed', [s.value for s in rec.seen], 'final', proc.state.value)
    terminal = [s for s in rec.seen if s in (ProcessState.KILLED, ProcessState.FINISHED, ProcessState.EXCEPTED)]
    if len(set(terminal)) > 1 or (terminal and proc.state != terminal[0]):
        problems.append(f'terminal state changed: {[s.value for s in terminal]} -> final {proc.state.value}')


scenario_killed()
scenario_finished()
if problems:
    print('VIOLATION (unchanged tree):', problems)
    sys.exit(1)
print('ok')
