"""Unchanged tree: the "not specified" marker of plumpy.ports is the empty tuple ``()``, which CPython interns.

A caller who passes ``()`` as the *value* of a typed (optional) input therefore gets it past the type check and
past the port validator: the process is constructed and ``inputs`` holds a value that is not of the declared type.
For a required port the same value is reported as "required value was not provided" although it was provided.
"""
import sys

import plumpy


def positive(value, port):
    if not isinstance(value, int) or value <= 0:
        return 'must be a positive int'


class Typed(plumpy.Process):
    @classmethod
    def define(cls, spec):
        super().define(spec)
        spec.input('a', valid_type=int, required=False, validator=positive)

    def run(self):
        pass


failures = []

# sanity: another value of the wrong type is rejected
try:
    Typed(inputs={'a': 'text'})
    failures.append('a str was accepted for an int port')
except ValueError:
    pass

try:
    proc = Typed(inputs={'a': ()})
except ValueError:
    pass
else:
    failures.append(
        f"process constructed with a={proc.inputs['a']!r} ({type(proc.inputs['a']).__name__}) for a port declared "
        'valid_type=int with a validator demanding a positive int'
    )

if failures:
    print('PROPERTY VIOLATED:')
    for failure in failures:
        print(' -', failure)
    sys.exit(1)
print('ok')
