# -*- coding: utf-8 -*-
"""Histories / inputs for which the UNCHANGED tree already departs from the C13 statement.

Run: PYTHONPATH=<tree>/src /venv/bin/python already-failing.py   (exits 1 and lists what was observed)
"""

import asyncio
import sys

import plumpy
from plumpy import ProcessState

FINDINGS = []


def finding(title, detail):
    FINDINGS.append((title, detail))


# 1. Wait(f) + the task stepping the process is cancelled while it waits (e.g. ``asyncio.wait_for(..., timeout)``):
#    the cancellation is propagated by asyncio into ``Waiting._waiting_future``; from then on resume(v) is ignored
#    ("future done") and every further step raises CancelledError at once: f(v) never runs.
class WaitProc(plumpy.Process):
    def run(self):
        return plumpy.Wait(self.after)

    def after(self, value=None):
        return ('after', value)


async def case_cancelled_stepper():
    proc = WaitProc()
    try:
        await asyncio.wait_for(proc.step_until_terminated(), 0.05)
    except asyncio.TimeoutError:
        pass
    assert proc.state == ProcessState.WAITING
    proc.resume(5)
    try:
        await asyncio.wait_for(proc.step_until_terminated(), 1)
    except BaseException as exc:
        finding(
            'Wait(f); stepping task cancelled while waiting; resume(5); step again',
            f'stepping raised {type(exc).__name__}, state={proc.state}, f(5) never ran',
        )
        return
    if proc.state != ProcessState.FINISHED or proc.result() != ('after', 5):
        finding('Wait(f); stepping task cancelled while waiting; resume(5)', f'state={proc.state}')


# 2. Keyword arguments of Continue that collide with parameter names on the way to the Running state
#    (``state_label`` of create_state(), ``process``/``run_fn`` of Running.__init__): TypeError -> EXCEPTED.
class KwProc(plumpy.Process):
    KW = None

    def run(self):
        return plumpy.Continue(self.second, **{self.KW: 1})

    def second(self, **kwargs):
        return kwargs


async def case_kwarg_names():
    for name in ('run_fn', 'process', 'state_label'):
        cls = type('KwProc_' + name, (KwProc,), {'KW': name})
        proc = cls()
        await asyncio.wait_for(proc.step_until_terminated(), 5)
        if proc.state != ProcessState.FINISHED or proc.result() != {name: 1}:
            finding(f'Continue(f, {name}=1)', f'state={proc.state}, exception={proc.exception()!r}')


# 3. The continuation is persisted by ``__name__`` and looked up again with getattr(process, name):
#    Continue(super().finish) resolves to the subclass override after a restore.
class Base(plumpy.Process):
    def run(self):
        return plumpy.Continue(self.finish)

    def finish(self):
        return 'base finish'


class Derived(Base):
    def run(self):
        return plumpy.Continue(super().finish)

    def finish(self):
        return 'derived finish'


async def case_super_continuation():
    proc = Derived()
    await proc.step()
    await proc.step()  # now RUNNING(Base.finish) is pending
    restored = plumpy.Bundle(proc).unbundle()
    await proc.step_until_terminated()
    await restored.step_until_terminated()
    if proc.result() != restored.result():
        finding(
            'Continue(super().finish) + checkpoint/restore',
            f'without restore: {proc.result()!r}, with restore: {restored.result()!r}',
        )


# 4. same mechanism: a private (name mangled) step cannot be found again after a restore
class Private(plumpy.Process):
    def run(self):
        return plumpy.Continue(self.__finish, 3)

    def __finish(self, value):
        return value


async def case_private_continuation():
    proc = Private()
    await proc.step()
    await proc.step()
    try:
        restored = plumpy.Bundle(proc).unbundle()
        await restored.step_until_terminated()
        assert restored.result() == 3
    except Exception as exc:
        finding('Continue(self.__finish, 3) + checkpoint/restore', f'{type(exc).__name__}: {exc}')


async def main():
    await case_cancelled_stepper()
    await case_kwarg_names()
    await case_super_continuation()
    await case_private_continuation()


if __name__ == '__main__':
    loop = asyncio.new_event_loop()
    asyncio.set_event_loop(loop)
    loop.run_until_complete(main())
    for title, detail in FINDINGS:
        print(f'- {title}\n    {detail}')
    sys.exit(1 if FINDINGS else 0)
