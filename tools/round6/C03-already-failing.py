# -*- coding: utf-8 -*-
"""Three histories/inputs for which the UNCHANGED tree already violates C03.

Run as: PYTHONPATH=<tree>/src /venv/bin/python already-failing.py
Prints one line per case; exits 1 if any case shows a violation (which is what happens on the unchanged tree).

1. A (synchronous) lifecycle hook raises ``StopIteration``: ``on_except`` hands it to ``Future.set_exception`` which
   refuses it with a ``TypeError``; that second failure happens while ``_transition_failing`` is set, so it is
   re-raised: ``execute()``/``step()`` raise TypeError, the process stays in its old (already exited) state, is not
   closed and its future stays pending.  (The same happens for a pause hook: ``CancellableAction.run`` ->
   ``capture_exceptions`` -> ``set_exception`` raises inside ``step``.)
2. A ``call_soon`` callback cancels its own handle and then raises: ``ProcessCallback.cancel`` has already cleared
   ``_process``, so the ``except`` block of ``ProcessCallback.run`` dies with AttributeError, which escapes into the
   event loop; the process is not failed.
3. A ``call_soon`` callback fails while the process is in the middle of a transition, which is possible because the
   loop is re-entrant (a hook runs a nested process with ``execute()``): ``fail`` -> ``transition_to`` hits
   ``assert not self._transitioning``; the AssertionError escapes into the event loop, the process finishes normally.
"""
import asyncio
import gc
import logging
import sys

import plumpy
from plumpy import ProcessState

logging.disable(logging.CRITICAL)
plumpy.set_event_loop_policy()
loop = asyncio.get_event_loop()
escaped = []
loop.set_exception_handler(lambda _loop, context: escaped.append(context))

violations = []


def flush():
    gc.collect()
    loop.run_until_complete(asyncio.sleep(0))
    gc.collect()
    found = [f"{c.get('message')}: {c.get('exception')!r}" for c in escaped]
    del escaped[:]
    return found


# --- 1 -------------------------------------------------------------------------------------------------------------
class StopIterationInHook(plumpy.Process):
    def on_run(self):
        super().on_run()
        raise StopIteration('raised by a hook')

    def run(self):
        return 1


proc = StopIterationInHook()
try:
    proc.execute()
    outcome = 'execute returned'
except BaseException as exc:  # noqa: BLE001
    outcome = f'execute raised {type(exc).__name__}: {exc}'
if proc.state != ProcessState.EXCEPTED or not isinstance(proc.exception(), StopIteration):
    violations.append(
        f'1 StopIteration in on_run: {outcome}; state={proc.state} closed={proc._closed} future_done={proc.future().done()}'
    )
flush()


# --- 2 -------------------------------------------------------------------------------------------------------------
class CancelsItself(plumpy.Process):
    async def run(self):
        self.handle = self.call_soon(self.callback)
        await asyncio.sleep(0.05)
        return 2

    def callback(self):
        self.handle.cancel()
        raise RuntimeError('callback failed')


proc = CancelsItself()
try:
    proc.execute()
except BaseException:  # noqa: BLE001
    pass
found = flush()
if found:
    violations.append(f'2 callback cancelling its own handle then failing: state={proc.state}; escaped: {found}')


# --- 3 -------------------------------------------------------------------------------------------------------------
class Child(plumpy.Process):
    async def run(self):
        await asyncio.sleep(0.05)


class Parent(plumpy.Process):
    def run(self):
        self.call_soon(self.callback)
        return plumpy.Continue(self.second)

    def callback(self):
        raise RuntimeError('callback failed')

    def on_exit_running(self):
        super().on_exit_running()
        Child().execute()  # runs the (re-entrant) loop inside the transition: the callback fails now

    def second(self):
        return 5


proc = Parent()
try:
    proc.execute()
except BaseException:  # noqa: BLE001
    pass
found = flush()
if found or proc.state != ProcessState.EXCEPTED:
    violations.append(f'3 callback failing during a transition (nested loop run): state={proc.state}; escaped: {found}')


if violations:
    print('C03 violated on this tree:')
    for violation in violations:
        print('  -', violation)
    sys.exit(1)
print('no violation')
sys.exit(0)
