# -*- coding: utf-8 -*-
"""Unchanged tree: play() issued from the ``on_pausing`` hook does not cancel the pause that is being carried out.

C05 says: "play() always leaves the process un-paused and cancels a pause that has not yet taken effect".  Between
the ``on_pausing`` and the ``on_paused`` hook the pause has not taken effect yet (``paused`` is False), but a play()
issued there (by a subclass overriding ``on_pausing``; there is no listener event at that point) finds neither a
paused process nor -- for an immediate pause -- a pending pause handle, or -- for a deferred pause -- only the handle
of the action that is running and cannot be cancelled any more (``_do_pause`` checks for a play() only after the
state transition, not after ``on_pausing``).  play() returns True and the process is paused right after it.

Exits 1 when the violation is observed (which it is on the unchanged tree), 0 otherwise.
"""

import asyncio
import sys

import plumpy


class Vetoing(plumpy.Process):
    veto = False
    played = None

    def on_pausing(self, msg=None):
        super().on_pausing(msg)
        if self.veto:
            self.veto = False
            self.played = (self.play(), self.paused)

    def run(self):
        return plumpy.Wait(self.done)

    def done(self, value):
        return value


async def main():
    problems = []

    proc = Vetoing()
    proc.veto = True
    proc.pause('immediate')  # not stepping: carried out at once
    if proc.paused:
        problems.append(f'immediate pause: play() in on_pausing returned {proc.played[0]} but the process is paused')
    proc.play()

    task = asyncio.ensure_future(proc.step_until_terminated())
    for _ in range(5):
        await asyncio.sleep(0)
    proc.veto = True
    proc.pause('deferred')  # stepping (waiting): carried out when the interrupted step wakes up
    for _ in range(5):
        await asyncio.sleep(0)
    if proc.paused:
        problems.append(f'deferred pause: play() in on_pausing returned {proc.played[0]} but the process is paused')
    proc.play()
    proc.resume(1)
    await asyncio.wait_for(task, 5)
    return problems


if __name__ == '__main__':
    found = asyncio.get_event_loop().run_until_complete(main())
    for problem in found:
        print('C05 VIOLATED (unchanged tree):', problem)
    sys.exit(1 if found else 0)
