# -*- coding: utf-8 -*-
"""Histories / inputs for which the UNCHANGED tree already deviates from the C12 statement.

Run as:  PYTHONPATH=<tree>/src /venv/bin/python already-failing.py
Prints one line per finding, exits 1 if at least one finding reproduces.
"""
import asyncio
import sys

import plumpy

findings = []


def run_in_process(define, body):
    """Run ``body(proc)`` as the ``run`` of a fresh Process class whose spec is set up by ``define(spec)``."""
    box = {}

    class Proc(plumpy.Process):
        @classmethod
        def define(cls, spec):
            super().define(spec)
            define(spec)

        def run(self):
            box['ret'] = body(self)

    proc = Proc()
    try:
        proc.execute()
    except Exception as exc:  # the process excepted: hand the exception back
        box['exc'] = exc
    return proc, box


# 1. The empty tuple IS the UNSPECIFIED sentinel (``ports.UNSPECIFIED = ()`` and CPython has one empty tuple):
#    on an optional port it is stored without type check and without running the validator.
def define1(spec):
    spec.output('n', valid_type=int, required=False, validator=lambda value, port: 'never acceptable')


def body1(proc):
    proc.out('n', ())  # neither an int nor acceptable to the validator


proc, box = run_in_process(define1, body1)
if 'exc' not in box and proc.outputs == {'n': ()} and proc.is_successful:
    findings.append("1. out('n', ()) on an optional int port with an always-failing validator is stored; process successful")


#    ... and on a required port of type tuple the (valid) empty tuple is rejected as 'not provided'
def define1b(spec):
    spec.output('t', valid_type=tuple)


def body1b(proc):
    try:
        proc.out('t', ())
    except ValueError as exc:
        return str(exc)


proc, box = run_in_process(define1b, body1b)
if box.get('ret'):
    findings.append(f"1b. out('t', ()) on a required tuple port is rejected: {box['ret']}")


# 2. Emission mutates the class level (sealed) spec: what one process emitted -- even an emission that was REJECTED --
#    decides what the next process of the same class may emit.
class Dyn(plumpy.Process):
    script = ()
    log = None

    @classmethod
    def define(cls, spec):
        super().define(spec)
        spec.outputs.dynamic = True
        spec.outputs.valid_type = int

    def run(self):
        for port, value in self.script:
            try:
                self.out(port, value)
                self.log.append((port, 'stored'))
            except Exception as exc:
                self.log.append((port, f'{type(exc).__name__}'))


first = Dyn()
first.script, first.log = [('a.b', 'not an int')], []  # rejected (fine) ...
first.execute()
second = Dyn()
second.script, second.log = [('a', 5)], []  # ... but an int on the dynamic port 'a' is now refused
second.execute()
if first.log == [('a.b', 'ValueError')] and second.log == [('a', 'ValueError')] and first.outputs == {}:
    findings.append(
        "2. after a REJECTED out('a.b', 'x') in one process, out('a', 5) of another process of the class is refused "
        "(dynamic int namespace): the namespace 'a' created for the rejected value stays in the class spec"
    )


# 3. A rejected emission does not always raise ValueError: a path through a declared (leaf) port raises TypeError
def define3(spec):
    spec.output('leaf', required=False)


def body3(proc):
    try:
        proc.out('leaf.x', 1)
    except Exception as exc:
        return type(exc).__name__


proc, box = run_in_process(define3, body3)
if box.get('ret') not in (None, 'ValueError'):
    findings.append(f"3. out('leaf.x', 1) below a declared leaf port raises {box['ret']}, not ValueError")


# 4. A KeyError escaping from a port validator is taken for 'no such port': in a dynamic namespace the value is then
#    stored as a dynamic output although the declared port never accepted it
def define4(spec):
    spec.outputs.dynamic = True
    spec.output('d', required=False, validator=lambda value, port: None if value['must'] else 'no')


def body4(proc):
    proc.out('d', {'other': 1})  # the validator raises KeyError('must')


seen = []


class Listener(plumpy.ProcessListener):
    def on_output_emitted(self, process, output_port, value, dynamic):
        seen.append((output_port, dynamic))


box = {}


class Proc4(plumpy.Process):
    @classmethod
    def define(cls, spec):
        super().define(spec)
        define4(spec)

    def run(self):
        body4(self)
        box['outputs'] = dict(self.outputs)


proc = Proc4()
proc.add_process_listener(Listener())
try:
    proc.execute()
except Exception:
    pass
if box.get('outputs') == {'d': {'other': 1}} and seen == [('d', True)]:
    findings.append("4. a validator raising KeyError makes out() store the value as a *dynamic* output of a declared port")

for finding in findings:
    print('ALREADY FAILING:', finding)
print(f'{len(findings)} finding(s)')
sys.exit(1 if findings else 0)
