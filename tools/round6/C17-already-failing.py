# -*- coding: utf-8 -*-
"""C17: two histories for which the UNCHANGED tree already departs from the property statement.

Run as: PYTHONPATH=<tree>/src /venv/bin/python already-failing.py   (exits 1 when a violation is observed)

1. PicklePersister names a checkpoint file '<pid>.pickle' or '<pid>.<tag>.pickle' and never compares the pid/tag stored
   in the file with what was asked for.  So a continue task for (pid='a', tag='b') -- a process that was never
   persisted -- silently resumes the untagged checkpoint of the process with pid 'a.b' (likewise pid=1,tag='5' vs the
   float pid 1.5, or pid 7 vs pid '7').  "A continue task resumes exactly the persisted checkpoint (of the requested
   tag)" / a task that cannot be honoured should fail.  The InMemoryPersister raises KeyError for the same history.

2. The launcher's configured object loader is used for the process class only: ``Process.recreate_state`` loads the
   nested state with a fresh ``LoadSaveContext(process=self)`` (no loader), so ``_ensure_object_loader`` builds a NEW
   loader by calling the class named in the checkpoint without arguments.  With a configured loader whose class needs
   constructor arguments (or carries per-instance configuration) a create(persist)+continue history fails with
   TypeError (or uses a differently configured loader): "the configured object loader is the one used" does not hold
   for the continue task.
"""

import asyncio
import sys
import tempfile

import plumpy
from plumpy import process_comms as pc


class P(plumpy.Process):
    @classmethod
    def define(cls, spec):
        super().define(spec)
        spec.outputs.dynamic = True

    def run(self):
        self.out('ran_as', str(self.pid))


class RegistryLoader(plumpy.DefaultObjectLoader):
    """A loader that is configured per instance"""

    def __init__(self, registry):
        self.registry = registry


async def main():
    problems = []

    with tempfile.TemporaryDirectory() as directory:
        launcher = plumpy.ProcessLauncher(persister=plumpy.PicklePersister(directory))
        await launcher(None, pc.create_create_body(P, init_kwargs={'pid': 'a.b'}, persist=True))
        try:
            reply = await launcher(None, pc.create_continue_body('a', tag='b'))
        except Exception as exc:
            print('1. continue(pid="a", tag="b") refused:', repr(exc))
        else:
            problems.append(f'1. continue(pid="a", tag="b") was never persisted, yet replied {reply!r}')

    loader = RegistryLoader({})
    launcher = plumpy.ProcessLauncher(persister=plumpy.InMemoryPersister(loader=loader), loader=loader)
    pid = await launcher(None, pc.create_create_body(P, persist=True, loader=loader))
    try:
        reply = await launcher(None, pc.create_continue_body(pid))
        print('2. continue with the configured loader replied', reply)
    except TypeError as exc:
        problems.append(f'2. continue did not use the configured loader instance but tried to build another: {exc!r}')

    return problems


if __name__ == '__main__':
    found = asyncio.run(main())
    for line in found:
        print('VIOLATION (unchanged tree):', line)
    sys.exit(1 if found else 0)
