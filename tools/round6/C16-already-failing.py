# -*- coding: utf-8 -*-
"""UNCHANGED tree: a `pause` / `kill` control broadcast without a body is not equivalent to the direct call.

`RemoteProcessThreadController.play_all` sends its broadcast with ``body=None``, so a body-less control broadcast is a
legal shape, and the RPC variants cope with a message that has no text (``msg.get(MESSAGE_TEXT_KEY, None)``).  But
``Process.broadcast_receive`` does ``msg.get(...)`` on the body for the subjects ``pause`` and ``kill``: with
``body=None`` it raises ``AttributeError`` at receipt, so the process is neither paused nor killed (and with an
in-process communicator the exception even propagates into the sender and stops the delivery to the remaining
subscribers), whereas the corresponding direct calls ``pause(None)`` / ``kill(None)`` work.

Exits 1 when the violation is observed (which is the case on the unchanged tree), 0 otherwise.
"""

import asyncio
import sys

import kiwipy

import plumpy
from plumpy import process_states
from plumpy.process_comms import Intent


class Waiter(plumpy.Process):
    def run(self):
        return process_states.Wait(self.finish)

    def finish(self):
        pass


async def settle(rounds=20):
    for _ in range(rounds):
        await asyncio.sleep(0)


async def main():
    problems = []
    comm = kiwipy.LocalCommunicator()
    direct, remote = Waiter(), Waiter(communicator=comm)
    loop = asyncio.get_event_loop()
    tasks = [loop.create_task(direct.step_until_terminated()), loop.create_task(remote.step_until_terminated())]
    for _ in range(200):
        if all(p.state == process_states.ProcessState.WAITING for p in (direct, remote)):
            break
        await asyncio.sleep(0)
    await settle()

    for subject, call, seen in (
        (Intent.PAUSE, lambda: direct.pause(None), lambda p: p.paused),
        (Intent.KILL, lambda: direct.kill(None), lambda p: p.state.value),
    ):
        call()
        try:
            comm.broadcast_send(None, subject=subject)
        except Exception as exc:
            print(f'broadcast {subject!r} without body raised in the sender: {type(exc).__name__}: {exc}')
        await settle()
        print(f'{subject}: direct -> {seen(direct)!r}, body-less broadcast -> {seen(remote)!r}')
        if seen(direct) != seen(remote):
            problems.append(f'{subject}: direct call gives {seen(direct)!r}, the body-less broadcast {seen(remote)!r}')

    for proc in (direct, remote):
        if not proc.has_terminated():
            proc.play()
            proc.kill()
    await asyncio.gather(*tasks)
    return problems


if __name__ == '__main__':
    found = asyncio.run(main())
    if found:
        print('\nVIOLATION (unchanged tree):')
        for item in found:
            print('  -', item)
        sys.exit(1)
    print('\nno difference observed')
