# -*- coding: utf-8 -*-
"""Hooks of a process that run OUTSIDE any process scope on the UNCHANGED tree (borderline w.r.t. C18: "hook").

1. ``init()`` ("common initialisation logic, after create or load") is called by ``StateMachineMeta.__call__`` / ``recreate_from``
   after the scoped ``transition_to``: inside it ``Process.current()`` is the constructing process (or None), whereas the
   ``on_create`` hook that ran a moment earlier in the same constructor call saw the new process.
2. ``callback_excepted()`` (overridable, called by ``ProcessCallback.run`` when a ``call_soon`` callback raises) runs after
   ``_run_task`` popped the scope: it sees whatever process scheduled the callback (or None), until it reaches ``fail()``.
3. ``State.interrupt()`` of the current state (overridden by custom waiting states) is called from ``pause()``/``kill()`` unscoped
   (read off the code, not exercised below).
Exits 1 if any of these is observed.
"""
import asyncio
import sys

import plumpy
from plumpy import Process

plumpy.set_event_loop_policy()
seen = {}


class Child(Process):
    def on_create(self):
        super().on_create()
        seen['on_create'] = (self, Process.current())

    def init(self):
        super().init()
        seen['init'] = (self, Process.current())

    def callback_excepted(self, callback, exception, trace):
        seen['callback_excepted'] = (self, Process.current())
        super().callback_excepted(callback, exception, trace)

    async def run(self):
        await asyncio.sleep(0.01)


def boom():
    raise RuntimeError('boom')


class Parent(Process):
    async def run(self):
        child = Child()  # constructed inside the parent's step
        child.call_soon(boom)  # scheduled from the parent's step
        await asyncio.sleep(0.01)


Parent().execute()

bad = [f'{hook}: hook of {proc} ran with Process.current() = {cur}' for hook, (proc, cur) in seen.items() if cur is not proc]
for line in bad:
    print('  -', line)
print('observed hooks:', sorted(seen))
sys.exit(1 if bad else 0)
