"""Borderline observation on the UNCHANGED tree (documented behaviour, see Process._forget_withdrawn_requests): a kill that is
pending when the task driving the process is cancelled is dropped -- the future handed back by kill() is cancelled and the
process stays alive (WAITING) until somebody kills it again.  Task cancellation is a fault, not one of the control requests
the property quantifies over, so this may well be outside the property; exits 1 when the kill was dropped."""
import asyncio
import sys

import plumpy
from plumpy import ProcessState


class Waiter(plumpy.Process):
    async def run(self):
        return plumpy.Wait(self.done)

    def done(self):
        return 'done'


async def main():
    proc = Waiter()
    task = asyncio.ensure_future(proc.step_until_terminated())
    while proc.state != ProcessState.WAITING:
        await asyncio.sleep(0)
    fut = proc.kill('kill me')
    task.cancel()  # e.g. the timeout of asyncio.wait_for(proc.step_until_terminated(), ...)
    try:
        await task
    except asyncio.CancelledError:
        pass
    await asyncio.sleep(0.05)
    print('state:', proc.state, '| kill() future:', fut)
    return 0 if proc.killed() else 1


if __name__ == '__main__':
    loop = asyncio.new_event_loop()
    asyncio.set_event_loop(loop)
    sys.exit(loop.run_until_complete(main()))
