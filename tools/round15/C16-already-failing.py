# -*- coding: utf-8 -*-
"""BORDERLINE observations on the UNCHANGED tree for C16 (whether they violate the statement depends on how strictly
"control message" and "completed transition" are read).  Exits 1 when both are observed, 0 otherwise.

1. A ``pause`` (or ``kill``) broadcast without a body -- the shape ``play_all`` uses for ``play`` -- is not equivalent to
   ``pause()``: ``broadcast_receive`` does ``msg.get(...)`` on ``None``; the process is not paused and, with a communicator
   that delivers synchronously, the ``AttributeError`` comes out of the sender's ``broadcast_send``.
2. When the ``on_waiting`` hook of the process raises, the announcements read ``created.running`` then
   ``waiting.excepted``: the process is announced as leaving WAITING although ``running.waiting`` was never announced.
"""

import asyncio
import sys

import kiwipy

import plumpy

loop = asyncio.new_event_loop()
asyncio.set_event_loop(loop)
comm = kiwipy.LocalCommunicator()
subjects = []
comm.add_broadcast_subscriber(lambda c, body, sender, subject, correlation_id: subjects.append(subject))

observed = 0

proc = plumpy.Process(communicator=comm, loop=loop)
try:
    comm.broadcast_send(None, subject='pause')
    outcome = 'delivered'
except AttributeError as exc:
    outcome = f'AttributeError: {exc}'
loop.run_until_complete(asyncio.sleep(0.01))
print(f'1. body-less pause broadcast: {outcome}; paused={proc.paused} (direct pause() gives paused=True)')
observed += not proc.paused
proc.kill()


class Hooky(plumpy.Process):
    def run(self):
        return plumpy.Wait(self.finish)

    def finish(self):
        pass

    def on_waiting(self):
        super().on_waiting()
        raise RuntimeError('hook failed')


del subjects[:]
proc = Hooky(communicator=comm, loop=loop)
loop.run_until_complete(proc.step_until_terminated())
print(f'2. failing on_waiting hook: state={proc.state}, announced={subjects}')
observed += 'state_changed.running.waiting' not in subjects and 'state_changed.waiting.excepted' in subjects

sys.exit(1 if observed == 2 else 0)
