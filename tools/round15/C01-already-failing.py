"""Unchanged tree: a broker fault of a kind that Process.on_entered does not tolerate moves a FINISHED process on to
EXCEPTED.  on_entered() tolerates ConnectionClosed, ChannelInvalidStateError, CommunicatorClosed and TimeoutError from
broadcast_send(); any other failure of the broadcast (here a builtin ConnectionResetError, as a transport may raise) is
raised after the terminal state was entered and is routed to EXCEPTED by transition_failed() (the initial state of the
transition was RUNNING, so the terminal-state guard does not apply).  No hook of the process raises.
Exits 1 when FINISHED -> EXCEPTED is observed (it is, on the unchanged tree), 0 otherwise.
"""
import asyncio
import logging
import sys

import plumpy
from plumpy import processes
from plumpy.base.state_machine import StateEventHook

logging.disable(logging.CRITICAL)


class Comm:
    broken = False

    def add_rpc_subscriber(self, subscriber, identifier=None):
        return identifier

    def add_broadcast_subscriber(self, subscriber, identifier=None):
        return identifier

    def remove_rpc_subscriber(self, identifier):
        pass

    def remove_broadcast_subscriber(self, identifier):
        pass

    def broadcast_send(self, body, sender=None, subject=None, correlation_id=None):
        if self.broken and subject.endswith('.finished'):
            raise ConnectionResetError('connection reset by peer')
        return True


class Simple(processes.Process):
    def run(self):
        return 5


class Recorder(plumpy.ProcessListener):
    def on_process_finished(self, process, outputs):
        log.append(process.state)  # told that it finished: the state says FINISHED at this point


comm = Comm()
proc = Simple(communicator=comm)
log = [proc.state]
proc.add_state_event_callback(StateEventHook.ENTERED_STATE, lambda machine, _h, _s: log.append(machine.state))
proc.add_process_listener(Recorder())
comm.broken = True
try:
    asyncio.get_event_loop().run_until_complete(proc.step_until_terminated())
except BaseException as exception:  # noqa: BLE001
    print('stepping raised', repr(exception))
print('states entered:', [state.value for state in log])
if 'finished' in [state.value for state in log[:-1]] and proc.state.value != 'finished':
    print('VIOLATION: the state changed after FINISHED was entered')
    sys.exit(1)
print('ok')
