# -*- coding: utf-8 -*-
"""Histories for which the UNCHANGED tree already violates C09 (exit 1 if any of them is observed, 0 otherwise).

Case 1: a checkpoint written from within an ``elif_`` predicate.  ``_IfStepper.step`` advances ``self._pos`` while it walks
        the conditionals and does not reset it when it starts walking: a checkpoint taken while the 2nd predicate runs is
        saved with ``_pos == 1`` and no body stepper; the process recreated from it walks the conditionals again from the
        first one but keeps counting from 1, so it ends up one branch too far (the ``else_`` body runs although the
        ``elif_`` predicate said yes -- or no branch at all if there is no ``else_``).

Case 2: a step written in the outline as ``Parent.step`` by a subclass that overrides ``step``.  A fresh run calls the
        function written in the outline, a process recreated from a checkpoint calls the override
        (``_FunctionStepper.load_instance_state`` looks the function up by NAME on the class of the workchain).
"""

import sys

import plumpy
from plumpy import WorkChain, if_

TRACE = []
PERSISTER = plumpy.InMemoryPersister()


class ElifCheckpoint(WorkChain):
    @classmethod
    def define(cls, spec):
        super().define(spec)
        spec.outline(cls.start, if_(cls.is_a)(cls.do_a).elif_(cls.is_b)(cls.do_b).else_(cls.do_c), cls.end)

    def start(self):
        TRACE.append('start')

    def is_a(self):
        TRACE.append('is_a')
        return False

    def is_b(self):
        TRACE.append('is_b')
        if not self.ctx.get('saved', False):
            self.ctx.saved = True
            PERSISTER.save_checkpoint(self, 'in-elif')
        return True

    def do_a(self):
        TRACE.append('do_a')

    def do_b(self):
        TRACE.append('do_b')

    def do_c(self):
        TRACE.append('do_c')

    def end(self):
        TRACE.append('end')


class Parent(WorkChain):
    @classmethod
    def define(cls, spec):
        super().define(spec)
        spec.outline(cls.prepare, cls.work)

    def prepare(self):
        TRACE.append('Parent.prepare')
        if not self.ctx.get('saved', False):
            self.ctx.saved = True
            PERSISTER.save_checkpoint(self, 'in-prepare')

    def work(self):
        TRACE.append('Parent.work')


class Child(Parent):
    @classmethod
    def define(cls, spec):
        super().define(spec)
        # first what the parent prepares, then our own preparation
        spec.outline(Parent.prepare, cls.prepare, cls.work)

    def prepare(self):
        TRACE.append('Child.prepare')


def main():
    failures = []

    # Case 1
    del TRACE[:]
    proc = ElifCheckpoint()
    proc.execute()
    fresh = list(TRACE)
    assert fresh == ['start', 'is_a', 'is_b', 'do_b', 'end'], fresh
    del TRACE[:]
    loaded = PERSISTER.load_checkpoint(proc.pid, 'in-elif').unbundle()
    loaded.execute()
    # (the process recreated in the middle of the if_ may ask the predicates again, but it must end up in the elif_ body)
    if 'do_b' not in TRACE or 'do_c' in TRACE:
        failures.append(f'case 1: recreated inside the elif_ predicate the chain ran {TRACE} (fresh run: {fresh})')

    # Case 2
    del TRACE[:]
    proc = Child()
    proc.execute()
    fresh = list(TRACE)
    assert fresh == ['Parent.prepare', 'Child.prepare', 'Parent.work'], fresh
    del TRACE[:]
    loaded = PERSISTER.load_checkpoint(proc.pid, 'in-prepare').unbundle()
    loaded.execute()
    if TRACE != fresh:
        failures.append(f'case 2: recreated inside the first step the chain ran {TRACE} (fresh run: {fresh})')

    for failure in failures:
        print('ALREADY FAILING --', failure)
    return 1 if failures else 0


if __name__ == '__main__':
    sys.exit(main())
