# -*- coding: utf-8 -*-
"""Histories/inputs for which the UNCHANGED tree already violates C12 (exits 1 and says what went wrong).

1. ``UNSPECIFIED`` is the empty tuple ``()``, which CPython keeps as a singleton: *every* empty tuple ``is UNSPECIFIED``.
   ``Port.validate`` skips the type check and the validator for a value that ``is UNSPECIFIED``, so ``out('count', ())`` on
   an optional port declared ``valid_type=int`` (with a validator that refuses everything, too) is stored, announced, and
   the process is reported successful with ``{'count': ()}``.  (On a required port the same value is refused as
   "required value was not provided", which is wrong in the other direction for a port of ``valid_type=tuple``.)

2. ``Process.out`` looks the port up and validates the value inside one ``try: ... except KeyError``: a ``KeyError`` that
   comes out of the *validator* of a declared port is taken for "no such port", and the value is then judged by the dynamic
   rules of the namespace instead.  In a dynamic namespace the value is stored (and announced as ``dynamic=True``) although
   the validator of its port never accepted it; the final validation then hits the same KeyError and the process ends
   EXCEPTED, not FINISHED.
"""

import sys

import plumpy

problems = []


def refuse_everything(value, port):
    return 'this port accepts nothing'


def needs_key(value, port):
    return None if value['key'] > 0 else 'key must be positive'


class EmptyTuple(plumpy.Process):
    @classmethod
    def define(cls, spec):
        super().define(spec)
        spec.output('count', valid_type=int, required=False, validator=refuse_everything)

    async def run(self):
        try:
            self.out('count', ())
        except ValueError:
            pass
        else:
            problems.append(f'1. out("count", ()) stored an empty tuple on an int port: outputs={self.outputs!r}')


proc = EmptyTuple()
proc.execute()
if proc.is_successful and proc.outputs:
    problems.append(f'1. process reported successful with outputs {proc.outputs!r}')


class MaskedKeyError(plumpy.Process):
    @classmethod
    def define(cls, spec):
        super().define(spec)
        spec.outputs.dynamic = True
        spec.output('data', valid_type=dict, required=False, validator=needs_key)

    async def run(self):
        try:
            self.out('data', {})  # the validator does not accept this: it fails with a KeyError
        except Exception:  # noqa: BLE001
            pass
        else:
            problems.append(f'2. out("data", {{}}) was stored although the validator of the port failed: {self.outputs!r}')


proc = MaskedKeyError()
try:
    proc.execute()
except Exception:  # noqa: BLE001
    pass
if proc.state != plumpy.ProcessState.FINISHED:
    problems.append(f'2. process ended {proc.state} with outputs {proc.outputs!r}')

if problems:
    print('C12 VIOLATED on this tree:')
    for problem in problems:
        print('  -', problem)
    sys.exit(1)

print('ok')
sys.exit(0)
