# -*- coding: utf-8 -*-
"""Histories for which the UNCHANGED tree already departs from the C17 statement.

Run as: PYTHONPATH=<tree>/src /venv/bin/python already-failing.py   (exits 1 and prints what it found)

1. PicklePersister names the file of a checkpoint ``<pid>.<tag>.pickle`` (``<pid>.pickle`` without tag), so the untagged
   checkpoint of the process with pid 'job.retry' and the checkpoint tagged 'retry' of the process with pid 'job' are
   the same file: a create task for the one overwrites the other, and a continue task for (pid='job', tag='retry')
   resumes a different process than the persisted checkpoint of that tag.  (InMemoryPersister keeps them apart.)

2. With a custom loader INSTANCE configured everywhere (persister and launcher), a continue task loads the process
   class through that instance, but the state of the process (and whatever hangs below it) is loaded through a NEW,
   argument-less instance of the loader's class: ``Process.recreate_state`` starts from a load context without loader and
   ``_ensure_object_loader`` then instantiates the class recorded in the checkpoint.  A loader that carries
   configuration (here: it must be told which identifiers it may load) is therefore not "the one used".
"""

import asyncio
import sys
import tempfile

import plumpy
from plumpy import process_comms


class Job(plumpy.Process):
    @classmethod
    def define(cls, spec):
        super().define(spec)
        spec.input('name')
        spec.output('name')

    async def run(self):
        self.out('name', self.inputs.name)


class CountingLoader(plumpy.DefaultObjectLoader):
    instances = []

    def __init__(self, label='made by somebody else'):
        self.label = label
        self.loaded = []
        CountingLoader.instances.append(self)

    def load_object(self, identifier):
        self.loaded.append(identifier)
        return super().load_object(identifier)


async def main():
    problems = []

    # 1. file name collision between (pid 'job', tag 'retry') and (pid 'job.retry', no tag)
    with tempfile.TemporaryDirectory() as directory:
        persister = plumpy.PicklePersister(directory)
        launcher = plumpy.ProcessLauncher(persister=persister)
        pid = await launcher(
            None, process_comms.create_create_body(Job, init_kwargs={'inputs': {'name': 'first'}, 'pid': 'job'}, persist=True)
        )
        # the application tags a checkpoint of that process
        persister.save_checkpoint(persister.load_checkpoint(pid).unbundle(), tag='retry')
        # ... and somebody creates an unrelated process whose pid is 'job.retry'
        await launcher(
            None,
            process_comms.create_create_body(Job, init_kwargs={'inputs': {'name': 'second'}, 'pid': 'job.retry'}, persist=True),
        )
        reply = await launcher(None, process_comms.create_continue_body('job', tag='retry', nowait=False))
        if reply != {'name': 'first'}:
            problems.append(f"1. continue(pid='job', tag='retry') replied {reply!r}: it resumed the checkpoint of process 'job.retry'")

    # 2. the configured loader instance is not the one that loads the state
    configured = CountingLoader('configured')
    persister = plumpy.InMemoryPersister(loader=configured)
    launcher = plumpy.ProcessLauncher(persister=persister, loader=configured)
    pid = await launcher(
        None, process_comms.create_create_body(Job, init_kwargs={'inputs': {'name': 'x'}}, persist=True, loader=configured)
    )
    before = len(CountingLoader.instances)
    await launcher(None, process_comms.create_continue_body(pid, nowait=False))
    others = CountingLoader.instances[before:]
    if others:
        loaded = [identifier for other in others for identifier in other.loaded]
        problems.append(
            f'2. the continue task made {len(others)} more loader(s) of the configured class and loaded {loaded} through them '
            f'(the configured instance loaded {configured.loaded[-1:]} only)'
        )

    return problems


if __name__ == '__main__':
    found = asyncio.run(main())
    for problem in found:
        print('ALREADY FAILING:', problem)
    sys.exit(1 if found else 0)
