# -*- coding: utf-8 -*-
"""
C19: inputs for which the UNCHANGED tree already violates "every member declared with auto_persist is restored".

Run as `PYTHONPATH=<tree>/src /venv/bin/python already-failing.py`; prints one line per finding and exits 1 if any of
them reproduces (it does on the unchanged tree).

1) Multiple inheritance: `_auto_persist` is looked up through the MRO, so a class with two Savable bases that each
   declare members only inherits the declarations of the FIRST base; the members of the second base are neither saved
   nor restored (persistence.py: auto_persist decorator / Savable.auto_persist start from `cls._auto_persist`).
2) A subclass of SavableFuture that declares further members: they are saved, but SavableFuture.recreate_from builds
   the object with `cls(loop=loop)` and never calls load_instance_state/load_members, so the members come back with
   whatever __init__ sets (persistence.py: SavableFuture.recreate_from).
3) A member holding a bound PRIVATE (name mangled) method: saved under `value.__name__` ('__step'), looked up at load
   time with getattr(self, '__step'), which does not exist (the attribute is `_Cls__step`) -> AttributeError
   (persistence.py: Savable.save_members / _get_value).
"""

import asyncio
import sys

import plumpy
from plumpy import persistence

findings = []


# 1) ------------------------------------------------------------------------------------------------------------------
@plumpy.auto_persist('a')
class A(plumpy.Savable):
    pass


@plumpy.auto_persist('b')
class B(plumpy.Savable):
    pass


@plumpy.auto_persist('c')
class C(A, B):
    def __init__(self):
        self.a, self.b, self.c = 1, 2, 3


saved = C().save()
loaded = plumpy.Savable.load(saved)
if 'b' not in saved or getattr(loaded, 'b', None) != 2:
    findings.append(f"1) member 'b' declared by the second base is lost: saved keys {sorted(saved)}, loaded {vars(loaded)}")


# 2) ------------------------------------------------------------------------------------------------------------------
@plumpy.auto_persist('label')
class LabelledFuture(persistence.SavableFuture):
    def __init__(self, *args, **kwargs):
        super().__init__(*args, **kwargs)
        self.label = 'unset'


loop = asyncio.new_event_loop()
asyncio.set_event_loop(loop)
future = LabelledFuture(loop=loop)
future.label = 'hello'
saved = future.save()
loaded = plumpy.Savable.load(saved, plumpy.LoadSaveContext(loop=loop))
if loaded.label != 'hello':
    findings.append(f"2) SavableFuture subclass: saved label {saved.get('label')!r}, loaded label {loaded.label!r}")
loop.close()


# 3) ------------------------------------------------------------------------------------------------------------------
@plumpy.auto_persist('callback')
class Private(plumpy.Savable):
    def __init__(self):
        self.callback = self.__step

    def __step(self):
        return 'step'


saved = Private().save()
try:
    loaded = plumpy.Savable.load(saved)
    if loaded.callback.__self__ is not loaded or loaded.callback() != 'step':
        findings.append('3) private method not rebound to the loaded object')
except AttributeError as exc:
    findings.append(f'3) bound private method saved as {saved["callback"]!r} cannot be rebound: AttributeError({exc})')

for finding in findings:
    print('ALREADY FAILING:', finding)
sys.exit(1 if findings else 0)
