"""Histories for which the UNCHANGED tree already violates the C02 statement (exit code 1 when at least one does).

1. close(), then kill(): ``close()`` is public ("this process should not be ran anymore ... the state of the process will
   still be accessible") and drops the state event hooks; a later ``kill()`` still moves the process to KILLED, but with
   the hooks gone ``on_kill``/``on_killed`` never run: the future stays pending for ever and no listener is told.
2. A cleanup that calls ``close()`` (``_closed`` is only set after the cleanups have run, so the nested ``close()`` starts
   the whole list again): the cleanups run hundreds of times (until the recursion limit) instead of exactly once.
3. (fault) A termination hook that raises after FINISHED was entered (here ``on_terminated`` after ``super()``): the
   process ends EXCEPTED, but listeners got 'finished' AND 'excepted', and the future handed out before (already
   resolved to the outputs) was replaced, so its holders see a successful outcome of an EXCEPTED process.
"""
import asyncio
import logging
import sys

import plumpy
from plumpy import Process, ProcessState

logging.disable(logging.CRITICAL)
violations = []


class Recorder(plumpy.ProcessListener):
    def __init__(self):
        super().__init__()
        self.terminal = []

    def on_process_finished(self, process, outputs):
        self.terminal.append('finished')

    def on_process_excepted(self, process, reason):
        self.terminal.append('excepted')

    def on_process_killed(self, process, msg):
        self.terminal.append('killed')


class Simple(Process):
    def run(self):
        return 5


loop = asyncio.new_event_loop()
asyncio.set_event_loop(loop)

# 1. close(), then kill()
proc = Simple(loop=loop)
recorder = Recorder()
proc.add_process_listener(recorder)
proc.close()
answer = proc.kill('no longer needed')
if proc.state == ProcessState.KILLED and not proc.future().done():
    violations.append(f'1: kill() -> {answer}, state KILLED, but the future is still pending; notifications: {recorder.terminal}')

# 2. a cleanup that closes the process
proc = Simple(loop=loop)
calls = []


def cleanup():
    calls.append(1)
    proc.close()


proc.add_cleanup(cleanup)
loop.run_until_complete(proc.step_until_terminated())
if len(calls) != 1:
    violations.append(f'2: state {proc.state}, the cleanup ran {len(calls)} times')


# 3. a termination hook failing after the process was finished and closed
class LateFailure(Simple):
    def on_terminated(self):
        super().on_terminated()
        if self.state == ProcessState.FINISHED:
            raise RuntimeError('could not release the lock')


proc = LateFailure(loop=loop)
recorder = Recorder()
proc.add_process_listener(recorder)
held = proc.future()
loop.run_until_complete(proc.step_until_terminated())
if len(recorder.terminal) != 1 or (held.done() and not held.cancelled() and held.exception() is None):
    violations.append(
        f'3: state {proc.state}, terminal notifications {recorder.terminal}, the future obtained before the run '
        f'resolved to {held.result()!r} (process.future() is a different object: {proc.future() is not held})'
    )

loop.close()
if violations:
    print('C02 violated on this tree:')
    for violation in violations:
        print('  -', violation)
    sys.exit(1)
print('none of the three histories violates C02 on this tree')
