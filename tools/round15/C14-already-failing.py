# -*- coding: utf-8 -*-
"""Unchanged tree: a long (separator-free) string id can be stored by the InMemoryPersister but not by the
PicklePersister, whose file name '<pid>.<tag>.pickle' exceeds the 255 byte limit of the file system (OSError ENAMETOOLONG).
The two bundled persisters are then not observationally equivalent.  Exits 1 when the divergence is observed."""
import sys
import tempfile

import plumpy


class Proc(plumpy.Process):
    def run(self):
        pass


pid = 'p' * 250
proc = Proc(pid=pid)
outcome = {}
with tempfile.TemporaryDirectory() as directory:
    for name, persister in (('memory', plumpy.InMemoryPersister()), ('pickle', plumpy.PicklePersister(directory))):
        try:
            persister.save_checkpoint(proc, 'tag')
            outcome[name] = persister.get_checkpoints() == [plumpy.PersistedCheckpoint(pid, 'tag')]
        except Exception as exception:  # noqa: BLE001
            outcome[name] = f'{type(exception).__name__}: errno {getattr(exception, "errno", None)}'
print(outcome)
sys.exit(0 if outcome['memory'] == outcome['pickle'] else 1)
