# -*- coding: utf-8 -*-
"""Histories / inputs for which the UNCHANGED tree already departs from the statement of C15.

Run as ``PYTHONPATH=<tree>/src /venv/bin/python already-failing.py``: exits 1 and lists what it found.
"""
import sys

from plumpy.process_spec import ProcessSpec

found = []


def report(condition, message):
    if condition:
        found.append(message)
        print('ALREADY FAILING:', message)


def expose(source, destination, namespace=None, exclude=None, include=None, namespace_options=None):
    destination._expose_ports(
        process_class=None,
        source=source.inputs,
        destination=destination.inputs,
        expose_memory=destination._exposed_inputs,
        namespace=namespace,
        exclude=exclude,
        include=include,
        namespace_options=namespace_options,
    )


# 1. `dynamic` is not taken over from the source / from the options when a valid type is in play.  absorb() sets the
#    mutable properties in alphabetical order (dir()): `dynamic` first, `valid_type` later, and the `valid_type` setter
#    forces `dynamic = True`.  Holds for the target namespace and (through the recursive absorb) for nested namespaces.
source = ProcessSpec()
source.input('a')
source.inputs.valid_type = int
source.inputs.dynamic = False  # typed, but closed again
source.input('nested.x')
source.inputs['nested'].valid_type = float
source.inputs['nested'].dynamic = False
destination = ProcessSpec()
expose(source, destination, namespace='sub')
report(destination.inputs['sub'].dynamic is not False, '1a. source namespace dynamic=False, valid_type=int -> exposed dynamic=True')
report(destination.inputs['sub']['nested'].dynamic is not False, '1b. same for a nested namespace of the source')

source = ProcessSpec()
source.input('a')
source.inputs.valid_type = int
destination = ProcessSpec()
expose(source, destination, namespace='sub', namespace_options={'dynamic': False})
report(destination.inputs['sub'].dynamic is not False, "1c. namespace_options={'dynamic': False} is ignored when the source has a valid_type")

# 2. The default of a (nested or top level) namespace is shared by reference: a later in-place change shows through.
source = ProcessSpec()
source.input('a')
source.inputs.default = {'a': 1}
source.input_namespace('ns', default={'x': 1})
destination = ProcessSpec()
expose(source, destination, namespace='sub')
source.inputs.default['a'] = 2
source.inputs['ns'].default['x'] = 2
report(destination.inputs['sub'].default == {'a': 2}, '2a. default dict of the exposed top-level namespace is the object of the source')
report(destination.inputs['sub']['ns'].default == {'x': 2}, '2b. default dict of an exposed nested namespace is the object of the source')

# 3. A rejected exposure is not without effect on the destination.
source = ProcessSpec()
source.input('a')
destination = ProcessSpec()
try:
    expose(source, destination, namespace='fresh', exclude=[], include=['a'])
except ValueError:
    report('fresh' in destination.inputs, '3a. include together with an (empty) exclude is rejected, but the target namespace was created')
source.inputs.help = 'help of the source'
destination = ProcessSpec()
destination.inputs.help = 'help of the destination'
try:
    expose(source, destination, namespace_options={'bogus': 1})
except ValueError:
    report(destination.inputs.help != 'help of the destination', '3b. unsupported namespace option is rejected after the properties of the destination were overwritten')

# 4. (by the docstring of absorb, arguably by design) a nested namespace of the destination is replaced wholesale: a
#    port of the destination that no rule selected, and that the source does not have, is lost.
source = ProcessSpec()
source.input('ns.theirs')
destination = ProcessSpec()
destination.input('ns.mine')
expose(source, destination, include=['ns.theirs'])
report('mine' not in destination.inputs['ns'], '4. the port `ns.mine` of the destination is dropped when `ns.theirs` is exposed')

if found:
    print(f'{len(found)} departure(s) from C15 on this tree')
    sys.exit(1)
print('nothing found')
