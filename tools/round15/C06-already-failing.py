# -*- coding: utf-8 -*-
"""BORDERLINE observation on the UNCHANGED tree (not an interleaving of requests on one live process object, so
arguably outside the quantification of C06): a wake-up that was delivered while the process is paused is not part of a
checkpoint.  A process that is WAITING, paused and already resumed is saved and recreated; the recreated process is
played and stepped: it waits for ever, the resume value is gone (the original, played, continues fine).

Exits 1 when the recreated process stays WAITING, 0 otherwise.
"""
import asyncio
import sys

import plumpy


class WaitProc(plumpy.Process):
    def run(self):
        return plumpy.Wait(self.after_wait, msg='waiting for a wake-up')

    def after_wait(self, *args):
        self.out_args = args
        return 'done'


async def spin(n=5):
    for _ in range(n):
        await asyncio.sleep(0)


async def main():
    proc = WaitProc()
    stepper = asyncio.ensure_future(proc.step_until_terminated())
    await spin()
    result = proc.pause()
    if asyncio.isfuture(result):
        await result
    await spin()
    proc.resume('wake-up')  # delivered while paused
    bundle = plumpy.Bundle(proc)  # checkpoint: WAITING, paused, resumed

    proc.play()
    await asyncio.wait_for(asyncio.shield(proc.future()), 2.0)
    print('original :', proc.state, getattr(proc, 'out_args', None))
    await stepper

    loaded = bundle.unbundle()
    assert loaded.paused and loaded.state == plumpy.ProcessState.WAITING
    loaded.play()
    stepper2 = asyncio.ensure_future(loaded.step_until_terminated())
    try:
        await asyncio.wait_for(asyncio.shield(loaded.future()), 2.0)
    except asyncio.TimeoutError:
        print('recreated:', loaded.state, 'paused =', loaded.paused, '-> the wake-up was lost with the checkpoint')
        stepper2.cancel()
        return 1
    print('recreated:', loaded.state, getattr(loaded, 'out_args', None))
    return 0


if __name__ == '__main__':
    loop = asyncio.new_event_loop()
    asyncio.set_event_loop(loop)
    sys.exit(loop.run_until_complete(main()))
