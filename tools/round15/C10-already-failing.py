# -*- coding: utf-8 -*-
"""Candidate violation of C10 on the UNCHANGED tree.

An awaited child process whose ``on_finished`` hook (the hook that runs once the FINISHED state has been entered) raises
ends EXCEPTED: the transition into FINISHED fails *after* ``on_finish`` resolved the child's future with its outputs, and
``on_except`` then replaces that (done) future by a new one that carries the exception.  The work chain registered the
first future (``to_context`` resolves a process to its future at registration time), so it is handed the outputs as a
successful result and runs the following step although the awaited item failed.

Exits 1 if the violation is observed, 0 otherwise.
"""

import asyncio
import sys

import plumpy
from plumpy import ToContext, WorkChain

ran = []


class Child(plumpy.Process):
    async def run(self):
        await asyncio.sleep(0.01)

    def on_finished(self):
        super().on_finished()
        raise RuntimeError('the child fails in its on_finished hook')


class Wc(WorkChain):
    @classmethod
    def define(cls, spec):
        super().define(spec)
        spec.outline(cls.first, cls.second)

    def first(self):
        self.child = self.launch(Child)
        return ToContext(res=self.child)

    def second(self):
        ran.append('second')


def main():
    wc = Wc()
    try:
        wc.execute()
    except Exception as exc:
        print('work chain raised', repr(exc))
    child = wc.child
    print('child state      :', child.state, '| child.exception():', repr(child.exception()))
    print('work chain state :', wc.state, '| second step ran:', bool(ran))
    if child.is_excepted and (ran or not wc.is_excepted):
        print('VIOLATION: the awaited child ended EXCEPTED, yet the work chain ran the next step / did not end EXCEPTED')
        return 1
    return 0


if __name__ == '__main__':
    sys.exit(main())
