"""Histories / inputs for which the UNCHANGED tree already violates C03 (run with PYTHONPATH=<tree>/src).

1. An exception object that refuses attribute assignment (e.g. a frozen dataclass exception) raised by a step function:
   ``Process.on_except`` does ``exception.__traceback__ = ...``, which raises ``FrozenInstanceError``; the process ends
   EXCEPTED with *that* error instead of "exactly that exception".
2. A fault in ``on_killed`` before the base implementation ran (or in ``on_kill`` after it): ``on_kill`` has stored a
   ``KilledError`` in the process future, ``on_killed`` (which retrieves it) did not run, and ``on_except`` then replaces
   the future.  The dropped future is reported to the event loop's exception handler when it is collected
   ("SavableFuture exception was never retrieved"): something does reach the event loop.
3. (borderline) A step function that raises a bare ``plumpy.process_states.Interruption``: ``step()`` tries to build an
   interrupt action from it and the resulting ``ValueError`` escapes from ``step()``; the process stays RUNNING.
"""

import asyncio
import dataclasses
import gc
import sys
import warnings

warnings.simplefilter('ignore')

import plumpy
from plumpy import ProcessState

loop = asyncio.get_event_loop()
loop_errors = []
loop.set_exception_handler(lambda _loop, context: loop_errors.append(context.get('message')))
found = []


# --- 1 ---------------------------------------------------------------------------------------------------------------
@dataclasses.dataclass(frozen=True)
class FrozenError(Exception):
    code: int = 3


FROZEN = FrozenError(5)


class RaisesFrozen(plumpy.Process):
    def run(self):
        raise FROZEN


proc = RaisesFrozen()
loop.run_until_complete(proc.step_until_terminated())
if proc.exception() is not FROZEN:
    found.append(f'1: step raised {FROZEN!r} but the process excepted with {proc.exception()!r}')


# --- 2 ---------------------------------------------------------------------------------------------------------------
class Boom(Exception):
    pass


BOOM = Boom('on_killed failed')


class KilledHookFails(plumpy.Process):
    async def run(self):
        await asyncio.sleep(0)
        return plumpy.Wait(msg='wait to be killed')

    def on_killed(self):
        raise BOOM
        super().on_killed()  # noqa


async def kill_it(process):
    task = asyncio.ensure_future(process.step_until_terminated())
    while process.state != ProcessState.WAITING:
        await asyncio.sleep(0)
    await process.kill('enough')
    await task


proc = KilledHookFails()
loop.run_until_complete(kill_it(proc))
assert proc.state == ProcessState.EXCEPTED and proc.exception() is BOOM and proc.future().exception() is BOOM
del proc
gc.collect()
loop.run_until_complete(asyncio.sleep(0.01))
gc.collect()
if loop_errors:
    found.append(f'2: fault in on_killed: reported to the event loop: {loop_errors}')
del loop_errors[:]


# --- 3 (borderline) --------------------------------------------------------------------------------------------------
class RaisesInterruption(plumpy.Process):
    def run(self):
        raise plumpy.process_states.Interruption('raised by user code')


proc = RaisesInterruption()
try:
    loop.run_until_complete(proc.step_until_terminated())
except Exception as exception:  # noqa: BLE001
    found.append(f'3: bare Interruption from a step function: {exception!r} escaped from stepping, state {proc.state}')

for line in found:
    print('ALREADY FAILING', line)
sys.exit(1 if found else 0)
