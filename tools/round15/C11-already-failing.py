# -*- coding: utf-8 -*-
"""Two inputs / histories for which the UNCHANGED tree already departs from the C11 statement.

Exits 1 (printing what was observed) if at least one of them is still there, 0 otherwise.

1. ``UNSPECIFIED`` is the empty tuple ``()``, and CPython has exactly one empty tuple: a caller who passes ``()`` as the
   value of a port passes the "nothing given" marker. For an optional port the type check and the validator are both
   skipped (``Port.validate`` tests ``value is UNSPECIFIED``), so ``()`` is accepted for a port declared ``valid_type=int``
   and appears in ``inputs``; for a required port of type ``tuple`` the conforming value ``()`` is refused as "not
   provided". (A port declared with ``default=()`` likewise has "no default".)

2. ``AttributesFrozendict`` does not refuse attribute assignment: ``process.inputs.x = 99`` succeeds silently, at every
   namespace level, and from then on ``process.inputs.x`` (the documented way of reading an input) gives 99 while
   ``process.inputs['x']`` still gives the value that was passed: the attribute view of the inputs is not read-only.
"""

import sys

from plumpy import Process

observed = []


class Proc(Process):
    @classmethod
    def define(cls, spec):
        super().define(spec)
        spec.input('x', valid_type=int, required=False, validator=lambda value, port: 'never acceptable')
        spec.input('t', valid_type=tuple)
        spec.input_namespace('ns', dynamic=True, required=False)


# 1a. wrong type (and refused by the validator), yet a process is constructed
try:
    process = Proc(inputs={'x': (), 't': (1,)})
except ValueError:
    pass
else:
    observed.append(f"x=() accepted for a port with valid_type=int and a validator refusing everything: {dict(process.inputs)}")

# 1b. conforming value refused
try:
    Proc(inputs={'t': ()})
except ValueError as exception:
    observed.append(f't=() refused for a required port with valid_type=tuple: {exception}')

# 2. attribute assignment on the parsed inputs
process = Proc(inputs={'t': (1,), 'ns': {'k': 1}})
try:
    process.inputs.t = 99
    process.inputs.ns.k = 5
except (TypeError, AttributeError):
    pass
else:
    if process.inputs.t != (1,) or process.inputs.ns.k != 1:
        observed.append(
            f"inputs.t = 99 and inputs.ns.k = 5 were accepted: inputs.t -> {process.inputs.t!r} (inputs['t'] -> "
            f"{process.inputs['t']!r}), inputs.ns.k -> {process.inputs.ns.k!r} (inputs.ns['k'] -> {process.inputs.ns['k']!r})"
        )

if observed:
    print('unchanged tree departs from the C11 statement:')
    for line in observed:
        print('  -', line)
    sys.exit(1)
print('nothing observed')
