# -*- coding: utf-8 -*-
"""Unchanged tree: a CancellableAction whose function raises StopIteration reports nothing and does not refuse a second run.

``run()`` hands the error of the function to ``Future.set_exception``, which refuses a ``StopIteration`` with a
``TypeError``.  That ``TypeError`` comes out of ``run()`` (the outcome is not reported through the action, which stays
pending), and since the action is neither done nor running, a second ``run()`` is not refused: it calls the already
forgotten function (``None``) and ends the action with "'NoneType' object is not callable", an error nobody raised.
(The same second-run behaviour follows a function that raises a ``BaseException`` such as asyncio's ``CancelledError``.)

A hook such as ``on_pausing`` doing ``next(iterator)`` on an exhausted iterator is enough to get there through a
process: the stepping task dies with the ``TypeError`` and the sender of the pause is told "cancelled".

Exits 1 (printing what went wrong) when the behaviour described above is observed, 0 otherwise.
"""

import asyncio
import sys

from plumpy import futures


def main() -> int:
    loop = asyncio.new_event_loop()
    asyncio.set_event_loop(loop)
    status = 0

    calls = []

    def function():
        calls.append(1)
        return next(iter(()))  # StopIteration

    action = futures.CancellableAction(function, loop=loop)
    try:
        action.run()
    except BaseException as exception:
        print(f'VIOLATION: the error of the function is not reported through the action, run() raised {exception!r}')
        status = 1
    if not action.done():
        print('VIOLATION: the function ran and failed, but the action is still pending')
        status = 1
        try:
            action.run()
        except futures.InvalidStateError:
            print('ok: the second run() is refused')
        else:
            print(f'VIOLATION: the second run() is not refused, the action now ends with {action.exception()!r}')
            status = 1
    loop.close()
    return status


if __name__ == '__main__':
    sys.exit(main())
