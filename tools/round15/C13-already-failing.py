# -*- coding: utf-8 -*-
"""Histories/inputs for which the UNCHANGED tree violates the C13 statement.  Exits 1 and lists the cases that fail."""
import asyncio
import sys

import plumpy
from plumpy import process_states

loop = asyncio.get_event_loop()
CALLS = []


# 1. keyword arguments whose names collide with parameters of the state machinery
class KwNames(plumpy.Process):
    KW = {}

    def run(self):
        return process_states.Continue(self.second, **self.KW)

    def second(self, **kwargs):
        return kwargs


def case_kwargs(name):
    class Proc(KwNames):
        KW = {name: 1}

    proc = Proc()
    try:
        proc.execute()
    except Exception as exc:
        return f'Continue(f, {name}=1): process {proc.state}: {type(exc).__name__}: {exc}'
    if proc.result() != {name: 1}:
        return f'Continue(f, {name}=1): result {proc.result()!r}'
    return None


# 2. a step that is a private (name-mangled) method, with a restore before it
class Private(plumpy.Process):
    def run(self):
        return process_states.Continue(self.__second, 1)

    def __second(self, value):
        return value + 1


def case_private():
    proc = Private()
    loop.run_until_complete(proc.step())
    loop.run_until_complete(proc.step())
    try:
        restored = plumpy.Bundle(proc).unbundle()
        restored.execute()
        if restored.result() != 2:
            return f'private step after a restore: result {restored.result()!r}'
    except Exception as exc:
        return f'private step after a restore: {type(exc).__name__}: {exc}'
    return None


# 3. Continue(super().step): after a restore the step is looked up by name on the instance -> the override runs instead
class Base(plumpy.Process):
    def run(self):
        return process_states.Continue(self.finish, 1)

    def finish(self, value):
        return ('base', value)


class Derived(Base):
    def run(self):
        return process_states.Continue(super().finish, 1)

    def finish(self, value):
        return ('derived', value)


def case_super():
    proc = Derived()
    proc.execute()
    plain = proc.result()
    proc = Derived()
    loop.run_until_complete(proc.step())
    loop.run_until_complete(proc.step())
    restored = plumpy.Bundle(proc).unbundle()
    restored.execute()
    if plain != ('base', 1) or restored.result() != plain:
        return f'Continue(super().finish, 1): without restore {plain!r}, with a restore before the step {restored.result()!r}'
    return None


# 4. resume(v), then checkpoint + restore before the continuation ran: the value is gone and the restored process waits for ever
class Waiter(plumpy.Process):
    def run(self):
        return process_states.Wait(self.after)

    def after(self, *args):
        return args


def case_resume_then_checkpoint():
    proc = Waiter()
    loop.run_until_complete(proc.step())
    loop.run_until_complete(proc.step())
    assert proc.state == plumpy.ProcessState.WAITING
    proc.resume('v')
    restored = plumpy.Bundle(proc).unbundle()

    async def finish():
        await asyncio.wait_for(restored.step_until_terminated(), timeout=1.0)

    try:
        loop.run_until_complete(finish())
    except asyncio.TimeoutError:
        return f"Wait(f); resume('v'); checkpoint; restore: restored process still {restored.state}, f('v') never runs"
    if restored.result() != ('v',):
        return f'resume then checkpoint: result {restored.result()!r}'
    return None


# 5. two processes recreated from the same Bundle object share the pending step's (mutable) arguments
class Mutates(plumpy.Process):
    def run(self):
        return process_states.Continue(self.second, [1])

    def second(self, items):
        seen = list(items)
        items.append(99)
        return seen


def case_double_unbundle():
    proc = Mutates()
    loop.run_until_complete(proc.step())
    loop.run_until_complete(proc.step())
    bundle = plumpy.Bundle(proc)
    first = bundle.unbundle()
    first.execute()
    second = bundle.unbundle()
    second.execute()
    if first.result() != [1] or second.result() != [1]:
        return f'same Bundle unbundled twice: first saw {first.result()!r}, second saw {second.result()!r} (expected [1] both)'
    return None


def main():
    problems = []
    for name in ('process', 'run_fn', 'state_label'):
        problems.append(case_kwargs(name))
    problems.append(case_private())
    problems.append(case_super())
    problems.append(case_resume_then_checkpoint())
    problems.append(case_double_unbundle())
    problems = [problem for problem in problems if problem]
    for problem in problems:
        print('FAILS ON THE UNCHANGED TREE:', problem)
    if not problems:
        print('nothing fails')
    return 1 if problems else 0


if __name__ == '__main__':
    sys.exit(main())
