# -*- coding: utf-8 -*-
"""UNCHANGED tree, borderline: two overridable methods that the framework calls on a process run outside any process
scope, so ``Process.current()`` is not that process while they execute:

  * ``Process.init()`` ("common initialisation logic, after create or load"), called by the metaclass / ``recreate_from``
    after the scope of the initial transition has ended;
  * ``Process.callback_excepted()``, called by ``ProcessCallback.run`` after the scope of ``_run_task`` has ended
    (its default implementation fails the process, whose hooks *are* scoped).

Whether these count as "hooks" in the sense of the property statement is a matter of reading; the state, termination,
pause/play and close hooks, the steps and the scheduled callbacks are all fine.  Exits 1 when the observation holds.
"""

import asyncio
import sys

import plumpy
from plumpy import Process

seen = {}


class P(plumpy.Process):
    def init(self):
        super().init()
        seen['init'] = Process.current()

    def callback_excepted(self, callback, exception, trace):
        seen['callback_excepted'] = Process.current()
        super().callback_excepted(callback, exception, trace)

    async def run(self):
        await asyncio.sleep(0.05)


def boom():
    raise RuntimeError('boom')


p = P()
p.call_soon(boom)
try:
    p.execute()
except RuntimeError:
    pass

bad = [f'{name}(): Process.current() is {value!r}, not the process' for name, value in seen.items() if value is not p]
for line in bad:
    print(line)
sys.exit(1 if bad else 0)
