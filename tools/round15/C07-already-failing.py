"""Unchanged tree, two histories/inputs that already violate C07 (each: the bundle can be saved but not loaded).

Case 1: a custom object loader whose constructor takes an argument.

The loader instance is handed over in the save context AND in the load context, yet loading fails: nested
objects that are loaded with a context of their own (the state in ``Process.recreate_state``, the steppers in
``_Block/_If/_While.recreate_stepper``) do not get the loader of the enclosing load context, find the *class* of
the loader recorded in their saved state and instantiate it without arguments (``persistence._ensure_object_loader``).
A loader that carries state (a registry, a prefix, ...) is thereby also replaced by a blank instance.

Case 2: a continuation that is a private (name-mangled) method.  ``Running``/``Waiting``/``Created`` save the callable they
will run as ``fn.__name__`` and look it up with ``getattr(process, name)`` on load; for ``self.__finish`` the name of the
function is ``__finish`` but the attribute is ``_Priv__finish``, so the process can be saved in that state and not loaded
(the same holds for ``_FunctionStepper`` and an outline step ``cls.__step``).  Candidate fix: save the attribute name under
which the function is found on the class (or mangle ``__x`` names on load).

Exits 0 if both round trips work, 1 if not (neither does on the unchanged tree).
"""
import sys

import plumpy
from plumpy import loaders, persistence


class PrefixLoader(loaders.ObjectLoader):
    """Identifiers '<prefix>|module|name'; the prefix is configuration of the instance"""

    def __init__(self, prefix):
        self._prefix = prefix

    def identify_object(self, obj):
        return f'{self._prefix}|{obj.__module__}|{obj.__name__}'

    def load_object(self, identifier):
        prefix, module, name = identifier.split('|')
        if prefix != self._prefix:
            raise ValueError(f'{identifier} is not mine')
        return loaders.DefaultObjectLoader().load_object(f'{module}:{name}')


class Proc(plumpy.Process):
    async def run(self):
        return 5


class Priv(plumpy.Process):
    async def run(self):
        return plumpy.Continue(self.__finish)

    def __finish(self):
        return 1


def case2():
    import asyncio

    async def go():
        proc = Priv()
        await proc.step()
        await proc.step()  # now RUNNING, about to run __finish
        bundle = persistence.Bundle(proc)
        try:
            loaded = bundle.unbundle()
        except Exception as exc:
            print(f'case 2: a process about to run a private method cannot be loaded: {type(exc).__name__}: {exc}')
            return 1
        return 0 if loaded.state == proc.state else 1

    return asyncio.run(go())


def main():
    return max(case1(), case2())


def case1():
    loader = PrefixLoader('site-a')
    proc = Proc()
    bundle = persistence.Bundle(proc, persistence.LoadSaveContext(loader=loader))
    try:
        loaded = bundle.unbundle(persistence.LoadSaveContext(loader=loader))
    except Exception as exc:
        print(f'case 1: loading with the very loader the bundle was saved with failed: {type(exc).__name__}: {exc}')
        return 1
    bundle2 = persistence.Bundle(loaded, persistence.LoadSaveContext(loader=loader))
    if bundle2['_state'] != bundle['_state'] or loaded.pid != proc.pid:
        print('round trip differs')
        return 1
    print('ok')
    return 0


if __name__ == '__main__':
    sys.exit(main())
