"""C08: histories / inputs for which the UNCHANGED tree already violates the property (exit 1 = reproduced).

Case 1 -- a continuation is saved by NAME and rebound by ``getattr`` on load, so the function found on load need not be
the function the running instance was going to execute:
  (a) a work chain whose outline names a step function of a base class explicitly (``Base.prepare``) while the class
      that is run overrides ``prepare``: the uninterrupted run executes ``Base.prepare`` (the function in the outline),
      the run restored from the very first checkpoint executes ``Sub.prepare`` (``_FunctionStepper.load_instance_state``:
      ``getattr(self._workchain.__class__, saved_state['_fn'])``);
  (b) a plain process that continues with the implementation of its base class, ``Continue(super().second)``: after a
      restore ``Running.load_instance_state`` rebinds ``getattr(self.process, 'second')``, i.e. the override.
  Candidate fix for (a): rebind the function from the instruction (``load_context.func_spec._fn``) instead of by name.

Case 2 -- an object shared between the context and the outputs: ``self.out('log', self.ctx.log)`` followed, in a later
  step, by ``self.ctx.log.append(...)``.  Uninterrupted, the output sees the later appends (same object); the context and
  the outputs are saved as two independent deep copies, so after a restore they are different objects and the output
  keeps the value it had at the checkpoint.

Run as:  PYTHONPATH=<tree>/src python already-failing.py
"""
import sys

import plumpy
from plumpy import WorkChain

TRACE = []


class Base(WorkChain):
    @classmethod
    def define(cls, spec):
        super().define(spec)
        spec.outputs.dynamic = True
        # NB: ``Base.prepare``, not ``cls.prepare``
        spec.outline(Base.prepare, cls.finish)

    def prepare(self):
        TRACE.append('Base.prepare')
        self.ctx.value = 'base'

    def finish(self):
        TRACE.append('finish')
        self.out('value', self.ctx.value)


class Sub(Base):
    def prepare(self):
        TRACE.append('Sub.prepare')
        self.ctx.value = 'sub'


class Two(plumpy.Process):
    @classmethod
    def define(cls, spec):
        super().define(spec)
        spec.outputs.dynamic = True

    def run(self):
        TRACE.append('run')
        return plumpy.Continue(self.second)

    def second(self):
        TRACE.append('Two.second')
        self.out('who', 'base')


class TwoSub(Two):
    def run(self):
        TRACE.append('run')
        # continue with the implementation of the base class
        return plumpy.Continue(super().second)

    def second(self):
        TRACE.append('TwoSub.second')
        self.out('who', 'sub')


class Shared(WorkChain):
    @classmethod
    def define(cls, spec):
        super().define(spec)
        spec.outputs.dynamic = True
        spec.outline(cls.first, cls.second)

    def first(self):
        self.ctx.log = ['first']
        self.out('log', self.ctx.log)

    def second(self):
        self.ctx.log.append('second')


class CheckpointEveryBoundary:
    """Mixin: write a checkpoint whenever a state has been entered"""

    persister = None
    tags = None

    def on_entered(self, from_state):
        super().on_entered(from_state)
        cls = CheckpointEveryBoundary
        if cls.persister is not None and not self.has_terminated():
            tag = f'b{len(cls.tags)}'
            cls.persister.save_checkpoint(self, tag=tag)
            cls.tags.append((tag, len(TRACE)))


class SubC(CheckpointEveryBoundary, Sub):
    pass


class TwoSubC(CheckpointEveryBoundary, TwoSub):
    pass


class SharedC(CheckpointEveryBoundary, Shared):
    pass


def compare(proc_class):
    problems = []
    persister = plumpy.InMemoryPersister()
    del TRACE[:]
    CheckpointEveryBoundary.persister, CheckpointEveryBoundary.tags = None, []
    proc = proc_class()
    persister.save_checkpoint(proc, tag='created')
    CheckpointEveryBoundary.persister = persister
    proc.execute()
    CheckpointEveryBoundary.persister = None
    reference_trace, reference_outputs = list(TRACE), dict(proc.outputs)

    for tag, done in [('created', 0), *CheckpointEveryBoundary.tags]:
        del TRACE[:]
        restored = persister.load_checkpoint(proc.pid, tag).unbundle()
        restored.execute()
        if list(TRACE) != reference_trace[done:] or dict(restored.outputs) != reference_outputs:
            problems.append(
                f'{proc_class.__name__}, checkpoint {tag}: restored run executed {list(TRACE)} -> {dict(restored.outputs)}, '
                f'the uninterrupted run executed {reference_trace[done:]} -> {reference_outputs}'
            )
    return problems


def main():
    problems = []
    for proc_class in (SubC, TwoSubC, SharedC):
        problems.extend(compare(proc_class))
    for problem in problems:
        print('VIOLATION (unchanged tree):', problem)
    if not problems:
        print('nothing reproduced')
    return 1 if problems else 0


if __name__ == '__main__':
    sys.exit(main())
