# -*- coding: utf-8 -*-
"""Histories / inputs for which the UNCHANGED tree already violates C12 (exits 1 when at least one is reproduced).

1. ``UNSPECIFIED`` is the empty tuple ``()`` and CPython has exactly one empty tuple: ``Port.validate`` tests
   ``value is UNSPECIFIED``, so an emitted ``()`` (or ``tuple()``) counts as "nothing given": no type check, no validator.
   On an optional port it is stored, and the process finishes *successful* with an output of the wrong type.
2. Same cause, namespace port: ``PortNamespace.validate(())`` turns ``()`` into ``{}``, so a tuple is stored as the value of
   a namespace ('' and [] are refused there since the fix "an empty value that is not a mapping ...", ``()`` slips by).
3. ``Process.out`` wraps the lookup of the port AND its validation in one ``try ... except KeyError``: a ``KeyError`` coming
   out of the validator of a declared port (e.g. the value lacks a key the validator reads) is taken for "no such port", the
   value is then checked as an undeclared port of the namespace and, if that is dynamic, stored and announced as dynamic.
4. ``get_port(create_dynamically=True)`` adds the on-the-fly namespace to the spec of the *class*: whether an emission is
   accepted depends on what other instances emitted before (the declared spec accepts ``dyn.k = 5`` either way).
"""

import sys

import plumpy


def scenario_1():
    class P(plumpy.Process):
        @classmethod
        def define(cls, spec):
            super().define(spec)
            spec.output('number', valid_type=int, required=False, validator=lambda v, p: None if v > 0 else 'not positive')

        def run(self):
            self.out('number', tuple())

    proc = P()
    try:
        proc.execute()
    except ValueError:
        return None
    if proc.outputs == {'number': ()} and proc.is_successful:
        return f"out('number', ()) on an int port was stored: outputs={proc.outputs!r}, successful={proc.successful()}"
    return None


def scenario_2():
    class P(plumpy.Process):
        @classmethod
        def define(cls, spec):
            super().define(spec)
            spec.output_namespace('ns')
            spec.output('ns.x', valid_type=int, required=False)

        def run(self):
            self.out('ns', ())

    proc = P()
    try:
        proc.execute()
    except ValueError:
        return None
    if proc.outputs == {'ns': ()} and proc.is_successful:
        return f"out('ns', ()) on a namespace was stored: outputs={proc.outputs!r}, successful={proc.successful()}"
    return None


def scenario_3():
    def kind_is_x(value, _port):
        return None if value['kind'] == 'x' else 'wrong kind'

    told = []

    class Listener(plumpy.ProcessListener):
        def on_output_emitted(self, process, output_port, value, dynamic):
            told.append((output_port, value, dynamic))

    class P(plumpy.Process):
        outcome = None

        @classmethod
        def define(cls, spec):
            super().define(spec)
            spec.output_namespace('dyn', dynamic=True, required=False)
            spec.output('dyn.checked', required=False, validator=kind_is_x)

        def run(self):
            try:
                self.out('dyn.checked', {'no-kind': 1})
                self.outcome = 'stored'
            except Exception as exception:
                self.outcome = type(exception).__name__

    proc = P()
    proc.add_process_listener(Listener())
    try:
        proc.execute()
    except Exception:
        pass
    if proc.outcome == 'stored':
        return (
            f"out('dyn.checked', {{'no-kind': 1}}): the validator of the declared port raised KeyError, the value was stored "
            f'as a dynamic output: outputs={proc.outputs!r}, listener told {told!r}, process ended {proc.state}'
        )
    return None


def scenario_4():
    class P(plumpy.Process):
        @classmethod
        def define(cls, spec):
            super().define(spec)
            spec.input('emit')
            spec.output_namespace('dyn', valid_type=int, required=False)

        def run(self):
            self.refused = []
            for port, value in self.inputs.emit:
                try:
                    self.out(port, value)
                except ValueError as exception:
                    self.refused.append((port, value, str(exception)))

    first = P(inputs={'emit': [('dyn.k', 5)]})
    first.execute()
    second = P(inputs={'emit': [('dyn.k.nested', 1)]})
    second.execute()
    third = P(inputs={'emit': [('dyn.k', 5)]})  # exactly what the first instance emitted
    third.execute()
    if first.outputs == {'dyn': {'k': 5}} and third.refused:
        return (
            f"out('dyn.k', 5) was accepted by one instance ({first.outputs!r}) and refused for a later instance of the same "
            f'class after another instance had emitted dyn.k.nested: {third.refused[0][2]}'
        )
    return None


def main():
    found = []
    for scenario in (scenario_1, scenario_2, scenario_3, scenario_4):
        message = scenario()
        print(f'{scenario.__name__}:', message if message else 'not reproduced')
        if message:
            found.append(message)
    return 1 if found else 0


if __name__ == '__main__':
    sys.exit(main())
