# -*- coding: utf-8 -*-
"""C15: inputs for which the UNCHANGED tree already departs from the property statement.

Run as ``PYTHONPATH=<tree>/src /venv/bin/python already-failing.py``; prints one line per finding and exits 1 if any
of them reproduces (exits 0 if none does).
"""

import sys

from plumpy.process_spec import ProcessSpec

findings = []


def expose(source, destination, namespace=None, exclude=None, include=None, namespace_options=None):
    spec = ProcessSpec()
    spec._expose_ports(
        process_class=None,
        source=source,
        destination=destination,
        expose_memory=spec._exposed_inputs,
        namespace=namespace,
        exclude=exclude,
        include=include,
        namespace_options=namespace_options,
    )


# 1. "with the source namespace's properties": absorb() applies the properties in alphabetical order, `dynamic` before
#    `valid_type`, and the `valid_type` setter forces `dynamic = True`.  A source namespace that has a valid type but was
#    explicitly made non-dynamic is exposed as a dynamic namespace (also for a nested namespace).
child = ProcessSpec()
child.input('a')
child.inputs.valid_type = int
child.inputs.dynamic = False
child.input_namespace('sub', valid_type=str)
child.inputs['sub'].dynamic = False
parent = ProcessSpec()
expose(child.inputs, parent.inputs, namespace='ns')
if parent.inputs['ns'].dynamic is not child.inputs.dynamic:
    findings.append(
        f'1a. source namespace dynamic={child.inputs.dynamic}, valid_type=int -> exposed namespace '
        f"dynamic={parent.inputs['ns'].dynamic}"
    )
if parent.inputs['ns']['sub'].dynamic is not child.inputs['sub'].dynamic:
    findings.append(
        f"1b. nested source namespace dynamic={child.inputs['sub'].dynamic}, valid_type=str -> exposed nested "
        f"namespace dynamic={parent.inputs['ns']['sub'].dynamic}"
    )

#    "... unless overridden by namespace options": for the same reason the override `dynamic=False` is lost when the
#    source namespace has a valid type.
child = ProcessSpec()
child.input('a')
child.inputs.valid_type = int
parent = ProcessSpec()
expose(child.inputs, parent.inputs, namespace='ns', namespace_options={'dynamic': False})
if parent.inputs['ns'].dynamic is not False:
    findings.append(
        "1c. namespace_options={'dynamic': False} on a source namespace with valid_type=int -> exposed namespace "
        f"dynamic={parent.inputs['ns'].dynamic}"
    )

# 2. "The copy is independent": the properties of a namespace are taken over by reference, so a mutable namespace
#    default (a dictionary, the usual kind of default of a namespace) is shared by source and destination, whereas the
#    default of a leaf port is deep-copied.
child = ProcessSpec()
child.input('a')
child.inputs.default = {'a': [1]}
child.input_namespace('sub', default={'x': 1})
parent = ProcessSpec()
expose(child.inputs, parent.inputs, namespace='ns')
child.inputs.default['a'].append(2)
child.inputs['sub'].default['y'] = 2
if parent.inputs['ns'].default != {'a': [1]}:
    findings.append(f"2a. default of the exposed namespace follows the source namespace: {parent.inputs['ns'].default}")
if parent.inputs['ns']['sub'].default != {'x': 1}:
    findings.append(
        f"2b. default of the exposed nested namespace follows the source: {parent.inputs['ns']['sub'].default}"
    )

# 3. "leaves other ports of the destination in place": a nested namespace of the destination that has the name of an
#    exposed nested namespace is replaced as a whole, so the destination's own ports in it (and the ports of an earlier
#    exposure with another rule set) are dropped although no rule selected a port of that path.
child = ProcessSpec()
child.input('grp.x')
child.input('grp.y')
parent = ProcessSpec()
parent.input('grp.own')
expose(child.inputs, parent.inputs, include=('grp.x',))
if 'own' not in parent.inputs['grp']:
    findings.append(f"3a. own port `grp.own` of the destination dropped: grp = {sorted(parent.inputs['grp'])}")
parent = ProcessSpec()
expose(child.inputs, parent.inputs, include=('grp.x',))
expose(child.inputs, parent.inputs, include=('grp.y',))
if sorted(parent.inputs['grp']) != ['x', 'y']:
    findings.append(
        f"3b. exposing `grp.x` and then `grp.y` of the same source leaves grp = {sorted(parent.inputs['grp'])}"
    )

for finding in findings:
    print(finding)
print(f'{len(findings)} finding(s)')
sys.exit(1 if findings else 0)
