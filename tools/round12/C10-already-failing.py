# -*- coding: utf-8 -*-
"""Histories for which the UNCHANGED tree already departs from the C10 statement.  Exits non-zero if any is observed.

1. (main finding) An awaited child whose entry into FINISHED fails AFTER ``on_finish`` has resolved its future (here an
   ``on_finished`` hook that raises; the same happens for a broadcast/termination hook that raises): the child ends
   EXCEPTED -- ``on_except`` puts the exception on a NEW future -- but the work chain holds the old future, which carries
   a result.  The barrier opens, the next step runs and the work chain FINISHES although the awaited item failed.
2. ``Process.resume()`` (public, base ``Waiting.resume``) called on a work chain that is waiting on awaitables resolves
   the wait: the next step starts although nothing it awaits has completed (and finds no result in the context).
3. An awaited future that fails with one of plumpy's own ``Interruption`` exceptions (``KillInterruption`` /
   ``PauseInterruption``) is taken by ``Process.step`` for an interruption of the work chain: it ends KILLED (or is
   paused and stays WAITING) instead of EXCEPTED with that error.  (Contrived input; listed for completeness.)
"""

import asyncio
import sys

import plumpy
from plumpy import ToContext, WorkChain
from plumpy.process_states import KillInterruption

problems = []


class HookFails(plumpy.Process):
    async def run(self):
        await asyncio.sleep(0.01)

    def on_finished(self):
        super().on_finished()
        raise RuntimeError('bookkeeping failed')


class AwaitChild(WorkChain):
    @classmethod
    def define(cls, spec):
        super().define(spec)
        spec.outline(cls.register, cls.after)

    def register(self):
        self.child = self.launch(HookFails)
        self.after_ran = False
        return ToContext(child=self.child)

    def after(self):
        self.after_ran = True


class AwaitFuture(WorkChain):
    @classmethod
    def define(cls, spec):
        super().define(spec)
        spec.outline(cls.register, cls.after)

    def register(self):
        self.item = self.loop.create_future()
        self.after_ran = False
        self.seen = None
        return ToContext(value=self.item)

    def after(self):
        self.after_ran = True
        self.seen = dict(self.ctx.__dict__)


async def main():
    # 1. child ends EXCEPTED, work chain carries on
    workchain = AwaitChild()
    await asyncio.wait_for(workchain.step_until_terminated(), 5)
    child = workchain.child
    if child.state == plumpy.ProcessState.EXCEPTED and (
        workchain.after_ran or workchain.state != plumpy.ProcessState.EXCEPTED
    ):
        problems.append(
            f'1: the awaited child ended {child.state} ({child.exception()!r}) but the work chain ran the next step '
            f'(ran={workchain.after_ran}) and ended {workchain.state}'
        )

    # 2. resume() opens the barrier
    workchain = AwaitFuture()
    task = asyncio.ensure_future(workchain.step_until_terminated())
    await asyncio.sleep(0.02)
    assert workchain.state == plumpy.ProcessState.WAITING
    workchain.resume()
    await asyncio.sleep(0.05)
    if workchain.after_ran and not workchain.item.done():
        problems.append(
            f'2: after resume() the next step ran (ctx={workchain.seen}) although the awaited future is still pending'
        )
    workchain.item.cancel()
    task.cancel()

    # 3. an awaited item failing with an Interruption
    workchain = AwaitFuture()
    task = asyncio.ensure_future(workchain.step_until_terminated())
    await asyncio.sleep(0.02)
    workchain.item.set_exception(KillInterruption('not meant for the work chain'))
    await asyncio.sleep(0.05)
    if workchain.state != plumpy.ProcessState.EXCEPTED:
        problems.append(f'3: the awaited future failed with a KillInterruption, the work chain is {workchain.state}')
    task.cancel()


if __name__ == '__main__':
    asyncio.get_event_loop().run_until_complete(main())
    if problems:
        print('observed on this tree:')
        for problem in problems:
            print(' -', problem)
        sys.exit(1)
    print('none of the histories departs from the statement')
