# -*- coding: utf-8 -*-
"""Unchanged tree, borderline: the chain of ``state_changed`` announcements has a gap when an ENTERED hook fails

``Process.on_entered`` first calls ``on_running``/``on_waiting``/... (and the listeners) and only then broadcasts.  If that
hook raises (here an ``on_waiting`` override, after calling the base implementation so the listeners were told), the process
is already in the new state (``proc.state`` is WAITING, the listener saw ``on_process_waiting``), the broadcast
``state_changed.running.waiting`` is never sent, and the failure is announced as ``state_changed.waiting.excepted``: a
transition *from* a state that was never announced as entered.  Whether RUNNING -> WAITING counts as a "completed"
transition is debatable, but the announced sequence is not a chain.
"""
import asyncio
import logging
import sys

import kiwipy

import plumpy

logging.disable(logging.CRITICAL)


class Proc(plumpy.Process):
    def run(self):
        return plumpy.Wait(self.after, msg='waiting')

    def after(self):
        return 1

    def on_waiting(self):
        super().on_waiting()
        raise RuntimeError('hook failed')


async def main():
    comm = kiwipy.LocalCommunicator()
    subjects = []
    comm.add_broadcast_subscriber(lambda _c, body, sender, subject, correlation_id: subjects.append(subject))
    seen = []

    class Listener(plumpy.ProcessListener):
        def on_process_waiting(self, process):
            seen.append(('waiting', process.state))

    proc = Proc(pid='p1', communicator=comm)
    listener = Listener()
    proc.add_process_listener(listener)
    await proc.step_until_terminated()
    print('final state:', proc.state, '| listener saw:', seen)
    print('announced  :', subjects)
    broken = [
        (prev, cur) for prev, cur in zip(subjects, subjects[1:]) if prev.split('.')[2] != cur.split('.')[1]
    ]
    if broken:
        print('FAIL: the announcements do not form a chain:', broken)
        sys.exit(1)
    print('OK')


asyncio.run(main())
