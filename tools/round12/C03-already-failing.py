"""Histories / inputs for which the UNCHANGED tree already violates the C03 statement.

1. A (synchronous) hook that raises StopIteration.
   asyncio refuses StopIteration as the exception of a future (``TypeError: StopIteration interacts badly with generators
   and cannot be raised into a Future``), so ``Process.on_except`` fails while the process is being moved to EXCEPTED (inside
   ``transition_failed``, i.e. already in the "transition failing" mode): the TypeError escapes from ``step()`` /
   ``step_until_terminated()`` and the process is left in its old, already exited, state: not closed, future pending.
   (A plain, non-async step function that raises StopIteration ends EXCEPTED, but with ``RuntimeError('coroutine raised
   StopIteration')`` -- that is Python's doing, inside the coroutine ``ensure_coroutine`` wraps around the function.)

2. A callback scheduled with ``call_soon`` whose handle is cancelled while the (async) callback is in flight, and which
   then fails.  ``ProcessCallback.cancel()`` drops the reference to the process, ``ProcessCallback.run()`` then does
   ``self._process.callback_excepted(...)`` with ``self._process`` being None: an AttributeError escapes into the event
   loop ("Task exception was never retrieved").  (Borderline: the callback had been withdrawn -- but nothing should reach
   the loop either way.)

3. (borderline, not an ``Exception``) A hook that raises ``asyncio.CancelledError`` -- say it asked a cancelled future for
   its result, the case that was fixed for listeners and cleanups -- is not caught by the catch-all in ``transition_to``:
   the stepping task ends cancelled and the process is left half-transitioned (old state exited, new one not entered).

Exits 0 if the property holds for all of them, 1 otherwise (it exits 1 on the unchanged tree).
"""

import asyncio
import gc
import sys
import warnings

warnings.simplefilter('ignore')
import plumpy  # noqa: E402

problems = []
escaped = []


class HookRaisesStopIteration(plumpy.Process):
    def on_run(self):
        super().on_run()
        raise StopIteration('from on_run')

    async def run(self):
        return 1


class StepRaisesStopIteration(plumpy.Process):
    def run(self):  # a plain (non-async) step function
        raise StopIteration('from run')


class CancelledCallback(plumpy.Process):
    async def run(self):
        handle = self.call_soon(self.callback)
        await asyncio.sleep(0.01)
        handle.cancel()  # withdrawn while it is in flight
        await asyncio.sleep(0.1)
        return 1

    async def callback(self):
        await asyncio.sleep(0.05)
        raise RuntimeError('callback failed')


class HookRaisesCancelledError(plumpy.Process):
    def on_run(self):
        super().on_run()
        future = self.loop.create_future()
        future.cancel()
        future.result()  # raises asyncio.CancelledError

    async def run(self):
        return 1


loop = asyncio.new_event_loop()
asyncio.set_event_loop(loop)
loop.set_exception_handler(lambda _loop, context: escaped.append(context))


def run(proc):
    try:
        loop.run_until_complete(asyncio.wait_for(proc.step_until_terminated(), 5))
    except BaseException as exc:  # noqa: BLE001
        problems.append(f'{type(proc).__name__}: stepping raised {type(exc).__name__}: {exc}')
    loop.run_until_complete(asyncio.sleep(0.1))
    gc.collect()
    loop.run_until_complete(asyncio.sleep(0.01))
    for context in escaped:
        problems.append(
            f'{type(proc).__name__}: reported to the event loop: {context.get("message")}: {context.get("exception")!r}'
        )
    del escaped[:]


for cls, exc_type in (
    (HookRaisesStopIteration, StopIteration),
    (StepRaisesStopIteration, StopIteration),
    (HookRaisesCancelledError, asyncio.CancelledError),
):
    proc = cls()
    run(proc)
    if proc.state != plumpy.ProcessState.EXCEPTED:
        problems.append(
            f'{cls.__name__}: state is {proc.state}, in_state={proc._state.in_state}, closed={proc._closed}, '
            f'future done={proc.future().done()}'
        )
    elif not isinstance(proc.exception(), exc_type):
        problems.append(f'{cls.__name__}: excepted with {proc.exception()!r}')
    elif not isinstance(proc.future().exception(), exc_type):
        problems.append(f'{cls.__name__}: the future raises {proc.future().exception()!r}')

proc = CancelledCallback()
run(proc)

for line in problems:
    print('VIOLATION:', line)
sys.exit(1 if problems else 0)
