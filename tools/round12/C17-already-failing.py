# -*- coding: utf-8 -*-
"""Histories for which the UNCHANGED tree already violates property C17 (exits 1 and prints them when they reproduce).

1. PicklePersister names the checkpoint file after ``str(pid)``: the (hashable, hence legal) pids ``1`` and ``'1'`` are
   different processes but share one file, so a continue task for pid 1 resumes the checkpoint of process '1'.
   (Same for pid '1.a' untagged versus pid 1 with tag 'a'.)  The InMemoryPersister keeps them apart.

2. ``Process.recreate_state`` loads the state of the process with a new ``LoadSaveContext(process=self)``, i.e. without
   the loader of the load context.  ``_ensure_object_loader`` then instantiates the loader *class* recorded in the
   checkpoint (``loader_class()``), so the configured loader (the instance given to the launcher and to the
   persister) is not the one used for the state: a loader whose constructor needs an argument makes every continue
   task fail with TypeError, a loader with per-instance configuration is silently replaced by an unconfigured one.
"""

import asyncio
import sys
import tempfile

import plumpy
from plumpy import process_comms


class Echo(plumpy.Process):
    @classmethod
    def define(cls, spec):
        super().define(spec)
        spec.input('x', valid_type=int)
        spec.output('x', valid_type=int)

    def run(self):
        self.out('x', self.inputs.x)


class PrefixLoader(plumpy.ObjectLoader):
    def __init__(self, prefix):
        self.prefix = prefix
        self._default = plumpy.DefaultObjectLoader()

    def identify_object(self, obj):
        return self.prefix + self._default.identify_object(obj)

    def load_object(self, identifier):
        if not identifier.startswith(self.prefix):
            raise ValueError(f'`{identifier}` is not one of my identifiers')
        return self._default.load_object(identifier[len(self.prefix) :])


async def main():
    found = []

    # 1. pids 1 and '1' against the pickle persister
    launcher = plumpy.ProcessLauncher(persister=plumpy.PicklePersister(tempfile.mkdtemp()))
    for pid, x in ((1, 100), ('1', 200)):
        body = process_comms.create_create_body(Echo, init_kwargs={'inputs': {'x': x}, 'pid': pid}, persist=True)
        assert await launcher(None, body) == pid
    reply = await launcher(None, process_comms.create_continue_body(1))
    if reply != {'x': 100}:
        found.append(f"PicklePersister: continue of pid 1 replied {reply!r}: it resumed the checkpoint of pid '1'")

    # 2. the configured loader is not the one the state of the process is loaded with
    loader = PrefixLoader('my/')
    launcher = plumpy.ProcessLauncher(persister=plumpy.InMemoryPersister(loader=loader), loader=loader)
    body = process_comms.create_create_body(Echo, init_kwargs={'inputs': {'x': 5}}, persist=True, loader=loader)
    pid = await launcher(None, body)
    try:
        reply = await launcher(None, process_comms.create_continue_body(pid))
        if reply != {'x': 5}:
            found.append(f'custom loader: continue replied {reply!r}')
    except TypeError as exception:
        found.append(f'custom loader: continue task failed, a new loader was instantiated from its class: {exception}')

    for line in found:
        print('ALREADY FAILING:', line)
    return 1 if found else 0


if __name__ == '__main__':
    sys.exit(asyncio.run(main()))
