# -*- coding: utf-8 -*-
"""Borderline findings on the UNCHANGED tree for C18: two overridable methods of a process that the library itself calls
run outside any process scope, so ``Process.current()`` is not the process while they execute:

* ``init()`` ("common initialisation logic, after create or load"), called by the metaclass after construction and by
  ``recreate_from`` after loading;
* ``callback_excepted()``, called by ``ProcessCallback.run`` after a ``call_soon`` callback raised (the callback itself
  ran inside the scope, its failure handler does not).

Exits 1 when either of them observes a ``Process.current()`` that is not the process.
"""
import asyncio
import sys

import plumpy
from plumpy import Process

seen = {}


class Proc(plumpy.Process):
    def init(self):
        super().init()
        seen.setdefault('init', []).append(Process.current() is self)

    def callback_excepted(self, callback, exception, trace):
        seen.setdefault('callback_excepted', []).append(Process.current() is self)
        super().callback_excepted(callback, exception, trace)

    async def run(self):
        await asyncio.sleep(0.05)


def boom():
    raise RuntimeError('boom')


async def main():
    proc = Proc()
    proc.call_soon(boom)  # scheduled from outside any process
    try:
        await proc.step_until_terminated()
    except Exception:
        pass
    # and once more for a loaded process
    plumpy.Bundle(Proc()).unbundle()


plumpy.set_event_loop_policy()
asyncio.get_event_loop().run_until_complete(main())
print(seen)
bad = [name for name, values in seen.items() if not all(values)]
if bad:
    print('Process.current() was not the process inside:', ', '.join(bad))
    sys.exit(1)
print('ok')
