# -*- coding: utf-8 -*-
"""Histories / program shapes for which the UNCHANGED tree does not keep C07 (save, load, save again).

Each case saves a process that *can* be saved, carries the bundle as an in-memory copy and loads it.
The script prints what happens per case and exits 1 if at least one case violates the property (which is what is
expected on the unchanged tree), 0 if none does.
"""

import asyncio
import copy
import sys

import plumpy


# --- case 1: a context key that is not a string -------------------------------------------------------------------------
# ``AttributesDict.setdefault`` writes straight into ``__dict__`` and so accepts any key; ``ContextMixin`` saves that
# ``__dict__`` but loads it with ``AttributesDict(**saved)``, which needs string keys.
class IntKeyChain(plumpy.WorkChain):
    @classmethod
    def define(cls, spec):
        super().define(spec)
        spec.outline(cls.first, cls.second)

    def first(self):
        self.ctx.setdefault(1, []).append('x')

    def second(self):
        pass


# --- case 2: a private (name mangled) step method -------------------------------------------------------------------
# The running state stores ``run_fn.__name__`` ('__second') and looks that up on the process when loading, but the
# attribute is called '_PrivateStep__second'.
class PrivateStep(plumpy.Process):
    async def run(self):
        return plumpy.Continue(self.__second)

    def __second(self):
        return 5


# --- case 3: a savable mixin with members of its own, listed before the process class -----------------------------------
# ``_auto_persist`` is looked up along the MRO and not merged: the set of the mixin hides that of ``Process``, so pid,
# creation time, future, paused flag, status and listeners are not written to the bundle at all.
@plumpy.auto_persist('counter')
class CounterMixin(plumpy.Savable):
    counter = 0


class Counting(CounterMixin, plumpy.Process):
    async def run(self):
        self.counter += 1


def roundtrip(proc, loop):
    first = copy.deepcopy(plumpy.Bundle(proc))
    loaded = copy.deepcopy(first).unbundle(plumpy.LoadSaveContext(loop=loop))
    second = copy.deepcopy(plumpy.Bundle(loaded))
    return first, loaded, second


def main():
    loop = asyncio.new_event_loop()
    asyncio.set_event_loop(loop)
    violations = 0

    # case 1
    chain = IntKeyChain(loop=loop)
    loop.run_until_complete(chain.step())
    loop.run_until_complete(chain.step())
    try:
        _, loaded, _ = roundtrip(chain, loop)
        assert vars(loaded.ctx) == vars(chain.ctx)
        print('case 1 (context key that is not a string): ok')
    except Exception as exception:
        violations += 1
        print(f'case 1 (context key that is not a string): saved, but not loadable: {type(exception).__name__}: {exception}')

    # case 2
    proc = PrivateStep(loop=loop)
    loop.run_until_complete(proc.step())
    loop.run_until_complete(proc.step())
    assert proc.state == plumpy.ProcessState.RUNNING
    try:
        _, loaded, _ = roundtrip(proc, loop)
        assert loaded.execute() == proc.execute()
        print('case 2 (private step method): ok')
    except Exception as exception:
        violations += 1
        print(f'case 2 (private step method): saved, but not loadable: {type(exception).__name__}: {exception}')

    # case 3
    proc = Counting(loop=loop)
    try:
        first, loaded, second = roundtrip(proc, loop)
        assert '_pid' in first, f"no '_pid' in the bundle, only {sorted(first)}"
        assert loaded.pid == proc.pid and loaded.creation_time == proc.creation_time
        print('case 3 (savable mixin before the process class): ok')
    except Exception as exception:
        violations += 1
        print(f'case 3 (savable mixin before the process class): {type(exception).__name__}: {exception}')

    loop.close()
    return 1 if violations else 0


if __name__ == '__main__':
    sys.exit(main())
