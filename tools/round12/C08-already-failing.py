# -*- coding: utf-8 -*-
"""Histories for which the UNCHANGED tree already violates C08 (run with PYTHONPATH=<tree>/src).

1. Aliasing between the persisted pieces of a process is not preserved by a checkpoint.
   ``Process.save_instance_state`` copies the outputs (``encode_input_args``), every auto-persisted member
   (``Savable.save_members``) and the raw/parsed inputs one by one, and the context separately from all of them.
   A step that emits a value it keeps in the context and a later step that extends that value in place:
   uninterrupted, the emitted output is the extended value (``out()`` stores the object itself); after a
   checkpoint between the two steps and a resume, output and context value are two objects and the output
   stays as it was at the checkpoint.

2. A continuation (or outline step) with a class-private name (two leading underscores) is saved by
   ``__name__`` ('__second') but lives on the class under its mangled name ('_Cls__second'): the checkpoint
   cannot be loaded at all (AttributeError) although the uninterrupted execution works.

Exit code 1 if any of the two violations shows (expected on the unchanged tree), 0 otherwise.
"""
import asyncio
import sys

import plumpy
from plumpy import WorkChain


class Collect(WorkChain):
    @classmethod
    def define(cls, spec):
        super().define(spec)
        spec.output('report')
        spec.outline(cls.start, cls.more, cls.end)

    def start(self):
        self.ctx.report = ['start']
        self.out('report', self.ctx.report)

    def more(self):
        self.ctx.report.append('more')

    def end(self):
        self.ctx.report.append('end')


class Private(plumpy.Process):
    async def run(self):
        return plumpy.Continue(self.__second)

    def __second(self):
        return 'done'


def step(loop, proc, count):
    done = 0
    while done < count and not proc.has_terminated():
        loop.run_until_complete(proc.step())
        done += 1
    return done


def run_with_crash(cls, boundary):
    """Return the process that ran to the end, checkpointed at ``boundary`` and resumed in a fresh loop (None: no crash)"""
    loop = asyncio.new_event_loop()
    asyncio.set_event_loop(loop)
    proc = cls(loop=loop)
    if boundary is not None:
        persister = plumpy.InMemoryPersister()
        step(loop, proc, boundary)
        persister.save_checkpoint(proc)
        pid = proc.pid
        del proc
        loop.close()
        loop = asyncio.new_event_loop()
        asyncio.set_event_loop(loop)
        proc = persister.load_checkpoint(pid).unbundle(plumpy.LoadSaveContext(loop=loop))
    step(loop, proc, 1000)
    loop.close()
    return proc


def main():
    violations = 0

    expected = run_with_crash(Collect, None).outputs
    for boundary in range(0, 5):
        got = run_with_crash(Collect, boundary).outputs
        if got != expected:
            violations += 1
            print(f'1. outputs after a crash at boundary {boundary}: {got}, uninterrupted: {expected}')

    expected = run_with_crash(Private, None).result()
    for boundary in (1, 2):
        try:
            got = run_with_crash(Private, boundary).result()
        except Exception as exc:
            got = f'raised {exc!r}'
        if got != expected:
            violations += 1
            print(f'2. result after a crash at boundary {boundary}: {got}, uninterrupted: {expected!r}')

    print(f'{violations} violation(s) of C08 on this tree')
    return 1 if violations else 0


if __name__ == '__main__':
    sys.exit(main())
