"""Histories/inputs for which the UNCHANGED tree already violates the statement of C13.  Exits 1 listing those that fail.

1. Continue(f, **k) with a keyword called ``state_label``, ``process`` or ``run_fn``: the keywords travel through
   State.create_state(self, state_label, *args, **kwargs) and Running.__init__(self, process, run_fn, *args, **kwargs), whose own
   parameters are not positional-only -> TypeError "got multiple values for argument", the process ends EXCEPTED instead of running f(**k).
2. Continue(self.__private_step) / Wait(self.__private_step) and a checkpoint restore before the step: the states save ``fn.__name__``
   ('__private_step') and load with getattr(process, name), but the attribute is name-mangled ('_Proc__private_step') -> restore fails.
3. Continue(f, buf, sink=buf) (the same object passed twice) and a restore: 'args' and 'kwargs' are deep-copied separately, so after the restore
   f receives two different objects where it would have received one (f(*a, **k) is no longer called with "exact arguments").
4. Wait(f), resume(v), and a checkpoint taken before the stepping coroutine has consumed the wake-up (e.g. the process is paused, or not
   being stepped): the value lives only in the wait future, which is not saved -> the restored process waits forever, f(v) never runs.
"""
import asyncio
import sys

import plumpy
from plumpy import process_states

failures = []

# --- 1 -------------------------------------------------------------------------------------------------------------
SEEN = {}


def make(kwname):
    class Proc(plumpy.Process):
        def run(self):
            return process_states.Continue(self.second, **{kwname: 'value'})

        def second(self, **kwargs):
            SEEN[kwname] = kwargs
            return 'done'

    return Proc


for kwname in ('colour', 'state_label', 'process', 'run_fn'):
    proc = make(kwname)()
    try:
        proc.execute()
    except Exception:
        pass
    if proc.state != process_states.ProcessState.FINISHED or SEEN.get(kwname) != {kwname: 'value'}:
        failures.append(f'1. Continue(f, {kwname}=...) did not run f({kwname}=...): state={proc.state} exception={proc.exception()!r}')


# --- 2 -------------------------------------------------------------------------------------------------------------
class Private(plumpy.Process):
    def run(self):
        return process_states.Continue(self.__second, 5)

    def __second(self, value):
        return value * 2


proc = Private()
loop = proc.loop
loop.run_until_complete(proc.step())  # created -> running(run)
loop.run_until_complete(proc.step())  # run -> running(__second, 5)
try:
    restored = plumpy.Bundle(proc).unbundle()
    restored.execute()
    if restored.result() != 10:
        failures.append(f'2. restored process finished with {restored.result()!r}, not 10')
except Exception as exc:
    failures.append(f'2. Continue(self.__second, 5) + restore before the step: {type(exc).__name__}: {exc}')
proc.execute()
assert proc.result() == 10  # (without the restore it works)


# --- 3 -------------------------------------------------------------------------------------------------------------
class Shared(plumpy.Process):
    def run(self):
        buf = []
        return process_states.Continue(self.second, buf, sink=buf)

    def second(self, buf, sink=None):
        sink.append('x')
        return len(buf)


proc = Shared()
loop.run_until_complete(proc.step())
loop.run_until_complete(proc.step())
restored = plumpy.Bundle(proc).unbundle()
restored.execute()
proc.execute()
if restored.result() != proc.result():
    failures.append(f'3. f(buf, sink=buf): result {proc.result()} without restore, {restored.result()} with a restore before the step')


# --- 4 -------------------------------------------------------------------------------------------------------------
class Waiter(plumpy.Process):
    def run(self):
        return process_states.Wait(self.woken)

    def woken(self, value=None):
        return value


proc = Waiter()
loop.run_until_complete(proc.step())
loop.run_until_complete(proc.step())  # run -> waiting
assert proc.state == process_states.ProcessState.WAITING
proc.resume(42)  # nobody is stepping the process at the moment: the value sits in the wait future
restored = plumpy.Bundle(proc).unbundle()


async def finish(process):
    try:
        await asyncio.wait_for(process.step_until_terminated(), 1.0)
    except asyncio.TimeoutError:
        return False
    return True


if not loop.run_until_complete(finish(restored)) or restored.result() != 42:
    failures.append(f'4. Wait(f); resume(42); checkpoint; restore: the restored process is {restored.state} (f(42) never ran)')
assert loop.run_until_complete(finish(proc)) and proc.result() == 42  # (the original goes on to f(42))

if failures:
    print('ALREADY FAILING on this tree:')
    for line in failures:
        print('  -', line)
    sys.exit(1)
print('ok')
