"""UNCHANGED tree: a process whose communicator was closed while it is alive leaves a terminal state again.

kill() enters KILLED; the state-change broadcast in Process.on_entered raises kiwipy.CommunicatorClosed (only
ConnectionClosed / ChannelInvalidStateError / TimeoutError are tolerated there); the failure is handed to
transition_failed() with the *initial* label (WAITING), so the process is moved on KILLED -> EXCEPTED.
Exits 1 when the violation is observed.
"""
import asyncio
import sys

import kiwipy
import plumpy


class Waiter(plumpy.Process):
    async def run(self):
        return plumpy.Wait(self.done)

    def done(self):
        return None


class Recorder(plumpy.ProcessListener):
    def __init__(self):
        super().__init__()
        self.seen = []

    def on_process_killed(self, process, msg):
        self.seen.append('killed')

    def on_process_excepted(self, process, reason):
        self.seen.append('excepted')


async def main():
    comm = kiwipy.LocalCommunicator()
    proc = Waiter(communicator=comm)
    rec = Recorder()
    proc.add_process_listener(rec)
    task = asyncio.ensure_future(proc.step_until_terminated())
    for _ in range(10):
        await asyncio.sleep(0)
    assert proc.state == plumpy.ProcessState.WAITING, proc.state
    comm.close()  # the fault: the communicator goes away while the process is alive
    task.cancel()
    for _ in range(3):
        await asyncio.sleep(0)
    try:
        proc.kill('bye')
    except Exception as exc:
        print('kill() raised', type(exc).__name__, exc)
    print('listener saw', rec.seen, 'final state', proc.state)
    if rec.seen[:2] == ['killed', 'excepted'] or (rec.seen and rec.seen[0] == 'killed' and proc.state != plumpy.ProcessState.KILLED):
        print('VIOLATION: KILLED was entered and then left for', proc.state)
        return 1
    return 0


plumpy.set_event_loop_policy()
sys.exit(asyncio.get_event_loop().run_until_complete(main()))
