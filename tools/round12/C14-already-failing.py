"""Unchanged tree: one checkpoint that can be written but not read back makes PicklePersister unable to list (and hence
to delete the checkpoints of) ANY process, while InMemoryPersister refuses that same save up front.

The process below excepts with an exception whose constructor does not accept ``self.args`` (a very common shape:
``__init__(self, code, detail)`` calling ``super().__init__(message)``).  The future of the process holds the exception
object and it goes into the saved state as it is.  ``copy.deepcopy`` (InMemoryPersister, at save time) and
``pickle.loads`` (PicklePersister, at load/list time) both rebuild it as ``cls(*args)`` and fail - but at different moments:

  * InMemoryPersister.save_checkpoint raises, nothing is stored, the store stays usable;
  * PicklePersister.save_checkpoint succeeds, and from then on get_checkpoints(), get_process_checkpoints(<any pid>) and
    delete_process_checkpoints(<any pid>) raise, also for the other, perfectly good, process.

Exits 1 when that divergence is observed.
"""
import asyncio
import sys
import tempfile

import plumpy


class AppError(Exception):
    def __init__(self, code, detail):
        super().__init__(f'{code}: {detail}')
        self.code = code
        self.detail = detail


class Good(plumpy.Process):
    def run(self):
        return 1


class Bad(plumpy.Process):
    def run(self):
        raise AppError(3, 'boom')


def outcome(fn, *args):
    try:
        return ('ok', fn(*args))
    except Exception as exc:
        return ('raised', type(exc).__name__)


def main():
    loop = asyncio.new_event_loop()
    asyncio.set_event_loop(loop)
    good = Good(pid=1)
    bad = Bad(pid=2)
    try:
        loop.run_until_complete(bad.step_until_terminated())
    except Exception:
        pass
    assert bad.is_excepted, bad.state

    problems = []
    results = {}
    with tempfile.TemporaryDirectory() as directory:
        for name, persister in (('memory', plumpy.InMemoryPersister()), ('pickle', plumpy.PicklePersister(directory))):
            log = []
            log.append(('save good', outcome(persister.save_checkpoint, good)[0]))
            log.append(('save bad', outcome(persister.save_checkpoint, bad)[0]))
            listed = outcome(persister.get_checkpoints)
            log.append(('list', listed[0] if listed[0] == 'raised' else sorted(tuple(c) for c in listed[1])))
            listed = outcome(persister.get_process_checkpoints, 1)
            log.append(('list good', listed[0] if listed[0] == 'raised' else sorted(tuple(c) for c in listed[1])))
            log.append(('delete good', outcome(persister.delete_process_checkpoints, 1)[0]))
            log.append(('load good', outcome(persister.load_checkpoint, 1)[0]))
            results[name] = log
            print(name, log)

    if results['memory'] != results['pickle']:
        problems.append('the two persisters disagree on the same history')
    if ('list good', 'raised') in results['pickle']:
        problems.append('PicklePersister cannot list the checkpoints of the good process any more')
    for problem in problems:
        print('VIOLATION:', problem)
    return 1 if problems else 0


if __name__ == '__main__':
    sys.exit(main())
