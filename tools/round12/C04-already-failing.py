# -*- coding: utf-8 -*-
"""Histories for which the UNCHANGED tree already seems to violate C04 (exits 1 when a violation is seen).

1. kill() issued after the task stepping a WAITING process was cancelled, but before asyncio has delivered that
   cancellation to it (same loop iteration): the process is still "stepping", so kill() only queues its action; the
   interruption is not delivered (the wait future is already cancelled) and when the CancelledError arrives step()
   drops the queued action.  The future returned by kill() is cancelled and the process stays alive (WAITING): the
   kill request is lost.  (A further kill() does work.)

2. (arguable: needs an environment fault) kill() of a process whose communicator has been closed: the broadcast of
   the state change raises out of the KILLED transition and again out of the EXCEPTED transition: kill() RAISES
   CommunicatorClosed and the process ends EXCEPTED although no step failed.

3. (minor) pause(); kill('k'); play(): the killed process still counts as paused and play() still "plays" it: the
   status (which held the kill text) is reset to the pre-pause status.  killed_msg() keeps the text.
"""
import asyncio
import sys

import kiwipy
import plumpy
from plumpy import ProcessState

seen = []


def report(text):
    seen.append(text)
    print('VIOLATION:', text)


class Waiter(plumpy.Process):
    async def run(self):
        return plumpy.Wait(self.after_wait)

    def after_wait(self):
        return None


async def until(cond, timeout=2.0):
    end = asyncio.get_event_loop().time() + timeout
    while not cond():
        if asyncio.get_event_loop().time() > end:
            return False
        await asyncio.sleep(0.01)
    return True


async def kill_in_cancellation_window():
    proc = Waiter()
    task = asyncio.ensure_future(proc.step_until_terminated())
    assert await until(lambda: proc.state == ProcessState.WAITING)
    task.cancel()  # e.g. a timeout around step_until_terminated()
    result = proc.kill('stop')  # before the cancelled task has been woken up
    outcome = result
    if asyncio.isfuture(result):
        try:
            outcome = await asyncio.wait_for(result, 1.0)
        except BaseException as exc:  # noqa
            outcome = repr(exc)
    await asyncio.sleep(0.05)
    if proc.state != ProcessState.KILLED or outcome is not True:
        report('kill() in the cancellation window: request resolved to %s, process is %s' % (outcome, proc.state))
    if not proc.has_terminated():
        proc.kill('clean up')


async def kill_with_closed_communicator():
    communicator = kiwipy.LocalCommunicator()
    proc = Waiter(communicator=communicator)
    communicator.close()
    try:
        result = proc.kill('stop')
        if result is not True or proc.state != ProcessState.KILLED:
            report('closed communicator: kill() gave %r, process is %s' % (result, proc.state))
    except BaseException as exc:  # noqa
        report('closed communicator: kill() raised %r, process is %s' % (exc, proc.state))


async def play_after_kill():
    proc = Waiter()
    proc.pause('hold')
    proc.kill('k')
    proc.play()
    if proc.status != 'k':
        report('play() after kill-while-paused: status is %r, it held the kill text before the play()' % (proc.status,))


async def main():
    await kill_in_cancellation_window()
    await kill_with_closed_communicator()
    await play_after_kill()


if __name__ == '__main__':
    loop = asyncio.new_event_loop()
    asyncio.set_event_loop(loop)
    loop.set_exception_handler(lambda _loop, _ctx: None)
    loop.run_until_complete(main())
    sys.exit(1 if seen else 0)
