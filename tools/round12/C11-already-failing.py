"""On the UNCHANGED tree: the empty tuple IS the ``UNSPECIFIED`` marker (``UNSPECIFIED = ()`` and CPython has one empty
tuple object), so an empty tuple given as an input value is taken for "nothing given": the type check (and the
validator) of an optional port is skipped, and an optional namespace accepts it in place of a mapping.  The process is
constructed and ``inputs`` holds a value that is not of the declared type / not a read-only mapping.
"""
import sys
import plumpy


class P(plumpy.Process):
    @classmethod
    def define(cls, spec):
        super().define(spec)
        spec.input('x', valid_type=str, required=False, validator=lambda value, port: 'never acceptable')
        spec.input_namespace('ns', required=False)
        spec.input('ns.y', valid_type=int, required=False)

    async def run(self):
        pass


problems = []
for given in ({'x': ()}, {'ns': ()}):
    try:
        proc = P(inputs=dict(given))
    except (ValueError, TypeError) as exc:
        print('rejected, as the property demands:', given, '->', type(exc).__name__)
        continue
    problems.append(f'inputs {given!r} created a process; inputs = {dict(proc.inputs)!r}')

# for comparison: any other value of the wrong type is refused
for given in ({'x': (1,)}, {'x': []}, {'ns': []}, {'ns': (1,)}):
    try:
        P(inputs=dict(given))
    except (ValueError, TypeError):
        pass
    else:
        problems.append(f'(comparison) {given!r} accepted')

if problems:
    print('PROPERTY VIOLATED on this tree:')
    for line in problems:
        print('  ', line)
    sys.exit(1)
print('ok')
