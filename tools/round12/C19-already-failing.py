# -*- coding: utf-8 -*-
"""Inputs for which the UNCHANGED tree already violates C19 ("restores every member declared with auto_persist",
"for every Savable class shape (inheritance chains of auto_persist declarations ...)").

Exits non-zero and prints the violations found.

1. A subclass of SavableFuture that declares members of its own: they are saved, but SavableFuture.recreate_from
   builds the object with ``cls(loop=loop)`` and never goes through load_instance_state / load_members, so the
   declared members are missing on the recreated future.
2. A class with two Savable bases that each declare members: ``_auto_persist`` is looked up through the MRO, so only
   the declarations of the first base are inherited; the members of the second base are neither saved nor restored.
3. (minor) A class identifier that resolves to something that is not a Savable (or a malformed one like '.x:Y') is
   an AttributeError / TypeError from Savable.load, not a ValueError.
"""

import asyncio
import sys

import plumpy


@plumpy.auto_persist('label')
class LabelledFuture(plumpy.SavableFuture):
    pass


@plumpy.auto_persist('a')
class A(plumpy.Savable):
    pass


@plumpy.auto_persist('b')
class B(plumpy.Savable):
    pass


@plumpy.auto_persist('c')
class C(A, B):
    pass


def main():
    problems = []
    loop = asyncio.new_event_loop()
    asyncio.set_event_loop(loop)

    # 1
    future = LabelledFuture(loop=loop)
    future.label = 'first'
    future.set_result(5)
    saved = future.save()
    assert saved['label'] == 'first'
    loaded = plumpy.Savable.load(saved)
    if getattr(loaded, 'label', '<missing>') != 'first':
        problems.append(
            f"1. SavableFuture subclass: declared member 'label' saved as {saved['label']!r} but on the recreated "
            f"future it is {getattr(loaded, 'label', '<missing>')!r} (result restored: {loaded.result()!r})"
        )

    # 2
    obj = C()
    obj.a, obj.b, obj.c = 1, 2, 3
    saved = obj.save()
    loaded = plumpy.Savable.load(saved)
    if getattr(loaded, 'b', '<missing>') != 2:
        problems.append(
            f"2. class C(A, B): member 'b' declared by the second base is not round-tripped: declared set "
            f"{sorted(C._auto_persist)}, saved keys {sorted(k for k in saved if k != '!!meta')}, recreated b="
            f"{getattr(loaded, 'b', '<missing>')!r}"
        )

    # 3
    for identifier in ('plumpy.loaders:DefaultObjectLoader', '.foo:Bar'):
        try:
            plumpy.Savable.load({'!!meta': {'class_name': identifier}})
        except ValueError:
            pass
        except Exception as exc:
            problems.append(f'3. class identifier {identifier!r}: {type(exc).__name__} instead of ValueError: {exc}')

    loop.close()
    if problems:
        print('violations of C19 on the unchanged tree:')
        for problem in problems:
            print('  -', problem)
        return 1
    print('nothing found')
    return 0


if __name__ == '__main__':
    sys.exit(main())
