# -*- coding: utf-8 -*-
"""Inputs for which the UNCHANGED tree deviates from the literal statement of C09 (all of them borderline: see notes).

Exits 1 when at least one deviation is observed (which is the case on the unchanged tree), 0 otherwise.
"""
import sys

import plumpy
from plumpy import WorkChain, while_

found = []


def run_chain(cls):
    cls.trace = trace = []
    chain = cls()
    chain.execute()
    return trace, chain.result()


# 1. A step that is called ``run`` replaces ``WorkChain.run``, the entry point that starts stepping through the outline:
#    the outline (run, check) is never executed as an outline, ``run`` is called once as the body of a plain process and
#    ``check`` is never called.  (tests/test_workchains.py::test_tocontext_schedule_workchain has exactly this shape and
#    passes vacuously: its ``check`` step, with the assertion, never runs.)
class StepNamedRun(WorkChain):
    @classmethod
    def define(cls, spec):
        super().define(spec)
        spec.outline(cls.run, cls.check)

    def run(self):
        self.trace.append('run')

    def check(self):
        self.trace.append('check')


trace, result = run_chain(StepNamedRun)
print('1. step named run:', trace, repr(result))
if trace != ['run', 'check']:
    found.append(f"1. outline (run, check): calls {trace}, expected ['run', 'check']")


# 2. "in every case the result is ... the value returned by the last step executed": when the last step executed returned a
#    context assignment and the outline then ends in a loop/conditional that runs nothing more, the result is None and
#    not that value.
class TrailingLoop(WorkChain):
    @classmethod
    def define(cls, spec):
        super().define(spec)
        spec.outline(cls.assign, while_(cls.never)(cls.body))

    def assign(self):
        self.trace.append('assign')
        return {}  # an (empty) context assignment

    def never(self):
        self.trace.append('never')
        return False

    def body(self):
        self.trace.append('body')


trace, result = run_chain(TrailingLoop)
print('2. trailing loop:', trace, repr(result))
if result != {}:
    found.append(f'2. last step executed returned {{}}, result is {result!r}')


# 3. A step returning a value that is neither None nor a context assignment stops the chain "with that value as the result":
#    not so when the value is one of plumpy's own result/command objects, which are interpreted instead.
class ReturnsUnsuccessful(WorkChain):
    @classmethod
    def define(cls, spec):
        super().define(spec)
        spec.outline(cls.fail, cls.after)

    def fail(self):
        self.trace.append('fail')
        return plumpy.UnsuccessfulResult(5)

    def after(self):
        self.trace.append('after')


trace, result = run_chain(ReturnsUnsuccessful)
print('3. UnsuccessfulResult:', trace, repr(result))
if not isinstance(result, plumpy.UnsuccessfulResult):
    found.append(f'3. step returned an UnsuccessfulResult object, result is {result!r}')

if found:
    print('\nDeviations from the literal statement on this tree:')
    for line in found:
        print('  ' + line)
    sys.exit(1)
print('no deviation')
