# -*- coding: utf-8 -*-
"""Histories for which the UNCHANGED tree already violates C02 (exit status 1 if any of them is reproduced).

1. close() on a live process, then kill(): the process becomes KILLED but its future is never resolved and no listener is
   notified (on_close drops the state event hooks, kill() is not refused on a closed process).
2. A cleanup that (directly or through something it shuts down) calls process.close(): `_closed` is only set at the end
   of on_close, so close() re-enters on_close and the cleanups run again and again (until the recursion limit).
3. Something failing right AFTER the terminal state was entered (here: a state event callback registered with
   add_state_event_callback; the same happens for an unexpected exception from the communicator's broadcast_send in
   on_entered): the process is FINISHED, its future resolved to the outputs and listeners told 'finished' -- then it
   becomes EXCEPTED, the future is replaced and listeners get a second terminal notification.  A waiter holding the first
   future sees a successful outcome of a process that reports EXCEPTED.
"""

import sys

import plumpy
from plumpy.base.state_machine import StateEventHook


class P(plumpy.Process):
    def run(self):
        return 5


class Recorder(plumpy.ProcessListener):
    def __init__(self):
        super().__init__()
        self.terminal = []

    def on_process_finished(self, process, outputs):
        self.terminal.append('finished')

    def on_process_excepted(self, process, reason):
        self.terminal.append('excepted')

    def on_process_killed(self, process, msg):
        self.terminal.append('killed')


found = []

# 1
proc = P()
recorder = Recorder()
proc.add_process_listener(recorder)
proc.close()
proc.kill('bye')
if proc.state == plumpy.ProcessState.KILLED and (not proc.future().done() or recorder.terminal != ['killed']):
    found.append(f'1: state {proc.state}, future done={proc.future().done()}, notifications {recorder.terminal}')

# 2
proc = P()
calls = {'closer': 0, 'other': 0}


def closer():
    calls['closer'] += 1
    proc.close()


def other():
    calls['other'] += 1


proc.add_cleanup(closer)
proc.add_cleanup(other)
proc.execute()
if calls['other'] != 1:
    found.append(f'2: cleanups ran {calls} times (process {proc.state}, closed={proc._closed})')

# 3
proc = P()
recorder = Recorder()
proc.add_process_listener(recorder)
first_future = proc.future()


def hook(state_machine, _hook, _from_state):
    if state_machine.state == plumpy.ProcessState.FINISHED:
        raise RuntimeError('hook failed')


proc.add_state_event_callback(StateEventHook.ENTERED_STATE, hook)
try:
    proc.execute()
except RuntimeError:
    pass
if len(recorder.terminal) != 1 or (first_future.done() and proc.future() is not first_future):
    found.append(
        f'3: state {proc.state}, notifications {recorder.terminal}, first future resolved to '
        f'{first_future.result() if first_future.done() and not first_future.exception() else first_future}, '
        f'future replaced: {proc.future() is not first_future}'
    )

for line in found:
    print('already violated on the unchanged tree --', line)
sys.exit(1 if found else 0)
