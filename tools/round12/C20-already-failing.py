# -*- coding: utf-8 -*-
"""Histories for which the UNCHANGED tree already violates C20.  Exits 1 if (any of) the violations are observed.

1. CancellableAction whose function ends with asyncio.CancelledError (a BaseException, which
   ``kiwipy.capture_exceptions`` does not capture): run() lets it through, the action reports nothing through itself
   (stays pending), and -- not being done() -- it does NOT refuse a second run(); that second run "reports" a bogus
   ``TypeError: 'NoneType' object is not callable`` (the function reference was dropped by the first run).

2. plum_to_kiwi_future of a loop future that ends with an exception that is not an ``Exception`` (e.g.
   ``fut.set_exception(asyncio.CancelledError())`` or any other BaseException): ``plum_future.result()`` raises it
   through ``capture_exceptions`` out of the done callback (into the loop's exception handler) and the communicator
   side mirror stays pending for ever -- neither result, exception nor cancellation.
"""

import asyncio
import sys

from plumpy import communications, futures

problems = []


async def main():
    loop = asyncio.get_running_loop()

    # -- 1
    calls = []

    def function():
        calls.append(1)
        raise asyncio.CancelledError()

    action = futures.CancellableAction(function)
    try:
        action.run()
    except asyncio.CancelledError:
        pass
    if not action.done():
        problems.append('1a. action whose function raised asyncio.CancelledError reports nothing through itself (still pending)')
    try:
        action.run()
    except futures.InvalidStateError:
        pass  # refused: fine
    else:
        problems.append(
            f'1b. the action accepted a second run() (function calls: {len(calls)}); it now reports: '
            f'{action.exception()!r}'
        )

    # -- 2
    class Fatal(BaseException):
        pass

    for exception in (asyncio.CancelledError(), Fatal('fatal')):
        plum_future = loop.create_future()
        plum_future.set_exception(exception)
        mirror = communications.plum_to_kiwi_future(plum_future)
        await asyncio.sleep(0.2)
        if not mirror.done():
            problems.append(f'2. mirror of a loop future that ended with exception {exception!r} is still pending')
        plum_future.exception()  # (retrieve it)


loop = asyncio.new_event_loop()
loop.set_exception_handler(lambda _loop, context: None)
loop.run_until_complete(main())

if problems:
    print('C20 violated on the unchanged tree:')
    for problem in problems:
        print('  -', problem)
    sys.exit(1)
print('no violation observed')
