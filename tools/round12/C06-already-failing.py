# -*- coding: utf-8 -*-
"""BORDERLINE (unchanged tree): a wake-up that has been delivered to a paused, waiting process is not part of its
checkpoint.  resume('v') while paused -> checkpoint -> load -> play: the loaded process stays WAITING for ever and 'v'
never reaches the continuation, although the process it was saved from "has been resumed".  (The saved state of the
Waiting state holds msg/data/done_callback only; ``load_instance_state`` arms a fresh wait.)  Whether a process
restored from a checkpoint is within the scope of the property statement is debatable -- reported for completeness.

Run as:  PYTHONPATH=<tree>/src /venv/bin/python already-failing.py   (exit 1 = the wake-up is lost by the checkpoint)
"""
import asyncio
import logging
import sys

from plumpy import Process, ProcessState, persistence, process_states

logging.disable(logging.CRITICAL)


class Waiter(Process):
    def run(self):
        return process_states.Wait(self.proceed)

    def proceed(self, *args):
        self.received = args


async def main():
    proc = Waiter()
    stepper = asyncio.ensure_future(proc.step_until_terminated())
    await asyncio.sleep(0.01)
    proc.pause()
    await asyncio.sleep(0.01)
    assert proc.paused and proc.state == ProcessState.WAITING
    proc.resume('v')  # the wake-up: will be acted upon once played
    bundle = persistence.Bundle(proc)  # checkpoint of the paused, resumed process
    stepper.cancel()

    loaded = bundle.unbundle(persistence.LoadSaveContext(loop=asyncio.get_event_loop()))
    stepper = asyncio.ensure_future(loaded.step_until_terminated())
    await asyncio.sleep(0.01)
    loaded.play()
    try:
        await asyncio.wait_for(stepper, 1.0)
    except asyncio.TimeoutError:
        print(f'loaded process: playing (paused={loaded.paused}) but still {loaded.state}: the wake-up was not saved')
        return 1
    print('loaded process continued with', loaded.received)
    return 0


sys.exit(asyncio.run(main()))
