import sys,re,collections
c=collections.Counter()
ex={}
for l in open(sys.argv[1]):
    if 'sig=' not in l: continue
    l=l.strip().split('sig=')[1]
    parts=l.split(':')
    head=':'.join(parts[:-1]); pat=parts[-1]
    kinds='>'.join(x.split('@')[0] for x in pat.split('>'))
    c[(head,kinds)]+=1; ex.setdefault((head,kinds),pat)
for k,v in sorted(c.items()): print(v,k, ex[k])
