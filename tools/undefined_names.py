#!/venv/bin/python
"""usage: tools/undefined_names.py  -- a poor man's pyflakes for the harness: names read in a function of pv/ that are neither
local, nor enclosing, nor module-level, nor builtins (a typo or a stale variable in a rarely taken branch shows only at run time)."""
import ast, builtins, glob, os, sys
HERE = os.path.dirname(os.path.dirname(os.path.abspath(__file__)))
bad = 0
for path in sorted(glob.glob(os.path.join(HERE, 'pv', '*.py')) + glob.glob(os.path.join(HERE, 'pv', 'monitors', '*.py'))):
    tree = ast.parse(open(path).read())
    module_names = set(dir(builtins))
    for node in ast.walk(tree):
        if isinstance(node, (ast.Import, ast.ImportFrom)):
            module_names |= {(a.asname or a.name).split('.')[0] for a in node.names}
        elif isinstance(node, (ast.FunctionDef, ast.AsyncFunctionDef, ast.ClassDef)):
            module_names.add(node.name)
        elif isinstance(node, ast.Name) and isinstance(node.ctx, (ast.Store, ast.Del)):
            module_names.add(node.id)   # (over-approximation: any assigned name anywhere counts)
        elif isinstance(node, ast.arg):
            module_names.add(node.arg)
        elif isinstance(node, ast.ExceptHandler) and node.name:
            module_names.add(node.name)
        elif isinstance(node, ast.Global):
            module_names |= set(node.names)
    # per function: names loaded that are not assigned anywhere in THAT function or its enclosing functions, nor at module level by def/import/assign at top level
    top = set(dir(builtins))
    for n in tree.body:
        for sub in ast.walk(n) if not isinstance(n, (ast.FunctionDef, ast.AsyncFunctionDef, ast.ClassDef)) else [n]:
            if isinstance(sub, (ast.Import, ast.ImportFrom)):
                top |= {(a.asname or a.name).split('.')[0] for a in sub.names}
            elif isinstance(sub, (ast.FunctionDef, ast.AsyncFunctionDef, ast.ClassDef)):
                top.add(sub.name)
            elif isinstance(sub, ast.Name) and isinstance(sub.ctx, ast.Store):
                top.add(sub.id)
    def scope_names(fn):
        names = set()
        for sub in ast.walk(fn):
            if isinstance(sub, ast.Name) and isinstance(sub.ctx, (ast.Store, ast.Del)):
                names.add(sub.id)
            elif isinstance(sub, ast.arg):
                names.add(sub.arg)
            elif isinstance(sub, (ast.FunctionDef, ast.AsyncFunctionDef, ast.ClassDef)):
                names.add(sub.name)
            elif isinstance(sub, (ast.Import, ast.ImportFrom)):
                names |= {(a.asname or a.name).split('.')[0] for a in sub.names}
            elif isinstance(sub, ast.ExceptHandler) and sub.name:
                names.add(sub.name)
            elif isinstance(sub, (ast.Global, ast.Nonlocal)):
                names |= set(sub.names)
        return names
    def visit(node, enclosing):
        for child in ast.iter_child_nodes(node):
            if isinstance(child, (ast.FunctionDef, ast.AsyncFunctionDef, ast.Lambda)):
                local = scope_names(child) | enclosing
                for sub in ast.walk(child):
                    if isinstance(sub, ast.Name) and isinstance(sub.ctx, ast.Load) and sub.id not in local and sub.id not in top:
                        print('%s:%d: %s' % (os.path.relpath(path, HERE), sub.lineno, sub.id))
                        globals()['bad'] += 1
                visit(child, local)
            elif isinstance(child, ast.ClassDef):
                visit(child, enclosing)  # (names of the class body are not visible inside its methods)
            else:
                visit(child, enclosing)
    visit(tree, set())
sys.exit(1 if bad else 0)
