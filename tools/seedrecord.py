#!/venv/bin/python
"""usage: seedrecord.py <PROP> <x> <srcdir> <patchfile> <detected-by: 'C04 quick: kill-lost...'> [note]
Copies a confirmed seeded change into /verif/seeded/<PROP>-<x>/ and writes meta.json."""
import json, os, shutil, subprocess, sys
prop, x, src, patch, detected = sys.argv[1:6]
note = sys.argv[6] if len(sys.argv) > 6 else ''
dst = '/verif/seeded/%s-%s' % (prop, x)
os.makedirs(dst, exist_ok=True)
shutil.copy(patch, os.path.join(dst, 'patch.diff'))
orig = os.path.join(src, 'patch.diff')
if os.path.abspath(orig) != os.path.abspath(patch):
    shutil.copy(orig, os.path.join(dst, 'patch.pinned-commit.diff'))
shutil.copy(os.path.join(src, 'demo.py'), os.path.join(dst, 'demo.py'))
notes = open(os.path.join(src, 'notes.md')).read()
open(os.path.join(dst, 'notes.md'), 'w').write(notes)
head = subprocess.run(['git', '-C', '/repo', 'rev-parse', '--short', 'HEAD'], capture_output=True, text=True).stdout.strip()
meta = {
    'property': prop,
    'origin': 'independent sub-agent given only the property text and a scratch worktree',
    'needs_to_manifest': ' '.join(notes.split('\n\n')[1:3]).strip()[:900] if '\n\n' in notes else notes[:900],
    'applies_to_repo_commit': head,
    'ported_from_pinned_commit': os.path.abspath(orig) != os.path.abspath(patch),
    'confirmed_by_me': 'tools/seedverify.sh: applies to /repo HEAD, repository suite 186 passed with it, demo.py exits non-zero with it and 0 without it',
    'detected_by': detected,
    'note': note,
}
json.dump(meta, open(os.path.join(dst, 'meta.json'), 'w'), indent=1)
print('recorded', dst)
