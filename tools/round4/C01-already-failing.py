"""UNCHANGED tree, property C01 (terminal states are final) - already violated when the communicator faults.

Process.on_entered() broadcasts the state change *after* the new state has been assigned.  Only ConnectionClosed,
ChannelInvalidStateError and kiwipy.TimeoutError are caught there; any other exception from broadcast_send() (here:
kiwipy.CommunicatorClosed from a kiwipy.LocalCommunicator that was closed while the process was still alive, or a
broadcast subscriber that raises - LocalCommunicator calls subscribers synchronously) makes transition_to() fail
with `initial_state` == the live state the transition started from, so the terminal-state guard of
Process.transition_failed() does not apply and the process is forced on into EXCEPTED although KILLED / FINISHED had
already been entered (and `on_killed`/`on_finished` hooks had already run with state == KILLED / FINISHED).

The same amplification (an exception after `_state` was assigned, inside StateMachine.transition_to) is what any
fault in on_terminated()/close() would hit too.

Run:  PYTHONPATH=<tree>/src /venv/bin/python already-failing.py     (exit 1 = violation reproduced)
"""
import asyncio
import sys

import kiwipy
import plumpy
from plumpy import ProcessState


class Proc(plumpy.Process):
    async def run(self):
        return 5

    # record the states that are *entered* (public hooks), independent of listeners
    def on_entered(self, from_state):
        self.entered = getattr(self, 'entered', []) + [self.state]
        super().on_entered(from_state)


def report(name, proc, expected):
    terminal = [s for s in proc.entered if s in (ProcessState.FINISHED, ProcessState.KILLED, ProcessState.EXCEPTED)]
    print(f'{name}: states entered={[s.value for s in proc.entered]} final={proc.state.value}')
    if len(terminal) > 1 or proc.state != expected:
        print(f'  VIOLATION: {terminal[0].value} was entered and then left for {proc.state.value}')
        return False
    return True


async def main():
    ok = True

    # 1. the communicator is closed (e.g. shutdown) before the still-live process is killed
    communicator = kiwipy.LocalCommunicator()
    proc = Proc(communicator=communicator)
    communicator.close()
    try:
        proc.kill('shutting down')
    except Exception as exc:
        print('  kill raised', type(exc).__name__, exc)
    ok &= report('kill after the communicator was closed', proc, ProcessState.KILLED)

    # 2. a broadcast subscriber (another party listening for state changes) raises when told about the termination
    communicator = kiwipy.LocalCommunicator()

    def subscriber(_comm, body, sender, subject, correlation_id):
        if subject.endswith('.finished'):
            raise RuntimeError('subscriber cannot cope')

    communicator.add_broadcast_subscriber(subscriber)
    proc = Proc(communicator=communicator)
    try:
        await proc.step_until_terminated()
    except Exception as exc:
        print('  stepping raised', type(exc).__name__, exc)
    ok &= report('finish while a broadcast subscriber raises', proc, ProcessState.FINISHED)
    return ok


if __name__ == '__main__':
    sys.exit(0 if asyncio.run(main()) else 1)
