# -*- coding: utf-8 -*-
"""Histories / inputs for which the UNCHANGED tree already violates the C13 statement.

Run as:  PYTHONPATH=<tree>/src /venv/bin/python already-failing.py
Prints one line per finding; exits 1 if at least one violation was reproduced (expected on the unchanged tree).
"""
import asyncio
import sys
from unittest import mock

import plumpy
from plumpy import ProcessState


class Kwargs(plumpy.Process):
    """Continue(f, **k) with keyword names that collide with parameters of Running.__init__ / create_state"""

    KW = {}

    def run(self):
        return plumpy.Continue(self.second, **self.KW)

    def second(self, *args, **kwargs):
        return {'args': args, 'kwargs': kwargs}


class Waiter(plumpy.Process):
    def run(self):
        return plumpy.Wait(self.after)

    def after(self, *args, **kwargs):
        return {'args': args, 'kwargs': kwargs}


class Mutating(plumpy.Process):
    def run(self):
        return plumpy.Continue(self.second, [1, 2, 3])

    def second(self, values):
        seen = list(values)
        values.append('mutated by the step')
        return seen


async def until(proc, state):
    task = asyncio.ensure_future(proc.step_until_terminated())
    for _ in range(1000):
        if proc.state == state or task.done():
            break
        await asyncio.sleep(0)
    return task


def outcome(proc):
    if proc.state == ProcessState.FINISHED:
        return proc.result()
    if proc.state == ProcessState.EXCEPTED:
        return 'EXCEPTED %r' % proc.exception()
    return str(proc.state)


def main():
    loop = asyncio.new_event_loop()
    asyncio.set_event_loop(loop)
    findings = []

    # 1. keyword arguments named like the parameters of the state constructor never reach the step
    for name in ('process', 'run_fn', 'state_label'):
        Kwargs.KW = {name: 1}
        proc = Kwargs()
        loop.run_until_complete(proc.step_until_terminated())
        expected = {'args': (), 'kwargs': {name: 1}}
        if outcome(proc) != expected:
            findings.append(f'Continue(f, {name}=1): {outcome(proc)} (expected f({name}=1) -> {expected})')

    # 2. a resume value that compares equal to everything (``result == NULL`` in Waiting.execute) is dropped: f() not f(v)
    async def any_value():
        proc = Waiter()
        task = await until(proc, ProcessState.WAITING)
        proc.resume(mock.ANY)
        await task
        return proc

    proc = loop.run_until_complete(any_value())
    if outcome(proc) != {'args': (mock.ANY,), 'kwargs': {}} or len(outcome(proc)['args']) != 1:
        findings.append(f'resume(mock.ANY): next step called with {outcome(proc)} (expected one argument)')

    # 3. a value resumed just before a checkpoint is not part of the checkpoint: the restored process waits forever
    async def resume_then_checkpoint():
        proc = Waiter()
        task = await until(proc, ProcessState.WAITING)
        proc.resume('v')  # accepted: the wait is over ...
        bundle = plumpy.Bundle(proc, dereference=True)  # ... but the step has not consumed the value yet
        task.cancel()
        restored = bundle.unbundle(plumpy.LoadSaveContext(loop=loop))
        task = asyncio.ensure_future(restored.step_until_terminated())
        try:
            await asyncio.wait_for(task, 1)
        except asyncio.TimeoutError:
            pass
        return restored

    proc = loop.run_until_complete(resume_then_checkpoint())
    if outcome(proc) != {'args': ('v',), 'kwargs': {}}:
        findings.append(f'resume("v"), checkpoint, restore: {outcome(proc)} (expected f("v") to run)')

    # 4. two processes recreated from the same (not persister-copied) Bundle share the pending step's arguments
    async def restore_twice():
        proc = Mutating()
        await proc.step()  # CREATED -> RUNNING(run)
        await proc.step()  # run returns Continue(second, [1, 2, 3]) -> RUNNING(second)
        bundle = plumpy.Bundle(proc, dereference=True)
        results = []
        for _ in range(2):
            restored = bundle.unbundle(plumpy.LoadSaveContext(loop=loop))
            await restored.step_until_terminated()
            results.append(outcome(restored))
        return results

    results = loop.run_until_complete(restore_twice())
    if results != [[1, 2, 3], [1, 2, 3]]:
        findings.append(f'same Bundle restored twice: the step saw {results} (expected [1, 2, 3] both times)')

    for finding in findings:
        print('VIOLATION on this tree:', finding)
    if not findings:
        print('nothing reproduced')
    return 1 if findings else 0


if __name__ == '__main__':
    sys.exit(main())
