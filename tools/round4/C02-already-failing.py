# -*- coding: utf-8 -*-
"""Histories for which the UNCHANGED tree already violates C02.  Run: PYTHONPATH=<tree>/src /venv/bin/python already-failing.py

Prints one line per finding; exits 1 if at least one violation was observed (which is the case on the unchanged tree).

 F1 (main finding)  exit-hook fault + process failed underneath a waiting step => step_until_terminated() never returns.
    Mechanism: the stepper is blocked in Waiting.execute() on the waiting future.  A call_soon callback raises ->
    callback_excepted -> fail() -> transition_to(EXCEPTED).  The EXITING hook (on_exit_waiting) raises *before*
    Waiting.do_exit() ran, so StateMachine.transition_to goes to transition_failed(), whose nested transition skips
    _exit_current_state (``_transition_failing``).  Waiting.exit() - the only place that wakes the blocked execute() -
    is therefore never called: the process is EXCEPTED, closed, its future resolved, listeners notified, but the
    stepping coroutine stays blocked forever.
    Candidate fix: in the nested (failing) transition still wake the state being abandoned (e.g. call a non-raising
    ``State.abandon()``/do_exit in a try), or let Process.on_terminated resolve a pending Waiting future.

 F2 close() on a live process, then kill(): state becomes KILLED but the future is never resolved and no listener is
    notified (on_close dropped the state event hooks; kill() is not guarded by ensure_not_closed).

 F3 a cleanup that calls process.close() ("safe to call multiple times") re-enters on_close because ``_closed`` is only
    set at the very end: the cleanups run ~200 times (until RecursionError is swallowed) instead of exactly once.

 F4 late fault after FINISHED was entered (here: on_finished override raising after super): listeners receive TWO
    terminal notifications (finished, then excepted) and the future object handed out earlier resolved to the outputs
    although the process ends EXCEPTED (the future is replaced in on_except).
"""

import asyncio
import sys

import plumpy

FOUND = []


class Recorder(plumpy.ProcessListener):
    def __init__(self):
        super().__init__()
        self.terminal = []

    def on_process_finished(self, process, outputs):
        self.terminal.append('finished')

    def on_process_excepted(self, process, reason):
        self.terminal.append('excepted')

    def on_process_killed(self, process, msg):
        self.terminal.append('killed')


# ---------------------------------------------------------------- F1
class FaultyExitHook(plumpy.Process):
    def run(self):
        self.call_soon(self.boom)
        return plumpy.Wait(self.after)

    def boom(self):
        raise RuntimeError('boom')

    def after(self):
        pass

    def on_exit_waiting(self):
        super().on_exit_waiting()
        raise ValueError('exit hook fault')


async def f1():
    proc = FaultyExitHook()
    task = asyncio.ensure_future(proc.step_until_terminated())
    for _ in range(50):
        await asyncio.sleep(0)
    terminated = proc.has_terminated() and proc.future().done() and proc._closed
    try:
        await asyncio.wait_for(task, 1)
    except asyncio.TimeoutError:
        if terminated:
            FOUND.append(f'F1: process is {proc.state}, closed, future resolved, but step_until_terminated() never returns')


# ---------------------------------------------------------------- F2
class JustWaits(plumpy.Process):
    def run(self):
        return plumpy.Wait()


def f2():
    proc, rec = JustWaits(), Recorder()
    proc.add_process_listener(rec)
    proc.close()
    proc.kill('bye')
    if proc.state == plumpy.ProcessState.KILLED and (not proc.future().done() or rec.terminal != ['killed']):
        FOUND.append(f'F2: KILLED after close(): future done={proc.future().done()}, notifications={rec.terminal}')


# ---------------------------------------------------------------- F3
def f3():
    proc, runs = JustWaits(), []

    def cleanup():
        runs.append(1)
        proc.close()

    proc.add_cleanup(cleanup)
    proc.kill('x')
    if len(runs) != 1:
        FOUND.append(f'F3: a cleanup calling close() ran {len(runs)} times')


# ---------------------------------------------------------------- F4
class LateFault(plumpy.Process):
    def run(self):
        return 5

    def on_finished(self):
        super().on_finished()
        raise RuntimeError('late fault')


def f4():
    proc, rec = LateFault(), Recorder()
    proc.add_process_listener(rec)
    early = proc.future()
    try:
        proc.execute()
    except RuntimeError:
        pass
    if len(rec.terminal) != 1 or (early.done() and not early.cancelled() and early.exception() is None):
        FOUND.append(
            f'F4: state {proc.state}, terminal notifications {rec.terminal}, '
            f'the future handed out before resolved to outputs: {early.done() and early.exception() is None}'
        )


if __name__ == '__main__':
    import logging

    logging.disable(logging.CRITICAL)
    asyncio.get_event_loop().run_until_complete(f1())
    f2()
    f3()
    f4()
    for line in FOUND:
        print(line)
    sys.exit(1 if FOUND else 0)
