# -*- coding: utf-8 -*-
"""Histories for which the UNCHANGED tree already departs from the C09 statement.  Exits 1 if any is reproduced.

Case 1 (order of calls): a checkpoint taken from inside an ``elif_`` predicate (the way ``test_listener_persistence``
takes one from inside a step).  ``_IfStepper.step`` bumps ``_pos`` for every false predicate *while* it is evaluating
them and only creates the child stepper afterwards, so the saved state is ``_pos == 1, no child``.  On reload the loop
starts again at the first conditional but keeps counting from the saved ``_pos``: the predicates are evaluated a second
time and the branch *after* the one whose predicate was true is taken (or none at all if there is no such branch).

Case 2 (result, literal reading of "in every case the result is ... the value returned by the last step executed"):
when the last step executed returns a context assignment the result is that dict if the step is the last instruction
of the outline, but None if the chain then runs off the end through a finished ``while_`` / ``if_``.
"""

import sys

import plumpy
from plumpy import WorkChain, if_, while_

SAVED = {}


class Base(WorkChain):
    def _log(self, name):
        self.ctx.setdefault('trace', []).append(name)


class SavedInPredicate(Base):
    @classmethod
    def define(cls, spec):
        super().define(spec)
        spec.outline(cls.s1, if_(cls.is_a)(cls.x1).elif_(cls.is_b)(cls.y1).else_(cls.z1), cls.s2)

    def s1(self):
        self._log('s1')

    def s2(self):
        self._log('s2')

    def x1(self):
        self._log('x1')

    def y1(self):
        self._log('y1')

    def z1(self):
        self._log('z1')

    def is_a(self):
        self._log('is_a')
        return False

    def is_b(self):
        self._log('is_b')
        if 'bundle' not in SAVED:
            SAVED['bundle'] = plumpy.Bundle(self, dereference=True)
        return True


class ContextAssignmentLast(Base):
    @classmethod
    def define(cls, spec):
        super().define(spec)
        spec.outline(cls.assign)

    def assign(self):
        self._log('assign')
        return {}


class ContextAssignmentLastInLoop(ContextAssignmentLast):
    @classmethod
    def define(cls, spec):
        super().define(spec)
        spec.outline(while_(cls.once)(cls.assign))

    def once(self):
        self._log('once')
        return self.ctx.trace.count('once') == 1


def main():
    failed = False

    original = SavedInPredicate()
    original.execute()
    restarted = SAVED['bundle'].unbundle()
    restarted.execute()
    print('case 1  uninterrupted :', original.ctx.trace)
    print('        restarted     :', restarted.ctx.trace)
    if [name for name in restarted.ctx.trace if name in ('x1', 'y1', 'z1')] != ['y1']:
        print('        -> is_b was true when the checkpoint was taken and is true again, yet the branch taken is not y1')
        failed = True

    last = ContextAssignmentLast()
    last.execute()
    loop = ContextAssignmentLastInLoop()
    loop.execute()
    print('case 2  assign is the last instruction : calls', last.ctx.trace, 'result', repr(last.result()))
    print('        assign is the last step of loop: calls', loop.ctx.trace, 'result', repr(loop.result()))
    if last.result() != loop.result():
        print('        -> the last step executed returned {} in both, the results differ')
        failed = True

    return 1 if failed else 0


if __name__ == '__main__':
    sys.exit(main())
