"""Histories/inputs for which the UNCHANGED tree already violates C07 (save -> load -> save).

Run as:  PYTHONPATH=<tree>/src /venv/bin/python already-failing.py     (exits 1 and lists the violations found)

1. custom object loader with its own identifier scheme
   ``Savable.save_members`` saves nested savables (process future, event helper, pause future) with ``value.save()``,
   i.e. WITHOUT the save context, so their class names are written by the default loader ('module:Name'), while
   ``Savable._get_value`` loads them WITH the load context, i.e. through the custom loader.  A custom loader that only
   understands its own identifiers can save a process but can never load it again.
2. continuation that is not a public method of the process
   ``Running``/``Waiting`` store ``run_fn.__name__`` / ``done_callback.__name__`` and restore it with
   ``getattr(process, name)``: a process whose next step is a module level function (``Continue(free_function)``,
   accepted and executed fine) or a name-mangled private method (``Wait(self.__after)``) can be saved in its
   RUNNING/WAITING state but loading that bundle raises AttributeError.
"""
import asyncio
import importlib
import sys

import plumpy
from plumpy import persistence


class AliasLoader(plumpy.ObjectLoader):
    """identifiers of the form  alias!module!name"""

    def load_object(self, identifier):
        tag, mod, name = identifier.split('!')
        assert tag == 'alias'
        return getattr(importlib.import_module(mod), name)

    def identify_object(self, obj):
        return f'alias!{obj.__module__}!{obj.__name__}'


class Plain(plumpy.Process):
    async def run(self):
        return 1


def free_step(*_args):
    return 5


class FreeContinuation(plumpy.Process):
    async def run(self):
        return plumpy.Continue(free_step)


class PrivateContinuation(plumpy.Process):
    async def run(self):
        return plumpy.Wait(self.__after, msg='w')

    def __after(self, *_args):
        return 1


def save_load_save(proc, context=None):
    bundle = persistence.Bundle(proc, context)
    load_context = persistence.LoadSaveContext(loop=proc.loop)
    if context is not None:
        load_context = context.copyextend(loop=proc.loop)
    loaded = bundle.unbundle(load_context)
    persistence.Bundle(loaded, context)
    return loaded


def main():
    loop = asyncio.new_event_loop()
    asyncio.set_event_loop(loop)
    found = []

    # 1. custom loader
    proc = Plain(loop=loop)
    try:
        save_load_save(proc, persistence.LoadSaveContext(loader=AliasLoader()))
    except Exception as exc:
        found.append(f'custom loader with own identifiers: saved, but loading raised {type(exc).__name__}: {exc}')

    # 2. continuations restored by bare name
    for cls in (FreeContinuation, PrivateContinuation):
        proc = cls(loop=loop)
        original = proc.on_entered

        def hook(from_state, proc=proc, original=original, name=cls.__name__):
            original(from_state)
            try:
                save_load_save(proc)
            except Exception as exc:
                found.append(f'{name} at {proc.state}: saved, but loading raised {type(exc).__name__}: {exc}')

        proc.on_entered = hook

        async def drive(proc=proc):
            task = loop.create_task(proc.step_until_terminated())
            await asyncio.sleep(0.05)
            if proc.state == plumpy.ProcessState.WAITING:
                proc.resume()
            await task

        loop.run_until_complete(drive())
        assert proc.state == plumpy.ProcessState.FINISHED  # the program itself is legal and runs to the end

    for line in found:
        print(line)
    return 1 if found else 0


if __name__ == '__main__':
    sys.exit(main())
