"""Inputs for which the UNCHANGED tree already violates C11 (exit status 1 when at least one case is violated).

1. ``ports.UNSPECIFIED = ()`` is compared with ``is`` and CPython has a single empty tuple object: a caller who passes
   ``()`` (or ``tuple()``) for an optional, typed port has the value treated as "not specified" by ``Port.validate``:
   neither ``valid_type`` nor the validator is applied, the process is created and ``inputs.a == ()``.
2. ``PortNamespace.validate`` starts with ``if not port_values: port_values = {}`` before the ``Mapping`` check, and
   ``pre_process`` wraps whatever it is given in ``AttributesFrozendict(...)``: an empty, non mapping iterable
   (``''``, ``[]``, ``()``, ``set()``) passed for a namespace is accepted and silently becomes ``{}`` in ``inputs``.
3. ``AttributesFrozendict`` has no ``__setattr__``: ``proc.inputs.a = 99`` succeeds and from then on ``proc.inputs.a``
   (the attribute way of reading the mapping) gives 99 while ``proc.inputs['a']`` still gives the real value.
"""
import sys

import plumpy


def never(value, port):
    return 'this validator rejects everything'


class P(plumpy.Process):
    @classmethod
    def define(cls, spec):
        super().define(spec)
        spec.input('a', valid_type=int, required=False, validator=never)
        spec.input('b', valid_type=int, default=1)
        spec.input_namespace('ns', required=False)
        spec.input('ns.x', valid_type=int, required=False)


violations = []

# sanity: another value of the wrong type is rejected
try:
    P(inputs={'a': 'x'})
except ValueError:
    pass
else:
    print('sanity failed: str accepted for int port')
    sys.exit(2)

# 1
try:
    proc = P(inputs={'a': tuple()})
except (ValueError, TypeError):
    pass
else:
    violations.append(
        f'1: process created with inputs.a = {proc.inputs.a!r} for a port with valid_type=int and a validator that '
        'rejects every value'
    )

# 2
for value in ('', [], set()):
    try:
        proc = P(inputs={'ns': value})
    except (ValueError, TypeError):
        continue
    violations.append(
        f'2: process created with the non mapping {value!r} for the namespace `ns`: inputs.ns = {proc.inputs.ns!r}, '
        f'raw_inputs.ns = {proc.raw_inputs.ns!r}'
    )

# 3
proc = P()
try:
    proc.inputs.b = 99
except (TypeError, AttributeError):
    pass
else:
    if proc.inputs.b != proc.inputs['b']:
        violations.append(
            f"3: `proc.inputs.b = 99` was accepted: inputs.b = {proc.inputs.b!r} but inputs['b'] = {proc.inputs['b']!r}"
        )

for violation in violations:
    print('VIOLATION', violation)
sys.exit(1 if violations else 0)
