# -*- coding: utf-8 -*-
"""Histories / inputs for which the UNCHANGED tree already departs from the C12 statement.

Run as `PYTHONPATH=<tree>/src /venv/bin/python already-failing.py`; exits 1 and lists the findings that reproduce.
"""

import sys

from plumpy import Process


class Emitter(Process):
    @classmethod
    def define(cls, spec):
        super().define(spec)
        spec.inputs.dynamic = True

    def run(self):
        self.log = []
        for path, value in self.inputs.emissions:
            try:
                self.out(path, value)
            except Exception as exception:
                self.log.append((path, f'{type(exception).__name__}: {exception}'))
            else:
                self.log.append((path, 'stored'))
        return 0


def run(cls, emissions):
    process = cls(inputs={'emissions': emissions})
    try:
        process.execute()
    except Exception as exception:
        process.log.append(('<execute>', f'{type(exception).__name__}: {exception}'))
    return process


def finding_1():
    """A REJECTED nested emission leaves a namespace behind in the (class level) output spec: afterwards a value the
    declared spec accepts is refused, in the same process and in every later process of the class."""

    class P(Emitter):
        @classmethod
        def define(cls, spec):
            super().define(spec)
            spec.output_namespace('dyn', valid_type=int, required=False)

    class Fresh(P):
        pass

    fresh = run(Fresh, [('dyn.a', 1)])  # same spec, no history
    first = run(P, [('dyn.a.b', 'bad'), ('dyn.a', 1)])
    later = run(P, [('dyn.a', 1)])
    if fresh.log[0][1] == 'stored' and (first.log[1][1] != 'stored' or later.log[0][1] != 'stored'):
        return (
            "out('dyn.a', 1) is stored by a process without history "
            f"but after a rejected out('dyn.a.b', 'bad'): same process -> {first.log[1][1]!r}; "
            f'next process of the class -> {later.log[0][1]!r}'
        )
    return None


def finding_2():
    """`UNSPECIFIED` is the empty tuple, which is a value one can emit: the type check is skipped for it."""

    class P(Emitter):
        @classmethod
        def define(cls, spec):
            super().define(spec)
            spec.output('number', valid_type=int, required=False)

    process = run(P, [('number', ())])
    if process.log[0][1] == 'stored':
        return (
            f"out('number', ()) stored on a port with valid_type=int: outputs={process.outputs!r}, "
            f'successful={process.is_successful}'
        )
    return None


def finding_3():
    """A `KeyError` raised by the validator of a declared port is taken for 'no such port': in a dynamic namespace
    the value is then stored as a dynamic output, without the validator having accepted it."""

    def needs_key(value, port):
        if value['key'] < 0:
            return 'negative'
        return None

    class P(Emitter):
        @classmethod
        def define(cls, spec):
            super().define(spec)
            spec.outputs.dynamic = True
            spec.output('checked', validator=needs_key, required=False)

    process = run(P, [('checked', {'other': 1})])
    if process.log[0][1] == 'stored':
        return (
            f"out('checked', {{'other': 1}}) stored although the port validator raised KeyError: "
            f'outputs={process.outputs!r}, then: {process.log[1:]!r}, state={process.state}'
        )
    return None


def finding_4():
    """A falsy value that is not a mapping is accepted for a declared namespace (it is read as 'no values')."""

    class P(Emitter):
        @classmethod
        def define(cls, spec):
            super().define(spec)
            spec.output_namespace('names', valid_type=str, required=False)

    process = run(P, [('names', 0)])
    if process.log[0][1] == 'stored':
        return (
            f"out('names', 0) stored for a namespace with valid_type=str: outputs={process.outputs!r}, "
            f'successful={process.is_successful}'
        )
    return None


def main():
    found = []
    for check in (finding_1, finding_2, finding_3, finding_4):
        message = check()
        if message:
            found.append(f'{check.__name__}: {message}')
    for line in found:
        print(line)
    if not found:
        print('nothing reproduced')
    return 1 if found else 0


if __name__ == '__main__':
    sys.exit(main())
