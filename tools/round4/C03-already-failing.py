# -*- coding: utf-8 -*-
"""C03: histories/inputs for which the UNCHANGED tree already violates the property statement.

Run as:  PYTHONPATH=<tree>/src /venv/bin/python already-failing.py
Exits 1 and lists the violations it reproduced (all four reproduce on the unchanged tree), exits 0 if none does.

 1. A call_soon callback that cancels its own handle (or whose handle is cancelled while the callback is suspended at
    an await) and then raises: ``ProcessCallback.cancel()`` -> ``_cleanup()`` sets ``_process = None`` so the
    ``except`` branch of ``ProcessCallback.run`` dies with AttributeError("'NoneType' object has no attribute
    'callback_excepted'").  That AttributeError escapes into the event loop (task exception never retrieved) and the
    process is NOT failed (it stays WAITING).
 2. A call_soon callback that fails while the process is in the middle of a state transition.  This is possible
    because the loop is re-entrant: a state hook (here ``on_exit_running``) runs a child process with ``execute()``,
    the nested loop run executes the pending callback task, ``callback_excepted`` -> ``fail`` -> ``transition_to``
    hits ``assert not self._transitioning``.  The AssertionError escapes into the event loop and the process ends
    FINISHED instead of EXCEPTED.
 3. A step function raising an exception whose ``__str__`` raises: ``on_excepted`` calls
    ``str(self.future().exception())`` outside any listener try, so entering EXCEPTED fails and the process ends
    EXCEPTED with the exception raised by ``__str__`` - not "exactly that exception".
 4. A step function that fails in the same step in which the process future was cancelled: ``step`` first clears the
    pending actions for the failure and then honours the cancelled future with ``kill()``, whose action ignores the
    EXCEPTED next state: the process ends KILLED and the step function's exception is lost.
"""

import asyncio
import gc
import sys
import warnings

warnings.simplefilter('ignore')

import plumpy
from plumpy import Process, ProcessState

plumpy.set_event_loop_policy()  # re-entrant loop, needed for the nested execute() of case 2
loop = asyncio.get_event_loop()
loop_errors = []
loop.set_exception_handler(lambda _loop, context: loop_errors.append(context))

violations = []


def drain():
    gc.collect()
    loop.run_until_complete(asyncio.sleep(0.05))
    gc.collect()
    errors = [f"{ctx.get('message')}: {ctx.get('exception')!r}" for ctx in loop_errors]
    loop_errors.clear()
    return errors


# --- 1 -------------------------------------------------------------------------------------------------------------
class SelfCancelling(Process):
    def run(self):
        self.handle = self.call_soon(self.callback)
        return plumpy.Wait(self.after_wait)

    def callback(self):
        self.handle.cancel()
        raise RuntimeError('callback failed')

    def after_wait(self):
        return None


async def case1():
    proc = SelfCancelling()
    task = asyncio.ensure_future(proc.step_until_terminated())
    await asyncio.sleep(0.1)
    state = proc.state
    if not proc.has_terminated():
        proc.kill('cleanup')
    await task
    return state


state = loop.run_until_complete(case1())
errors = drain()
if state != ProcessState.EXCEPTED or errors:
    violations.append(f'1. self-cancelling failing callback: process {state} (expected EXCEPTED), escaped to loop: {errors}')


# --- 2 -------------------------------------------------------------------------------------------------------------
class Child(Process):
    def run(self):
        return 1


class NestedInHook(Process):
    def run(self):
        self.call_soon(self.callback)
        return plumpy.Continue(self.second)

    def second(self):
        return 5

    def callback(self):
        raise RuntimeError('callback failed')

    def on_exit_running(self):
        super().on_exit_running()
        Child().execute()  # nested loop run: executes the pending callback while we are mid-transition


proc = NestedInHook()
try:
    proc.execute()
except BaseException:  # noqa: BLE001
    pass
errors = drain()
if proc.state != ProcessState.EXCEPTED or errors:
    violations.append(f'2. callback failing during a transition: process {proc.state} (expected EXCEPTED), escaped to loop: {errors}')


# --- 3 -------------------------------------------------------------------------------------------------------------
class Unprintable(Exception):
    def __str__(self):
        raise ValueError('cannot render')


class RaisesUnprintable(Process):
    def run(self):
        self.raised = Unprintable()
        raise self.raised


proc = RaisesUnprintable()
try:
    proc.execute()
except BaseException:  # noqa: BLE001
    pass
drain()
if proc.state != ProcessState.EXCEPTED or proc.exception() is not proc.raised:
    violations.append(f'3. unprintable exception: process {proc.state} with {proc.exception()!r} instead of the raised Unprintable()')


# --- 4 -------------------------------------------------------------------------------------------------------------
class CancelThenFail(Process):
    def run(self):
        self.future().cancel()
        raise RuntimeError('step failed')


proc = CancelThenFail()
try:
    proc.execute()
except BaseException:  # noqa: BLE001
    pass
drain()
if proc.state != ProcessState.EXCEPTED:
    violations.append(f'4. step failing after its future was cancelled: process {proc.state} (expected EXCEPTED with the step exception)')


if violations:
    print('C03 violated on this tree:')
    for violation in violations:
        print('  -', violation)
    sys.exit(1)
print('none of the four histories violates C03 on this tree')
sys.exit(0)
