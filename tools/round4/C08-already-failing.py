# -*- coding: utf-8 -*-
"""
Histories / inputs for which the UNCHANGED tree already violates C08 ("resuming from any checkpoint reproduces the
uninterrupted execution").  Each case checkpoints at a step boundary, abandons the instance, loads the checkpoint in a
fresh event loop and continues.  Prints one line per case; exit status 1 if at least one case violates the property.

 1. private-step     a step / continuation whose name is mangled (``__finish``) is saved by ``__name__`` and cannot be
                     rebound on load: loading the checkpoint taken right before it raises AttributeError
 2. overridden-step  an outline that names the step of a base class explicitly (``Base.prepare``) runs ``Base.prepare``
                     uninterrupted, but the step is rebound by name on the class of the instance: after a restore
                     ``Sub.prepare`` runs instead
 3. ctx-output-alias an object emitted as output that is also kept in the context: uninterrupted, later changes made
                     through the context show up in the emitted output, after a restore they do not (outputs and
                     context are copied separately when saving and again when loading)
"""

import asyncio
import sys

import plumpy
from plumpy import WorkChain

TRACE = []


def fresh_loop():
    loop = asyncio.new_event_loop()
    asyncio.set_event_loop(loop)
    return loop


def advance(proc, nsteps):
    done = 0
    while not proc.has_terminated() and (nsteps is None or done < nsteps):
        proc.loop.run_until_complete(proc.step())
        done += 1
    return done


def observe(proc):
    return {'trace': list(TRACE), 'state': proc.state, 'outputs': dict(proc.outputs), 'ctx': dict(proc.ctx.__dict__)}


def run(cls, crash_point=None):
    del TRACE[:]
    proc = cls(loop=fresh_loop())
    if crash_point is not None:
        advance(proc, crash_point)
        persister = plumpy.InMemoryPersister()
        persister.save_checkpoint(proc)
        pid = proc.pid
        del proc
        proc = persister.load_checkpoint(pid).unbundle(plumpy.LoadSaveContext(loop=fresh_loop()))
    total = advance(proc, None)
    return observe(proc), total


class PrivateStep(WorkChain):
    @classmethod
    def define(cls, spec):
        super().define(spec)
        spec.outputs.dynamic = True
        spec.outline(cls.first, cls.__finish)

    def first(self):
        TRACE.append('first')
        self.ctx.value = 1

    def __finish(self):
        TRACE.append('finish')
        self.out('value', self.ctx.value)


class Base(WorkChain):
    @classmethod
    def define(cls, spec):
        super().define(spec)
        spec.outputs.dynamic = True
        # the preparation is not meant to be customised: the outline names the method of this class
        spec.outline(cls.first, Base.prepare, cls.finish)

    def first(self):
        TRACE.append('first')

    def prepare(self):
        TRACE.append('Base.prepare')
        self.ctx.value = 'base'

    def finish(self):
        TRACE.append('finish')
        self.out('value', self.ctx.value)


class Sub(Base):
    def prepare(self):
        TRACE.append('Sub.prepare')
        self.ctx.value = 'sub'


class Alias(WorkChain):
    @classmethod
    def define(cls, spec):
        super().define(spec)
        spec.outputs.dynamic = True
        spec.outline(cls.first, cls.second)

    def first(self):
        TRACE.append('first')
        self.ctx.log = ['first']
        self.out('log', self.ctx.log)

    def second(self):
        TRACE.append('second')
        self.ctx.log.append('second')


def main():
    violations = 0
    for name, cls in (('private-step', PrivateStep), ('overridden-step', Sub), ('ctx-output-alias', Alias)):
        reference, total = run(cls)
        bad = []
        for point in range(0, total):
            try:
                observed, _ = run(cls, point)
            except Exception as exception:
                bad.append(f'boundary {point}: raised {exception!r}')
                continue
            differing = {key: (reference[key], observed[key]) for key in reference if reference[key] != observed[key]}
            if differing:
                bad.append(f'boundary {point}: {differing}')
        if bad:
            violations += 1
            print(f'{name}: VIOLATED')
            for line in bad:
                print(f'    {line}')
        else:
            print(f'{name}: ok')
    return 1 if violations else 0


if __name__ == '__main__':
    sys.exit(main())
