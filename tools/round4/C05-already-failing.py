# -*- coding: utf-8 -*-
"""UNCHANGED tree: a process created with an explicit ``loop=`` that is not the thread's current event loop cannot be
paused from outside that loop (e.g. before it is started).

``Process.on_paused`` creates the future that represents the paused period with ``persistence.SavableFuture()``, i.e.
bound to ``asyncio.get_event_loop()`` instead of ``self.loop``.  ``Process.step`` then awaits it from a task running on
``self.loop`` and asyncio refuses: "Task ... got Future <SavableFuture pending> attached to a different loop".  The
stepping coroutine dies with a RuntimeError, the process never runs, whereas the same program without the pause/play pair
completes normally.  Exits 1 if the violation is observed, 0 otherwise.
"""

import asyncio
import sys

import plumpy


class Prog(plumpy.Process):
    async def run(self):
        await asyncio.sleep(0)
        return 'done'


def main():
    current = asyncio.new_event_loop()
    asyncio.set_event_loop(current)
    other = asyncio.new_event_loop()

    # reference: no requests
    ref = Prog(loop=other)
    other.run_until_complete(ref.step_until_terminated())
    expected = ref.result()

    proc = Prog(loop=other)
    assert proc.pause('early pause') is True and proc.paused  # immediate pause, requested outside ``other``

    async def drive():
        task = asyncio.ensure_future(proc.step_until_terminated())
        for _ in range(5):
            await asyncio.sleep(0)
        if task.done():
            return f'the stepping task died while paused: {task.exception()!r}'
        proc.play()
        await asyncio.wait_for(task, 5)
        return None

    problem = other.run_until_complete(drive())
    if problem is None and proc.result() != expected:
        problem = f'result {proc.result()!r} != {expected!r}'
    if problem:
        print('PROPERTY VIOLATED on the unchanged tree:', problem)
        return 1
    print('ok')
    return 0


if __name__ == '__main__':
    sys.exit(main())
