# -*- coding: utf-8 -*-
"""Histories/inputs for which the UNCHANGED tree already violates the C19 statement.

Run as: PYTHONPATH=<tree>/src /venv/bin/python already-failing.py
Prints one line per case; exits 1 if at least one case violates the statement.
"""
import asyncio
import sys

import plumpy
from plumpy import persistence


class PrefixLoader(plumpy.DefaultObjectLoader):
    """A legal custom loader with its own identifier scheme ('reg!module:name')."""

    def identify_object(self, obj):
        return f'reg!{obj.__module__}:{obj.__name__}'

    def load_object(self, identifier):
        if not identifier.startswith('reg!'):
            raise ValueError(f'unknown identifier {identifier}')
        return super().load_object(identifier[4:])


@plumpy.auto_persist('x')
class Inner(plumpy.Savable):
    def __init__(self, x):
        self.x = x


@plumpy.auto_persist('inner')
class Outer(plumpy.Savable):
    def __init__(self):
        self.inner = Inner(5)


@plumpy.auto_persist('cb')
class Private(plumpy.Savable):
    def __init__(self):
        self.cb = self.__hidden

    def __hidden(self):
        return 'hidden'


@plumpy.auto_persist('a')
class MixA(plumpy.Savable):
    pass


@plumpy.auto_persist('b')
class MixB(plumpy.Savable):
    pass


@plumpy.auto_persist('c')
class Both(MixA, MixB):
    def __init__(self):
        self.a, self.b, self.c = 1, 2, 3


@plumpy.auto_persist('cookie')
class TaggedFuture(plumpy.SavableFuture):
    pass


failures = []


def case(name):
    def deco(fn):
        try:
            problem = fn()
        except Exception as exc:  # noqa: BLE001
            problem = f'{type(exc).__name__}: {exc}'
        print(f"{'VIOLATION' if problem else 'ok       '} {name}" + (f' -> {problem}' if problem else ''))
        if problem:
            failures.append(name)
        return fn

    return deco


@case('1. nested Savable saved with a per-save custom loader')
def nested_custom_loader():
    # save_members() saves the nested Savable with a bare value.save(): default identifiers, no loader recorded,
    # but on loading the nested state is resolved through the parent's (custom) loader
    state = Outer().save(plumpy.LoadSaveContext(loader=PrefixLoader()))
    loaded = plumpy.Savable.load(state)
    if not isinstance(loaded.inner, Inner) or loaded.inner.x != 5:
        return f'inner is {loaded.inner!r}'


@case('2. future resolved with a Savable result')
def future_savable_result():
    loop = asyncio.new_event_loop()
    fut = plumpy.SavableFuture(loop=loop)
    fut.set_result(Inner(7))
    loaded = plumpy.Savable.load(fut.save(), plumpy.LoadSaveContext(loop=loop))
    if not isinstance(loaded.result(), Inner):
        return f'result restored as {type(loaded.result()).__name__}: {loaded.result()!r}'


@case('3. member bound to a name-mangled (double underscore) method')
def private_method():
    loaded = plumpy.Savable.load(Private().save())
    if loaded.cb() != 'hidden' or loaded.cb.__self__ is not loaded:
        return 'not rebound'


@case('4. declarations of a second Savable base class')
def second_base():
    state = Both().save()
    loaded = plumpy.Savable.load(state)
    if getattr(loaded, 'b', None) != 2:
        return f"member 'b' declared by MixB is not saved (saved keys: {sorted(k for k in state if k != persistence.META)})"


@case('5. subclass of SavableFuture declaring an extra member')
def future_subclass():
    loop = asyncio.new_event_loop()
    fut = TaggedFuture(loop=loop)
    fut.cookie = 'abc'
    loaded = plumpy.Savable.load(fut.save(), plumpy.LoadSaveContext(loop=loop))
    if getattr(loaded, 'cookie', None) != 'abc':
        return "declared member 'cookie' is saved but not restored"


sys.exit(1 if failures else 0)
