"""Histories / inputs for which the UNCHANGED tree already violates the C10 statement.  Exits 1 if any is observed.

1. The same awaitable handed to the context under two keys.  ``WorkChain.to_context`` / ``Waiting.__init__`` keep the
   awaited items in a dictionary keyed by the awaitable, so ``ToContext(first=child, second=child)`` remembers only the
   last key: the next step does not find the result under 'first'.

2. A child that ends EXCEPTED after its future was already resolved.  ``Process.on_finish`` resolves the child's future
   when FINISHED is being entered; if the child's ``on_finished`` hook then raises, the child ends EXCEPTED and
   ``on_except`` replaces the (done) future by a new one carrying the exception.  The parent registered the old future:
   it sees a success, runs the next step and finishes although the awaited child failed.

3. A plain future that fails with an exception that is not an ``Exception`` (any other ``BaseException``, e.g.
   ``GeneratorExit``; legal for ``Future.set_exception``).  ``_awaitable_done`` only catches ``Exception``: the error
   escapes the done callback (logged by the loop), the item is forgotten, and once the siblings are in the next step runs.
"""

import asyncio
import sys

import plumpy
from plumpy import ToContext, WorkChain

violations = []


class Child(plumpy.Process):
    @classmethod
    def define(cls, spec):
        super().define(spec)
        spec.outputs.dynamic = True

    async def run(self):
        self.out('value', 7)


class ChildFailingInHook(Child):
    def on_finished(self):
        super().on_finished()
        raise RuntimeError('finished hook failed')


class Case1(WorkChain):
    @classmethod
    def define(cls, spec):
        super().define(spec)
        spec.outline(cls.start, cls.check)

    def start(self):
        child = self.launch(Child)
        return ToContext(first=child, second=child)

    def check(self):
        self.saw = {key: getattr(self.ctx, key, 'MISSING') for key in ('first', 'second')}


class Case2(WorkChain):
    @classmethod
    def define(cls, spec):
        super().define(spec)
        spec.outline(cls.start, cls.check)

    def start(self):
        self.check_ran = False
        self.child = self.launch(ChildFailingInHook)
        return ToContext(child=self.child)

    def check(self):
        self.check_ran = True


class Case3(WorkChain):
    @classmethod
    def define(cls, spec):
        super().define(spec)
        spec.outline(cls.start, cls.check)

    def start(self):
        self.check_ran = False
        self.failing = self.loop.create_future()
        self.sibling = self.loop.create_future()
        self.loop.call_later(0.01, self.failing.set_exception, GeneratorExit('not an Exception'))
        self.loop.call_later(0.05, self.sibling.set_result, 'ok')
        return ToContext(failing=self.failing, sibling=self.sibling)

    def check(self):
        self.check_ran = True


async def run(workchain):
    await asyncio.wait_for(workchain.step_until_terminated(), timeout=10)


def main():
    loop = asyncio.new_event_loop()
    asyncio.set_event_loop(loop)
    loop.set_exception_handler(lambda _loop, _context: None)

    wc = Case1()
    loop.run_until_complete(run(wc))
    print('case 1:', wc.state, wc.saw)
    if 'MISSING' in wc.saw.values():
        violations.append('case 1: a key handed to ToContext was not filled in for the next step')

    wc = Case2()
    loop.run_until_complete(run(wc))
    print('case 2: child', wc.child.state, repr(wc.child.exception()), '/ workchain', wc.state, 'next step ran:', wc.check_ran)
    if wc.child.state == plumpy.ProcessState.EXCEPTED and (wc.check_ran or wc.state != plumpy.ProcessState.EXCEPTED):
        violations.append('case 2: the awaited child ended EXCEPTED but the next step ran / the workchain did not except')

    wc = Case3()
    loop.run_until_complete(run(wc))
    print('case 3: failing future', repr(wc.failing.exception()), '/ workchain', wc.state, 'next step ran:', wc.check_ran)
    if wc.check_ran or wc.state != plumpy.ProcessState.EXCEPTED:
        violations.append('case 3: an awaited future failed but the next step ran / the workchain did not except')

    for violation in violations:
        print('VIOLATION:', violation)
    return 1 if violations else 0


if __name__ == '__main__':
    sys.exit(main())
