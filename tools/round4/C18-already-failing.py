# -*- coding: utf-8 -*-
"""C18 on the UNCHANGED tree: two overridable process hooks run outside any process scope.

* ``Process.init()`` ("common initialisation logic, after create or load") is called by the metaclass after the
  transition to CREATED (and by ``recreate_from``) without a process scope: inside it ``Process.current()`` is None, or
  the *parent* when the process is created/launched from another process's step.
* ``Process.callback_excepted()`` (called when a callback scheduled with ``call_soon`` raised) runs after the
  ``_run_task`` scope was left: ``Process.current()`` is whatever the scheduling code had (None / another process).

Whether these two count as "hooks" in the sense of the property statement is debatable (they are not ``on_*`` methods),
so this is reported as a marginal finding.  Exits 1 when the behaviour is observed.
"""

import asyncio
import sys

import plumpy
from plumpy import Process

PROBLEMS = []


def check(where, expected):
    got = Process.current()
    if got is not expected:
        PROBLEMS.append(f'{where}: Process.current() is {got!r}, expected {expected!r}')


class Child(Process):
    def init(self):
        super().init()
        check('Child.init()', self)

    def on_create(self):
        super().on_create()
        check('Child.on_create()', self)  # fine: runs inside transition_to's scope

    def run(self):
        return plumpy.Wait(msg='until the callback failed me')

    def boom(self):
        check('Child.boom() scheduled callback', self)  # fine
        raise RuntimeError('boom')

    def callback_excepted(self, callback, exception, trace):
        check('Child.callback_excepted()', self)
        super().callback_excepted(callback, exception, trace)


class Parent(Process):
    async def run(self):
        child = self.launch(Child)
        child.call_soon(child.boom)  # a callback of the child, scheduled from the parent's step
        try:
            await child.future()
        except RuntimeError:
            pass
        check('parent: end of step', self)


def main():
    plumpy.set_event_loop_policy()
    loop = asyncio.get_event_loop()
    parent = Parent()
    loop.run_until_complete(asyncio.wait_for(parent.step_until_terminated(), 10))
    if PROBLEMS:
        print('observed on this tree:')
        for problem in PROBLEMS:
            print('  -', problem)
        return 1
    print('OK')
    return 0


if __name__ == '__main__':
    sys.exit(main())
