# -*- coding: utf-8 -*-
"""UNCHANGED tree: a process recreated from a checkpoint taken in a terminal state subscribes itself to the
communicator in ``init()`` and, as no further transition (hence no ``on_terminated``/``close``) ever happens, it is
never unsubscribed: a terminated process keeps receiving RPC and broadcast messages.

(Second observation, same run: a ``pause``/``kill`` broadcast without a body - as ``play_all`` sends for ``play`` -
makes ``broadcast_receive`` raise ``AttributeError`` (``msg.get`` on ``None``) instead of pausing like ``pause()``.)

Exits 1 when the violation is observed, 0 otherwise."""
import asyncio
import sys

import kiwipy

import plumpy
from plumpy.process_comms import MessageBuilder


class Simple(plumpy.Process):
    received = 0

    def run(self):
        return 5

    def message_receive(self, _comm, msg):
        type(self).received += 1
        return super().message_receive(_comm, msg)


def main():
    loop = asyncio.new_event_loop()
    asyncio.set_event_loop(loop)

    original = Simple(loop=loop)
    loop.run_until_complete(original.step_until_terminated())
    assert original.has_terminated()
    bundle = plumpy.Bundle(original)

    comm = kiwipy.LocalCommunicator()
    recreated = bundle.unbundle(plumpy.LoadSaveContext(loop=loop, communicator=comm))
    assert recreated.has_terminated()

    failed = 0
    try:
        reply = comm.rpc_send(str(recreated.pid), MessageBuilder.pause('x')).result()
    except kiwipy.UnroutableError:
        print('ok: the terminated (recreated) process is not reachable by RPC')
    else:
        loop.run_until_complete(asyncio.sleep(0.05))
        print(
            f'VIOLATION: terminated process {recreated} still receives RPC messages '
            f'(handler ran {Simple.received}x, reply {reply.result()!r}); '
            f'rpc subscribers: {list(comm._rpc_subscribers)}, broadcast subscribers: {list(comm._broadcast_subscribers)}'
        )
        failed = 1

    # second observation: body-less pause broadcast on a live process
    comm2 = kiwipy.LocalCommunicator()
    live = Simple(loop=loop, communicator=comm2)
    try:
        comm2.broadcast_send(None, subject='pause')
        loop.run_until_complete(asyncio.sleep(0.05))
        if not live.paused:
            print('VIOLATION: body-less pause broadcast did not pause the process')
            failed = 1
    except AttributeError as exc:
        print(f'VIOLATION: body-less pause broadcast raises in broadcast_receive: {exc!r} (direct pause() works)')
        failed = 1

    return failed


if __name__ == '__main__':
    sys.exit(main())
