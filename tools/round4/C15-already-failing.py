# -*- coding: utf-8 -*-
"""Inputs for which the UNCHANGED tree does not do what the C15 statement says (each one is arguable, see the text).

Exits 1 and lists the findings that reproduce; exits 0 if none does.
"""

import sys

from plumpy.ports import PortNamespace
from plumpy.process_spec import ProcessSpec


def expose(source, destination, **kwargs):
    kwargs.setdefault('namespace', None)
    kwargs.setdefault('exclude', None)
    kwargs.setdefault('include', None)
    ProcessSpec._expose_ports(
        process_class=None,
        source=source.inputs,
        destination=destination.inputs,
        expose_memory=destination._exposed_inputs,
        **kwargs,
    )


def main():
    findings = []

    # 1. "leaves other ports of the destination in place": a port of the destination that lives in a nested namespace
    #    which the source has too is dropped, because the nested namespace is replaced, not merged
    source, destination = ProcessSpec(), ProcessSpec()
    source.input('sub.a')
    destination.input('sub.keep')
    expose(source, destination)
    if 'keep' not in destination.inputs['sub']:
        findings.append(f"1. destination port `sub.keep` is gone after exposing a source with `sub.a`: "
                        f"{sorted(destination.inputs['sub'])}")

    # 2. "with the source namespace's properties": `dynamic` of a source namespace that has a `valid_type` but was
    #    explicitly made non-dynamic afterwards is not preserved (properties are set in alphabetical order and the
    #    `valid_type` setter forces `dynamic = True`); same for a `dynamic: False` override next to a source valid_type
    source, destination = ProcessSpec(), ProcessSpec()
    source.input_namespace('sub', valid_type=int)
    source.inputs['sub'].dynamic = False
    source.inputs.valid_type = int
    source.inputs.dynamic = False
    expose(source, destination, namespace='ns')
    if destination.inputs['ns'].dynamic is not False:
        findings.append('2a. source namespace has dynamic=False (valid_type=int), exposed target has dynamic=True')
    if destination.inputs['ns']['sub'].dynamic is not False:
        findings.append('2b. nested source namespace has dynamic=False (valid_type=int), its copy has dynamic=True')
    source, destination = ProcessSpec(), ProcessSpec()
    source.inputs.valid_type = int
    expose(source, destination, namespace='ns', namespace_options={'dynamic': False})
    if destination.inputs['ns'].dynamic is not False:
        findings.append('2c. override `dynamic: False` is not honoured when the source has a valid_type')

    # 3. "the copy is independent": the `default` of a namespace is shared, not copied (leaf ports are deep copied),
    #    so changing it in place shows through, in both directions
    source, destination = ProcessSpec(), ProcessSpec()
    source.input_namespace('sub', default={'x': 1})
    source.inputs.default = {'y': 1}
    expose(source, destination, namespace='ns')
    source.inputs['sub'].default['x'] = 2
    destination.inputs['ns'].default['y'] = 2
    if destination.inputs['ns']['sub'].default != {'x': 1}:
        findings.append(f"3a. in place change of a source namespace default shows in the copy: "
                        f"{destination.inputs['ns']['sub'].default}")
    if source.inputs.default != {'y': 1}:
        findings.append(f'3b. in place change of the target namespace default shows in the source: '
                        f'{source.inputs.default}')

    # 4. "adds exactly the ports selected by the include rules": an empty include rule set selects nothing, yet
    #    everything is exposed (an empty rule list is taken for "no rules")
    source, destination = ProcessSpec(), ProcessSpec()
    source.input('a')
    source.input('sub.b')
    expose(source, destination, namespace='ns', include=[])
    if len(destination.inputs['ns']):
        findings.append(f"4. include=[] exposes {sorted(destination.inputs['ns'])}")

    # 5. a rejected call (include together with exclude; unsupported option) still leaves the target namespace behind
    source, destination = ProcessSpec(), ProcessSpec()
    source.input('a')
    try:
        expose(source, destination, namespace='ns', include=['a'], exclude=[])
    except ValueError:
        pass
    if 'ns' in destination.inputs:
        findings.append('5. rejected include+exclude (exclude=[]) call created the namespace `ns` in the destination')

    assert isinstance(destination.inputs, PortNamespace)

    for finding in findings:
        print(finding)
    return 1 if findings else 0


if __name__ == '__main__':
    sys.exit(main())
