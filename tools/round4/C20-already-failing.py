"""Two histories for which the UNCHANGED tree already violates the C20 statement.

Run as: PYTHONPATH=<tree>/src /venv/bin/python already-failing.py   (exits 1 when a violation is seen)
"""
import asyncio
import sys

from plumpy import communications, futures

problems = []


# 1. create_task: the scheduled coroutine ends with a cancellation (it awaits a future that gets cancelled, which raises
#    asyncio.CancelledError, a BaseException that kiwipy.capture_exceptions does not catch): the returned future, and
#    hence its communicator-side mirror, never ends at all.
async def cancelled_coroutine():
    loop = asyncio.get_running_loop()
    inner = loop.create_future()

    async def coro():
        return await inner

    fut = futures.create_task(coro, loop)
    mirror = communications.plum_to_kiwi_future(fut)
    await asyncio.sleep(0.05)
    inner.cancel()
    await asyncio.sleep(0.3)
    if not fut.done() or not mirror.done():
        problems.append(
            f'create_task: coroutine was cancelled but its future is still pending (done={fut.done()}, '
            f'mirror done={mirror.done()}): the outcome is never delivered'
        )


asyncio.run(cancelled_coroutine())


# 2. CancellableAction: a re-entrant run() (the function, directly or through a listener it triggers, calls run() on the
#    action that is executing it) is not refused: done() is still False, so the function runs a second time, and the
#    outer run() then leaks asyncio.InvalidStateError to its caller instead of reporting through the action.
async def reentrant_run():
    calls = []
    leaked = []

    def fn():
        calls.append(1)
        if len(calls) == 1:
            try:
                action.run()
            except Exception as exc:  # a refusal would be fine
                pass
        return len(calls)

    action = futures.CancellableAction(fn)
    try:
        action.run()
    except Exception as exc:
        leaked.append(exc)
    if len(calls) > 1:
        problems.append(f'CancellableAction: function ran {len(calls)} times through a re-entrant run()')
    if leaked:
        problems.append(f'CancellableAction: outer run() raised {leaked[0]!r} instead of reporting through the action')


asyncio.run(reentrant_run())

for problem in problems:
    print('VIOLATION (unchanged tree):', problem)
sys.exit(1 if problems else 0)
