# -*- coding: utf-8 -*-
"""UNCHANGED tree: "the configured object loader is the one used" does not hold for what gets written into a checkpoint.

A custom loader with its own identifier scheme (here: every identifier carries a 'v1|' prefix, anything else is refused)
is configured consistently everywhere: in the task body, in the launcher and in the persister.

 1. InMemoryPersister(loader=custom): the process class itself is identified with the custom loader, but the nested
    savables of the process (its state, its future, ...) are saved through ``Savable.save_members`` -> ``value.save()``
    and ``Process.save_instance_state`` -> ``self._state.save()`` WITHOUT the save context, i.e. identified with the
    global default loader.  The continue task then loads them with the configured (custom) loader, which refuses them.
 2. PicklePersister cannot be given a loader at all: ``Bundle(process)`` identifies even the process class with the
    default loader, the launcher's configured loader is then asked to load 'module:Class'.

In both cases a create(persist=True) / launch(persist=True) task succeeds, but the continue task for the returned pid
fails instead of resuming the checkpoint.  Exits 1 when the violation is observed (as it is on the unchanged tree).
"""

import asyncio
import sys
import tempfile

import plumpy
from plumpy import process_comms


class Proc(plumpy.Process):
    def run(self):
        pass


class PrefixLoader(plumpy.DefaultObjectLoader):
    PREFIX = 'v1|'

    def load_object(self, identifier):
        if not identifier.startswith(self.PREFIX):
            raise ValueError(f'identifier `{identifier}` was not made by this loader')
        return super().load_object(identifier[len(self.PREFIX) :])

    def identify_object(self, obj):
        identifier = f'{self.PREFIX}{obj.__module__}:{obj.__name__}'
        self.load_object(identifier)
        return identifier


async def scenario(name, persister, loader):
    launcher = plumpy.ProcessLauncher(persister=persister, loader=loader)
    pid = await launcher(None, process_comms.create_create_body(Proc, persist=True, loader=loader))
    try:
        result = await launcher(None, process_comms.create_continue_body(pid))
    except Exception as exc:
        return f'{name}: continue task of the process just created+persisted fails: {type(exc).__name__}: {exc}'
    if result != {}:
        return f'{name}: unexpected result {result!r}'
    return None


async def main(directory):
    loader = PrefixLoader()
    problems = [
        await scenario('InMemoryPersister(loader=custom)', plumpy.InMemoryPersister(loader=loader), loader),
        await scenario('PicklePersister', plumpy.PicklePersister(directory), loader),
    ]
    return [p for p in problems if p]


if __name__ == '__main__':
    with tempfile.TemporaryDirectory() as tmpdir:
        found = asyncio.run(main(tmpdir))
    for line in found:
        print('VIOLATION (unchanged tree):', line)
    sys.exit(1 if found else 0)
