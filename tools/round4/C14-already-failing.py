"""UNCHANGED tree: a save that fails half-way destroys the previously stored snapshot of the pickle persister.

History: save (pid, tag) successfully; the live process then puts a value that can be neither deep-copied nor pickled
(a lock) into its context; save (pid, tag) again -> raises TypeError with BOTH persisters.  Afterwards

  * InMemoryPersister : still returns the snapshot of the first save, listing unchanged
  * PicklePersister   : the file was opened with 'w+b' (truncated) before pickle.dump failed: load_checkpoint raises
                        EOFError/UnpicklingError and get_checkpoints() raises as well (for ALL processes in the directory)

so "loading returns the most recently saved snapshot" and the equivalence of the two persisters are violated.
Exits 1 when the violation is observed (as it is on the unchanged tree), 0 otherwise.
"""
import asyncio
import sys
import tempfile
import threading

import plumpy


class Chain(plumpy.WorkChain):
    @classmethod
    def define(cls, spec):
        super().define(spec)
        spec.outline(cls.step)

    def step(self):
        pass


def history(persister):
    proc = Chain(pid=1)
    other = Chain(pid=2)
    proc.ctx.value = 'first'
    persister.save_checkpoint(proc, 'tag')
    persister.save_checkpoint(other, 'tag')
    proc.ctx.lock = threading.Lock()
    try:
        persister.save_checkpoint(proc, 'tag')
    except Exception as exc:  # both persisters refuse
        failed = type(exc).__name__
    else:
        failed = None
    observations = [('second save failed', failed is not None)]
    try:
        observations.append(('load', persister.load_checkpoint(1, 'tag')['_context']['value']))
    except Exception as exc:
        observations.append(('load', f'raised {type(exc).__name__}'))
    try:
        observations.append(('list', sorted(persister.get_checkpoints())))
    except Exception as exc:
        observations.append(('list', f'raised {type(exc).__name__}'))
    return observations


def main():
    asyncio.set_event_loop(asyncio.new_event_loop())
    mem = history(plumpy.InMemoryPersister())
    with tempfile.TemporaryDirectory() as directory:
        pkl = history(plumpy.PicklePersister(directory))
    print('in-memory:', mem)
    print('pickle   :', pkl)
    if mem != pkl:
        print('VIOLATION: the persisters differ after a failed save; the pickle persister lost the stored snapshot')
        return 1
    return 0


if __name__ == '__main__':
    sys.exit(main())
