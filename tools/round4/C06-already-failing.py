# -*- coding: utf-8 -*-
"""Histories/inputs for which the UNCHANGED tree already violates the C06 statement.  Exits 1 if any is observed.

1. "The value passed to the first resume() is delivered exactly once to the continuation": ``Waiting.execute`` decides
   whether a value was passed with ``result == NULL``, which calls ``result.__eq__`` first.  A value that compares equal
   to everything (``unittest.mock.ANY``-like) is silently dropped (the continuation is called without argument); a value
   whose ``==`` has no truth value (numpy array-like) makes the resumed process EXCEPTED instead of continuing.
2. "completed awaitables are found in the context": the work chain keeps its awaitables in a dict keyed by the future,
   so the same future (or child process) assigned to two context keys in one step is only found under the last key.
"""

import asyncio
import sys

import plumpy
from plumpy import process_states


class EqualsAnything:
    def __eq__(self, other):
        return True

    __hash__ = object.__hash__


class ArrayLike:
    """``==`` is element-wise and the outcome has no truth value, as for a numpy array"""

    class _NoTruth:
        def __bool__(self):
            raise ValueError('The truth value of an array with more than one element is ambiguous')

    def __eq__(self, other):
        return self._NoTruth()

    __hash__ = object.__hash__


class WaitForValue(plumpy.Process):
    async def run(self):
        self.delivered = []
        return process_states.Wait(self.continuation)

    def continuation(self, *args):
        self.delivered.append(args)


class TwoKeys(plumpy.WorkChain):
    @classmethod
    def define(cls, spec):
        super().define(spec)
        spec.outline(cls.submit, cls.collect)

    def submit(self):
        self.fut = asyncio.Future()
        return plumpy.ToContext(first=self.fut, again=self.fut)

    def collect(self):
        self.seen = {key: getattr(self.ctx, key, '<missing>') for key in ('first', 'again')}


async def until_waiting(proc):
    while proc.state != plumpy.ProcessState.WAITING:
        await asyncio.sleep(0)
    for _ in range(3):
        await asyncio.sleep(0)


async def resume_with(value):
    proc = WaitForValue()
    stepping = asyncio.ensure_future(proc.step_until_terminated())
    await until_waiting(proc)
    proc.resume(value)
    await asyncio.wait_for(stepping, 5)
    if proc.state != plumpy.ProcessState.FINISHED:
        return f'resumed with {type(value).__name__}(): ended {proc.state} ({proc.exception()!r}) instead of continuing'
    if len(proc.delivered) != 1 or len(proc.delivered[0]) != 1 or proc.delivered[0][0] is not value:
        return f'resumed with {type(value).__name__}(): the continuation was called with {proc.delivered}'
    return None


async def two_keys():
    chain = TwoKeys()
    stepping = asyncio.ensure_future(chain.step_until_terminated())
    await until_waiting(chain)
    chain.fut.set_result('the result')
    await asyncio.wait_for(stepping, 5)
    if chain.seen != {'first': 'the result', 'again': 'the result'}:
        return f'one future under two context keys: the next step saw {chain.seen}'
    return None


def main():
    problems = []
    for coro in (resume_with(EqualsAnything()), resume_with(ArrayLike()), two_keys()):
        loop = asyncio.new_event_loop()
        asyncio.set_event_loop(loop)
        try:
            problem = loop.run_until_complete(coro)
        finally:
            loop.close()
        if problem:
            problems.append(problem)
            print('VIOLATION', problem)
    return 1 if problems else 0


if __name__ == '__main__':
    sys.exit(main())
