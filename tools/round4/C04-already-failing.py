"""Histories for which the UNCHANGED plumpy tree already violates property C04.

Run as: PYTHONPATH=<tree>/src /venv/bin/python already-failing.py   (exits 1 and prints the violations found)

Root cause of 1 and 2: ``Process._killing`` keeps pointing at a kill action that was cancelled without being run
(``kill()`` then answers ``return self._killing`` forever); nothing resets it when the action is cancelled.
"""
import asyncio
import sys

import plumpy
from plumpy import ProcessState


class Waiter(plumpy.Process):
    async def run(self):
        return plumpy.Wait(self.after)

    def after(self):
        return 1


class FaultyOnKill(Waiter):
    def on_kill(self, msg):
        super().on_kill(msg)
        raise RuntimeError('fault in the on_kill hook')


async def spin(n=10):
    for _ in range(n):
        await asyncio.sleep(0)


async def stop(task):
    if not task.done():
        task.cancel()
    try:
        await task
    except BaseException:  # noqa
        pass


async def case_step_task_cancelled():
    """kill() and cancellation of the stepping task (e.g. asyncio.wait_for timing out) in the same loop iteration"""
    proc = Waiter()
    task = asyncio.ensure_future(proc.step_until_terminated())
    await spin()
    first = proc.kill('first kill')
    task.cancel()  # CancelledError wins over the delivered KillInterruption; step()'s finally cancels the action
    await stop(task)
    if proc.has_terminated():
        return None
    # The process is alive, nobody is stepping it: kill() should terminate it directly
    second = proc.kill('second kill')
    task = asyncio.ensure_future(proc.step_until_terminated())
    await asyncio.sleep(0.2)
    state = proc.state
    await stop(task)
    if state != ProcessState.KILLED:
        return f'kill lost and process unkillable: first kill() -> {first!r}, further kill() -> {second!r}, state {state}'
    return None


async def case_kill_future_cancelled_by_caller():
    """The caller cancels the future handed back by kill() (what ``asyncio.wait_for(proc.kill(), t)`` does on timeout)"""
    proc = Waiter()
    task = asyncio.ensure_future(proc.step_until_terminated())
    await spin()
    first = proc.kill('first kill')
    first.cancel()
    await spin()
    second = proc.kill('second kill')
    await asyncio.sleep(0.2)
    state = proc.state
    await stop(task)
    if state != ProcessState.KILLED:
        return f'process unkillable after the kill future was cancelled: further kill() -> {second!r}, state {state}'
    return None


async def case_on_kill_fault():
    """A fault in the on_kill hook: the process ends EXCEPTED, yet kill() reports True"""
    problems = []
    proc = FaultyOnKill()
    result = proc.kill('direct')
    if result is True and proc.state != ProcessState.KILLED:
        problems.append(f'direct kill() returned True but the process ended {proc.state}')
    proc = FaultyOnKill()
    task = asyncio.ensure_future(proc.step_until_terminated())
    await spin()
    action = proc.kill('deferred')
    await asyncio.sleep(0.1)
    await stop(task)
    if action.done() and not action.cancelled() and action.result() is True and proc.state != ProcessState.KILLED:
        problems.append(f'deferred kill() resolved to True but the process ended {proc.state}')
    return '; '.join(problems) or None


async def case_reentrant_kill_from_state_hook():
    """kill() issued from a state event callback while a direct kill() is transitioning: raises, process EXCEPTED"""
    proc = Waiter()
    raised = []

    def hook(_process, _hook, _state):
        try:
            proc.kill('again')
        except BaseException as exc:  # noqa
            raised.append(exc)
            raise

    proc.add_state_event_callback(plumpy.base.state_machine.StateEventHook.EXITING_STATE, hook)
    try:
        proc.kill('direct')
    except BaseException as exc:  # noqa
        raised.append(exc)
    if raised or proc.state != ProcessState.KILLED:
        return f'kill() from an EXITING_STATE callback during a direct kill raised {raised!r}; state {proc.state}'
    return None


async def main():
    found = []
    for case in (
        case_step_task_cancelled,
        case_kill_future_cancelled_by_caller,
        case_on_kill_fault,
        case_reentrant_kill_from_state_hook,
    ):
        try:
            problem = await case()
        except Exception as exc:  # noqa
            problem = f'unexpected {exc!r}'
        if problem:
            found.append(f'{case.__name__}: {problem}')
    return found


if __name__ == '__main__':
    import logging

    logging.disable(logging.CRITICAL)
    violations = asyncio.run(main())
    for line in violations:
        print('VIOLATION (unchanged tree):', line)
    sys.exit(1 if violations else 0)
