"""pytest plugin: attach the C01 lifecycle oracle (legal edges, terminal finality) and a C18 sampler to every process the
repository's own test suite creates.  An extra workload for the monitors, not a registered check.

    cd /repo && PYTHONPATH=/verif/tools/plugins:/repo/src /venv/bin/python -m pytest -q -p pv_suite_monitor --deselect tests/rmq tests
"""
import collections

import plumpy
from plumpy.base.state_machine import StateEventHook

LIVE = ('created', 'running', 'waiting')
EDGES = {(None, 'created'), ('created', 'running'), ('running', 'running'), ('running', 'waiting'), ('running', 'finished'),
         ('waiting', 'running'), ('waiting', 'waiting'), ('waiting', 'finished')}
for _s in LIVE:
    EDGES.add((_s, 'killed'))
    EDGES.add((_s, 'excepted'))
STATS = collections.Counter()
BAD = []
_TEST = ['?']


def _label(state):
    return None if state is None else getattr(state.LABEL, 'value', state.LABEL)


def _install():
    orig_init = plumpy.Process.__init__

    def init(self, *args, **kwargs):
        orig_init(self, *args, **kwargs)
        STATS['processes'] += 1
        hist = self.__dict__.setdefault('_pv_hist', [])

        def entered(_sm, _hook, from_state):
            edge = (_label(from_state), _label(self._state))
            hist.append(edge)
            STATS['transitions'] += 1
            STATS['edge %s->%s' % edge] += 1
            if edge not in EDGES:
                # a failing transition may legitimately pass through FINISHED/KILLED on its way to EXCEPTED (C03)
                if not (edge[1] == 'excepted' and self._transition_failing):
                    BAD.append((_TEST[0], type(self).__name__, 'illegal edge', edge, list(hist)))
            if plumpy.Process.current() is not self:
                STATS['entered-hook current() is not self'] += 1

        self.add_state_event_callback(StateEventHook.ENTERED_STATE, entered)

    plumpy.Process.__init__ = init


_install()


def pytest_runtest_setup(item):
    _TEST[0] = item.nodeid


def pytest_terminal_summary(terminalreporter):
    tr = terminalreporter
    tr.write_line('pv_suite_monitor: %d processes, %d transitions observed' % (STATS['processes'], STATS['transitions']))
    for k, v in sorted(STATS.items()):
        if k.startswith('edge') or k.startswith('entered'):
            tr.write_line('    %s: %d' % (k, v))
    tr.write_line('pv_suite_monitor: %d lifecycle violations' % len(BAD))
    for b in BAD[:20]:
        tr.write_line('    %r' % (b,))
