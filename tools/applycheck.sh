#!/bin/sh
# usage: tools/applycheck.sh   -- which of the kept seeded changes no longer apply to /repo HEAD (after a fix touched the same lines)
WT=$(mktemp -d /tmp/pvapply.XXXXXX)
git -C /repo worktree add --detach "$WT" HEAD >/dev/null 2>&1 || exit 2
n=0
for d in /verif/seeded/*/; do
  id=$(basename "$d")
  git -C "$WT" apply --3way "$d/patch.diff" >/dev/null 2>&1 || echo "APPLY-FAILED $id"
  git -C "$WT" reset -q --hard; git -C "$WT" clean -qfd
  n=$((n+1))
done
echo "checked $n"
git -C /repo worktree remove --force "$WT"
