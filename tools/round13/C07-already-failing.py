"""Unchanged tree: a process that EXCEPTED because it gave invalid inputs to a child process can be saved,
but its bundle cannot be loaded (nor copied, nor unpickled).

``Process.on_create`` raises ``ValueError(PortValidationError(...))``.  ``PortValidationError.__init__`` takes
``(message, port)`` but hands only the formatted text to ``Exception.__init__``, so ``args`` has one element and every
reconstruction (``copy.deepcopy``, ``pickle.loads``, ``yaml.load`` of the text written by ``Excepted.save_instance_state``)
calls ``PortValidationError(<text>)`` and fails with a ``TypeError`` -- the same defect ``EventError`` had before it got
a ``__reduce__``.

Second case (more debatable): a step may continue with a plain module-level function (``plumpy.Continue(helper)``); the
process runs fine and can be saved in the RUNNING state entered that way (the state records ``helper.__name__``), but
``Running.load_instance_state`` looks the name up on the process only (``Continue.load_instance_state`` does have the
fallback to ``utils.load_function`` for this, ``Running``/``Waiting`` do not), so the bundle cannot be loaded.

Exits 0 if both saved processes survive save -> load -> save, 1 otherwise.
"""
import asyncio
import copy
import pickle
import sys

import yaml

import plumpy


class Child(plumpy.Process):
    @classmethod
    def define(cls, spec):
        super().define(spec)
        spec.input('n', valid_type=int)


class Parent(plumpy.Process):
    def run(self):
        Child(inputs={'n': 'not an int'})  # raises ValueError(PortValidationError(...))


def helper_step():
    return 7


class UsesFunction(plumpy.Process):
    def run(self):
        return plumpy.Continue(helper_step)


class SaveWhenRunning(plumpy.ProcessListener):
    bundles = []

    def on_process_running(self, process):
        SaveWhenRunning.bundles.append((process._state.run_fn.__name__, plumpy.Bundle(process, dereference=True)))


def function_continuation():
    proc = UsesFunction()
    proc.add_process_listener(SaveWhenRunning())
    proc.execute()
    print('UsesFunction finished with result', proc.result())
    failures = 0
    for name, bundle in SaveWhenRunning.bundles:
        try:
            bundle.unbundle()
            print(f"RUNNING state about to call '{name}': loads")
        except Exception as exc:
            failures += 1
            print(f"RUNNING state about to call '{name}': saved but FAILED to load with {type(exc).__name__}: {exc}")
    return failures


def main():
    loop = asyncio.new_event_loop()
    asyncio.set_event_loop(loop)
    parent = Parent()
    try:
        parent.execute()
    except ValueError as exc:
        print('parent excepted with', repr(exc))
    assert parent.state == plumpy.ProcessState.EXCEPTED
    bundle = plumpy.Bundle(parent)  # saving works
    failures = 0
    media = {
        'deepcopy': lambda b: copy.deepcopy(b),
        'pickle': lambda b: pickle.loads(pickle.dumps(b)),
        'yaml': lambda b: yaml.load(yaml.dump(b), Loader=yaml.UnsafeLoader),
        'as is': lambda b: b,
    }
    for name, travel in media.items():
        try:
            loaded = travel(bundle).unbundle()
            assert loaded.state == plumpy.ProcessState.EXCEPTED
            assert type(loaded.exception()) is ValueError
            plumpy.Bundle(loaded)
            print(f'{name}: ok')
        except Exception as exc:
            failures += 1
            print(f'{name}: FAILED with {type(exc).__name__}: {str(exc)[:150]}')
    failures += function_continuation()
    return 1 if failures else 0


if __name__ == '__main__':
    sys.exit(main())
