# -*- coding: utf-8 -*-
"""Histories / inputs for which the UNCHANGED tree already violates C13.

Run as:  PYTHONPATH=<tree>/src /venv/bin/python already-failing.py
Exits 1 when at least one violation is observed (which is the case on the unchanged tree), 0 otherwise.

case 1  Continue(f, **k) with a keyword called ``run_fn``, ``process`` or ``state_label``: the keywords of the step collide
        with the parameters of ``State.create_state(state_label, ...)`` / ``Running.__init__(process, run_fn, ...)``, the
        process ends EXCEPTED (TypeError) instead of running f(*a, **k).
case 2  resume(v) followed by a checkpoint before the woken step has run: the value handed to resume() is not part of the
        saved WAITING state, so the restored process is still waiting and f(v) never runs.
case 3  The same ``plumpy.Bundle`` unbundled twice: ``load_members`` hands the bundle's own objects to the process, so a
        step that modifies its argument changes the checkpoint and the second restore runs f with other arguments.
case 4  Continue(other.f) where ``other`` is not the process but the process has a method of the same name: after a
        restore the continuation is looked up by name on the process, and silently another function runs.
"""

import asyncio
import sys

import plumpy
from plumpy import Continue, Process, ProcessState, Wait

failures = []


def run_steps(proc, until):
    loop = proc.loop
    while proc.state != until and not proc.has_terminated():
        loop.run_until_complete(proc.step())


# -- case 1 -------------------------------------------------------------------------------------------------------
def make(keyword):
    class P(Process):
        def run(self):
            return Continue(self.second, 1, **{keyword: 'x'})

        def second(self, a, **kwargs):
            return (a, kwargs)

    return P


for keyword in ('run_fn', 'process', 'state_label'):
    proc = make(keyword)()
    try:
        proc.execute()
    except Exception:
        pass
    if proc.state != ProcessState.FINISHED or proc.result() != (1, {keyword: 'x'}):
        failures.append(f'case 1: Continue(f, 1, {keyword}="x") -> {proc.state}, {proc.exception()!r}')


# -- case 2 -------------------------------------------------------------------------------------------------------
class WaitProc(Process):
    def run(self):
        return Wait(self.after)

    def after(self, value='no value'):
        return ('after', value)


proc = WaitProc()
run_steps(proc, ProcessState.WAITING)
proc.resume('v')  # the wait is over ...
bundle = plumpy.Bundle(proc)  # ... checkpoint between the return of the step and the next step
restored = bundle.unbundle()


async def finish(process):
    try:
        await asyncio.wait_for(process.step_until_terminated(), 0.5)
    except asyncio.TimeoutError:
        return 'still waiting'
    return process.result()


outcome = asyncio.get_event_loop().run_until_complete(finish(restored))
if outcome != ('after', 'v'):
    failures.append(f'case 2: resume("v"), save, load: expected after("v") to run, got: {outcome!r}')


# -- case 3 -------------------------------------------------------------------------------------------------------
class Mutating(Process):
    def run(self):
        return Continue(self.second, [1, 2, 3])

    def second(self, items):
        seen = list(items)
        items.clear()
        return seen


proc = Mutating()
run_steps(proc, ProcessState.RUNNING)  # CREATED -> RUNNING(run)
asyncio.get_event_loop().run_until_complete(proc.step())  # run() returned Continue(second, [1, 2, 3])
bundle = plumpy.Bundle(proc)
results = []
for _ in range(2):
    restored = bundle.unbundle()
    restored.execute()
    results.append(restored.result())
if results != [[1, 2, 3], [1, 2, 3]]:
    failures.append(f'case 3: the same bundle restored twice ran second() with {results!r}')


# -- case 4 -------------------------------------------------------------------------------------------------------
class Helper:
    def finish(self):
        return 'helper.finish'


HELPER = Helper()


class Delegating(Process):
    def run(self):
        return Continue(HELPER.finish)

    def finish(self):
        return 'process.finish'


proc = Delegating()
run_steps(proc, ProcessState.RUNNING)
asyncio.get_event_loop().run_until_complete(proc.step())
restored = plumpy.Bundle(proc).unbundle()
restored.execute()
proc.execute()
if restored.result() != proc.result():
    failures.append(f'case 4: Continue(HELPER.finish): {proc.result()!r} without, {restored.result()!r} with a restore')


for failure in failures:
    print('VIOLATION', failure)
print(f'{len(failures)} violation(s)')
sys.exit(1 if failures else 0)
