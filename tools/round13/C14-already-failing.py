"""UNCHANGED tree: a value that can be pickled but not unpickled (nor deep copied) makes the two persisters diverge and
poisons the whole pickle store.

The classic case is an exception class whose __init__ takes other arguments than it passes on to Exception.__init__
(BaseException.__reduce__ gives back `cls(*self.args)`).  `pickle.dumps` succeeds, `pickle.loads` and `copy.deepcopy`
raise TypeError.

 * InMemoryPersister.save_checkpoint raises (deep copy), the store is unchanged.
 * PicklePersister.save_checkpoint succeeds and writes the file; from then on get_checkpoints(),
   get_process_checkpoints(<any pid>) and delete_process_checkpoints(<any OTHER pid>) raise TypeError, because
   listing unpickles every file of the directory: the checkpoints of unrelated processes cannot be listed or deleted
   any more ("deleting a process's checkpoints removes all and only that process's tags", "listing returns exactly the
   keys currently stored", "in-memory and pickle persister are observationally equivalent" are all violated).

Exits 1 when the divergence is observed (which it is on the unchanged tree).
"""
import sys
import tempfile

import plumpy


class StepFailed(Exception):
    def __init__(self, step, code):
        super().__init__(f'step {step} failed with {code}')


class WC(plumpy.WorkChain):
    @classmethod
    def define(cls, spec):
        super().define(spec)
        spec.outline(cls.step)

    def step(self):
        pass


def history(persister):
    observed = []

    def attempt(label, function):
        try:
            observed.append((label, function()))
        except Exception as exception:
            observed.append((label, f'raised {type(exception).__name__}'))

    bystander, culprit = WC(pid=1), WC(pid=2)
    culprit.ctx.last_error = StepFailed('relax', 3)
    attempt('save 1', lambda: persister.save_checkpoint(bystander))
    attempt('save 2', lambda: persister.save_checkpoint(culprit))
    attempt('list', lambda: sorted(persister.get_checkpoints()))
    attempt('list 1', lambda: persister.get_process_checkpoints(1))
    attempt('delete 1', lambda: persister.delete_process_checkpoints(1))
    return observed


with tempfile.TemporaryDirectory() as directory:
    memory = history(plumpy.InMemoryPersister())
    pickled = history(plumpy.PicklePersister(directory))

print('InMemoryPersister:', memory)
print('PicklePersister:  ', pickled)
if memory != pickled:
    print('VIOLATION: the persisters are not equivalent; the pickle store cannot be listed, nor process 1 deleted from it')
    sys.exit(1)
