# -*- coding: utf-8 -*-
"""UNCHANGED tree: a CancellableAction whose function ends with an exception that cannot be stored in a loop future does
not report its outcome through itself, and does not refuse to be run again.

* the function ends with a cancellation (``asyncio.CancelledError`` is a BaseException, e.g. it asked a cancelled future
  for its result): ``kiwipy.capture_exceptions`` lets it through, ``run()`` raises it and the action stays *pending*;
* the function raises ``StopIteration`` (e.g. ``next()`` on an exhausted iterator in a hook): ``Future.set_exception``
  refuses it with a TypeError, which ``run()`` raises while the action stays *pending*.

In both cases ``_action`` has been dropped, so a second ``run()`` is not refused with InvalidStateError: it "runs"
``None`` and the action ends with ``TypeError("'NoneType' object is not callable")``, which is nobody's outcome.
(`Process._schedule_rpc` has a handler for exactly the first case in the control call itself, CancellableAction.run has none.)

Exits 0 when the property holds, 1 when it is violated (as it is on the unchanged tree).
"""

import asyncio
import sys

from plumpy.futures import CancellableAction, InvalidStateError

failures = []
loop = asyncio.new_event_loop()


def cancelled_inside():
    fut = loop.create_future()
    fut.cancel()
    return fut.result()  # raises asyncio.CancelledError


def exhausted():
    return next(iter(()))  # raises StopIteration


for name, function in (('cancellation', cancelled_inside), ('StopIteration', exhausted)):
    calls = []

    def counted(function=function):
        calls.append(1)
        return function()

    action = CancellableAction(counted, loop=loop)
    try:
        action.run()
        escaped = None
    except BaseException as exc:
        escaped = exc
    if not action.done():
        failures.append(f'{name}: the function ran ({len(calls)}x), run() raised {escaped!r}, the action is still pending: {action!r}')
    try:
        action.run()
        failures.append(f'{name}: a second run() was not refused; the action is now {action!r}')
    except InvalidStateError:
        pass

loop.close()
for failure in failures:
    print('VIOLATION:', failure)
sys.exit(1 if failures else 0)
