"""UNCHANGED tree: two overridable process hooks that the framework calls outside the process scope, so that
Process.current() is not the process whose hook is running (it is None, or whichever process happens to be current).

 1. init()               -- "common initialisation logic, after create or load": called by the metaclass after the initial
                            transition and by recreate_from() after loading, neither inside the scope.
 2. callback_excepted()  -- called by ProcessCallback.run() when a call_soon() callback raised, after _run_task (and with
                            it the scope) has been left.  (The fail() it calls enters the scope again, so on_except & co. are fine.)

Whether these count as "hooks" in the sense of the property is debatable (they are public, meant to be overridden and
called by the framework on behalf of the process).  Exits 1 when the deviation is observed.
"""

import asyncio
import sys

import plumpy

plumpy.set_event_loop_policy()
seen = []


class Proc(plumpy.Process):
    def init(self):
        super().init()
        seen.append(('init', self, plumpy.Process.current()))

    def callback_excepted(self, callback, exception, trace):
        seen.append(('callback_excepted', self, plumpy.Process.current()))
        super().callback_excepted(callback, exception, trace)

    def run(self):
        return plumpy.Wait(self.carry_on)

    def carry_on(self):
        pass


def boom():
    raise RuntimeError('boom')


async def main():
    proc = Proc()                                   # init() of a constructed process
    copy = plumpy.Bundle(proc).unbundle()           # init() of a loaded process
    copy.call_soon(boom)                            # callback_excepted() of the loaded process
    await asyncio.wait_for(copy.step_until_terminated(), 5)
    assert copy.state == plumpy.ProcessState.EXCEPTED
    proc.kill()


asyncio.get_event_loop().run_until_complete(main())

bad = [(name, proc, current) for name, proc, current in seen if current is not proc]
for name, proc, current in bad:
    print(f'{name}() of {proc!r} ran with Process.current() == {current!r}')
assert len(seen) == 3, seen
sys.exit(1 if bad else 0)
