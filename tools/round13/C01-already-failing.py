# -*- coding: utf-8 -*-
"""Unchanged tree: a fault of the communicator at one particular point moves a process out of FINISHED.

``Process.on_entered`` announces every state change with ``communicator.broadcast_send`` *after* the new state has been
entered.  Only ConnectionClosed / ChannelInvalidStateError / CommunicatorClosed / kiwipy.TimeoutError are tolerated there; any
other failure of the broker call (here an OSError, it could be a kiwipy/aio_pika error of another class) is handled as a
failed transition whose initial state was RUNNING, so ``transition_failed`` does not refuse it: the process, which is
already FINISHED (listeners were told so, the future has its result), is moved on to EXCEPTED.
No lifecycle hook raises in this program.  The same happens for KILLED (kill() then answers False).

Run: PYTHONPATH=<tree>/src /venv/bin/python already-failing.py   -> prints the observed sequence, exit code 1 on a violation
"""

import sys

import plumpy
from plumpy import ProcessState


class FlakyCommunicator:
    """The five calls a process makes on its communicator; the broadcast of the terminal state change fails"""

    def add_rpc_subscriber(self, *_a, **_k):
        return 'rpc'

    def remove_rpc_subscriber(self, *_a, **_k):
        pass

    def add_broadcast_subscriber(self, *_a, **_k):
        return 'broadcast'

    def remove_broadcast_subscriber(self, *_a, **_k):
        pass

    def broadcast_send(self, body=None, sender=None, subject=None, correlation_id=None):
        if subject.endswith(('.finished', '.killed')):
            raise OSError('socket went away')


class Events(plumpy.ProcessListener):
    def __init__(self):
        super().__init__()
        self.seen = []

    def on_process_finished(self, process, outputs):
        self.seen.append(('finished', process.state.value))

    def on_process_killed(self, process, msg):
        self.seen.append(('killed', process.state.value))

    def on_process_excepted(self, process, reason):
        self.seen.append(('excepted', process.state.value))


class Simple(plumpy.Process):
    async def run(self):
        return 5


bad = False

events = Events()
proc = Simple(communicator=FlakyCommunicator())
proc.add_process_listener(events)
try:
    proc.execute()
except Exception as exc:
    print('execute() raised', repr(exc))
print('run to the end: listener saw (event, state at that time):', events.seen, '- final state:', proc.state.value)
bad |= proc.state != ProcessState.FINISHED

events = Events()
proc = Simple(communicator=FlakyCommunicator())
proc.add_process_listener(events)
print('kill() answered', proc.kill('stop'))
print('killed: listener saw:', events.seen, '- final state:', proc.state.value)
bad |= proc.state != ProcessState.KILLED

if bad:
    print('VIOLATION: FINISHED / KILLED was entered (and announced to the listeners) and then left for EXCEPTED')
    sys.exit(1)
print('OK')
