# -*- coding: utf-8 -*-
"""C15: histories / inputs for which the UNCHANGED tree already departs from the property statement.

Run as `PYTHONPATH=<tree>/src /venv/bin/python already-failing.py`; exits 1 and lists the departures it finds.
"""

import sys

from plumpy.ports import InputPort, PortNamespace

found = []


def report(condition, message):
    if condition:
        found.append(message)
        print(f'VIOLATION: {message}')


# (1) "with the source namespace's properties": a source namespace with a `valid_type` whose `dynamic` was switched off
#     afterwards (ns.valid_type = int; ns.dynamic = False) is exposed as dynamic=True. absorb() sets the properties in
#     `dir()` order (`dynamic` before `valid_type`) and the `valid_type` setter forces `dynamic = True`.
for nested in (False, True):
    src = PortNamespace('inputs')
    namespace = src.create_port_namespace('ns') if nested else src
    namespace.valid_type = int
    namespace.dynamic = False
    dst = PortNamespace('inputs')
    dst.absorb(src)
    copy = dst['ns'] if nested else dst
    report(
        copy.dynamic is not namespace.dynamic,
        f"{'nested' if nested else 'top level'} namespace: source dynamic={namespace.dynamic}, exposed dynamic={copy.dynamic}",
    )

# (1b) "unless overridden by namespace options": the same mechanism swallows the override dynamic=False when the source
#      has a valid_type
src = PortNamespace('inputs', valid_type=int)
dst = PortNamespace('inputs')
dst.absorb(src, namespace_options={'dynamic': False})
report(dst.dynamic is not False, f"namespace_options={{'dynamic': False}} gives dynamic={dst.dynamic}")

# (2) "the copy is independent": the default of a namespace (nested: shallow copy; target: setattr of the source's value)
#     is the very object of the source, whereas the default of a leaf port is deep-copied
src = PortNamespace('inputs', default={'top': 1})
src.create_port_namespace('ns', default={'k': 1})
dst = PortNamespace('inputs')
dst.absorb(src)
dst['ns'].default['k'] = 2
dst.default['top'] = 2
report(src['ns'].default != {'k': 1}, f"changing the default of the exposed nested namespace changed the source's: {src['ns'].default}")
report(src.default != {'top': 1}, f"changing the default of the target namespace changed the source's: {src.default}")

# (3) "leaves other ports of the destination in place": a port of the destination nested in a namespace that the source
#     has as well is dropped (the nested namespace is replaced as a whole, not merged)
src = PortNamespace('inputs')
src.create_port_namespace('ns')['x'] = InputPort('x')
dst = PortNamespace('inputs')
dst.create_port_namespace('ns')['own'] = InputPort('own')
dst.absorb(src)
report('own' not in dst['ns'], f"the destination's own port 'ns.own' is gone, 'ns' now holds {list(dst['ns'])}")

# (4) "exactly the ports selected by the include rules": an empty include set selects no port, yet everything is exposed
src = PortNamespace('inputs')
src['a'] = InputPort('a')
dst = PortNamespace('inputs')
dst.absorb(src, include=())
report(list(dst) != [], f'include=() exposed {list(dst)}')

sys.exit(1 if found else 0)
