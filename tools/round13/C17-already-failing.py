# -*- coding: utf-8 -*-
"""Histories / configurations for which the UNCHANGED tree already seems to violate C17.  Exits 1 if any is reproduced.

1. "the configured object loader is the one used": the state of a continued process is not loaded with the loader the
   launcher (and the persister) were configured with: ``Process.recreate_state`` loads it with a context that has no
   loader, so ``_ensure_object_loader`` makes a *new instance* of the loader's class (from the identifier recorded in the
   checkpoint) by calling it without arguments.  A loader that needs constructor arguments (or carries any
   configuration) makes the continue task fail, although the process class itself is loaded with the configured loader.

2. "a continue task resumes exactly the persisted checkpoint (of the requested tag)": the pickle persister names the file
   ``<pid>.<tag>.pickle`` / ``<pid>.pickle``, so the untagged checkpoint of the process with pid 'job.retry' is the
   tagged checkpoint 'retry' of the process with pid 'job': persisting the one replaces the other, and a continue task
   for ('job', tag 'retry') runs the other process.
"""

import asyncio
import logging
import sys
import tempfile

import plumpy
from plumpy.process_comms import create_continue_body, create_create_body

logging.getLogger('asyncio').setLevel(logging.CRITICAL)


class Echo(plumpy.Process):
    @classmethod
    def define(cls, spec):
        super().define(spec)
        spec.input('x', valid_type=int)
        spec.output('y', valid_type=int)

    def run(self):
        self.out('y', self.inputs.x)


class PrefixLoader(plumpy.ObjectLoader):
    """A loader that is configured with a prefix: identifiers are '<prefix>/<module>:<name>'"""

    def __init__(self, prefix):
        self._prefix = prefix
        self._default = plumpy.DefaultObjectLoader()

    def identify_object(self, obj):
        return f'{self._prefix}/{self._default.identify_object(obj)}'

    def load_object(self, identifier):
        prefix, _, rest = identifier.partition('/')
        if prefix != self._prefix:
            raise ValueError(f'unknown identifier {identifier}')
        return self._default.load_object(rest)


async def outcome(launcher, task):
    try:
        return ('reply', await launcher(None, task))
    except plumpy.TaskRejected as exc:
        return ('rejected', str(exc))
    except Exception as exc:
        return ('error', f'{type(exc).__name__}: {exc}')


async def main():
    found = []

    # 1. loader with configuration
    loader = PrefixLoader('v1')
    persister = plumpy.InMemoryPersister(loader=loader)
    launcher = plumpy.ProcessLauncher(persister=persister, loader=loader)
    created = await outcome(launcher, create_create_body(Echo, init_kwargs={'inputs': {'x': 3}}, persist=True, loader=loader))
    assert created[0] == 'reply', created
    got = await outcome(launcher, create_continue_body(created[1]))
    if got != ('reply', {'y': 3}):
        found.append(f'1. continue with the configured (stateful) loader gave {got}, expected the outputs')

    # 2. pid / tag collision in the pickle persister
    with tempfile.TemporaryDirectory() as tmp:
        persister = plumpy.PicklePersister(tmp)
        launcher = plumpy.ProcessLauncher(persister=persister)
        job = Echo(inputs={'x': 1}, pid='job')
        persister.save_checkpoint(job, tag='retry')
        created = await outcome(
            launcher, create_create_body(Echo, init_kwargs={'inputs': {'x': 2}, 'pid': 'job.retry'}, persist=True)
        )
        assert created == ('reply', 'job.retry'), created
        got = await outcome(launcher, create_continue_body('job', tag='retry'))
        if got != ('reply', {'y': 1}):
            found.append(f"2. continue of ('job', tag 'retry') gave {got}, expected ('reply', {{'y': 1}})")

    for line in found:
        print('ALREADY FAILING:', line)
    if not found:
        print('nothing reproduced')
    return 1 if found else 0


if __name__ == '__main__':
    sys.exit(asyncio.run(main()))
