# -*- coding: utf-8 -*-
"""C19: inputs for which the UNCHANGED tree does not round-trip declared members.

Run as ``PYTHONPATH=<tree>/src /venv/bin/python already-failing.py``; exits 1 when any of the cases below is violated.

1. two Savable bases that each declare members (multiple inheritance): the members of the second base are dropped,
   both at save and at load (``_auto_persist`` is looked up through the MRO, so only the first base's set is copied
   by the ``auto_persist`` decorator / inherited by an undecorated subclass)
2. a subclass of ``SavableFuture`` that declares a member of its own: the member is saved, but
   ``SavableFuture.recreate_from`` builds the future by hand and never calls ``load_instance_state``/``load_members``
3. a member that holds a bound *private* (name mangled, ``__name``) method of the object: saved under ``__name__``
   (``'__step'``), looked up at load with ``getattr(self, '__step')``, which does not exist (``_Cls__step`` does)
"""

import asyncio
import sys

import plumpy

failures = []


def check(cond, msg):
    if not cond:
        failures.append(msg)
        print('VIOLATION:', msg)


# --- 1 -----------------------------------------------------------------------------------------------------------
@plumpy.auto_persist('a')
class A(plumpy.Savable):
    pass


@plumpy.auto_persist('b')
class B(plumpy.Savable):
    pass


@plumpy.auto_persist('c')
class C(A, B):
    def __init__(self):
        self.a, self.b, self.c = 1, 2, 3


saved = C().save()
loaded = plumpy.Savable.load(saved)
check('b' in saved, f"1: member 'b' declared by the second base is not in the saved state: {saved}")
check(getattr(loaded, 'b', None) == 2, "1: member 'b' declared by the second base is not restored")


# --- 2 -----------------------------------------------------------------------------------------------------------
@plumpy.auto_persist('tag')
class TaggedFuture(plumpy.SavableFuture):
    pass


loop = asyncio.new_event_loop()
future = TaggedFuture(loop=loop)
future.tag = 'hello'
future.set_result(5)
saved = future.save()
loaded = plumpy.Savable.load(saved, plumpy.LoadSaveContext(loop=loop))
check(saved.get('tag') == 'hello', "2: member 'tag' not saved")
check(type(loaded) is TaggedFuture and loaded.result() == 5, '2: future not restored')
check(getattr(loaded, 'tag', None) == 'hello', "2: member 'tag' declared by the SavableFuture subclass is not restored")


# --- 3 -----------------------------------------------------------------------------------------------------------
@plumpy.auto_persist('callback')
class Private(plumpy.Savable):
    def __init__(self):
        self.callback = self.__step

    def __step(self):
        return 'stepped'


saved = Private().save()
try:
    loaded = plumpy.Savable.load(saved)
    check(loaded.callback.__self__ is loaded and loaded.callback() == 'stepped', '3: private method not rebound')
except AttributeError as exc:
    check(False, f'3: a bound private method cannot be restored: AttributeError: {exc}')

loop.close()
if failures:
    sys.exit(1)
print('OK')
