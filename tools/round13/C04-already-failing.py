"""Histories for which the UNCHANGED tree already bends the C04 statement (all three are marginal readings of it).

Run as:  PYTHONPATH=<tree>/src /venv/bin/python already-failing.py
Prints what it observes; exits 1 if at least one of the observations below is reproduced.

(1) "the kill text is recorded": a process killed while paused records the kill text as its status, but a play() issued
    afterwards (the process still says ``paused``) runs on_playing on the KILLED process: the status is put back to the
    status from before the pause and the listeners are told ``on_process_played`` about a process that is dead.
(2) "cancelling the process's future has the same effect as kill()" for a process recreated from a checkpoint: a
    checkpoint written after the future was cancelled but before the cancellation hook ran (the hook is a done-callback,
    it runs one loop iteration later) gives a process whose future is cancelled; init() registers no hook for a future
    that is already done and the only other defence is the check at the END of a step, so the loaded process sits in
    WAITING for as long as nobody resumes it.
(3) kill() on a process that was close()d before it terminated: close() drops the state hooks, so the kill transition runs
    none of them: kill() says True and the state is KILLED, but on_kill/on_killed never run, the status does not get the
    kill text, the listeners hear nothing and the process future stays pending for ever (whoever awaits it hangs).
"""
import asyncio
import sys

import plumpy
from plumpy import ProcessState


class WaitingProc(plumpy.Process):
    async def run(self):
        return plumpy.Wait(self.finish, msg='waiting for a signal')

    def finish(self):
        return 'finished'


class Recorder(plumpy.ProcessListener):
    def __init__(self):
        super().__init__()
        self.events = []

    def on_process_played(self, process):
        self.events.append(('played', process.state))

    def on_process_killed(self, process, msg):
        self.events.append(('killed', process.state))


observed = []


async def until(predicate, ticks=200):
    for _ in range(ticks):
        if predicate():
            return True
        await asyncio.sleep(0)
    return predicate()


async def killed_while_paused_then_played():
    proc = WaitingProc()
    recorder = Recorder()
    proc.add_process_listener(recorder)
    proc.set_status('busy')
    task = asyncio.ensure_future(proc.step_until_terminated())
    await until(lambda: proc.state == ProcessState.WAITING)
    await proc.pause('hold on')
    assert proc.kill('stop it') is True
    await task
    status_after_kill = proc.status
    proc.play()
    if proc.status != 'stop it' or ('played', ProcessState.KILLED) in recorder.events:
        observed.append(
            f'(1) status after kill: {status_after_kill!r}; after a later play(): {proc.status!r}; '
            f'listener events: {recorder.events}'
        )


async def loaded_with_cancelled_future():
    original = WaitingProc()
    task = asyncio.ensure_future(original.step_until_terminated())
    await until(lambda: original.state == ProcessState.WAITING)
    original.future().cancel()
    checkpoint = plumpy.Bundle(original)  # before the cancellation hook has had its turn
    await task
    assert original.state == ProcessState.KILLED

    loaded = checkpoint.unbundle()
    assert loaded.future().cancelled()
    task = asyncio.ensure_future(loaded.step_until_terminated())
    await until(loaded.has_terminated, ticks=500)
    if not loaded.has_terminated():
        observed.append(f'(2) the loaded process has a cancelled future and is still {loaded.state}')
        loaded.kill('clean up')
    await task


async def killed_after_close():
    proc = WaitingProc()
    recorder = Recorder()
    proc.add_process_listener(recorder)
    proc.close()
    answer = proc.kill('stop it')
    await asyncio.sleep(0)
    if answer is True and (not proc.future().done() or proc.status != 'stop it' or not recorder.events):
        observed.append(
            f'(3) kill() after close(): answer {answer!r}, state {proc.state}, future done: {proc.future().done()}, '
            f'status: {proc.status!r}, listener events: {recorder.events}'
        )


async def main():
    await killed_while_paused_then_played()
    await loaded_with_cancelled_future()
    await killed_after_close()


loop = asyncio.new_event_loop()
asyncio.set_event_loop(loop)
loop.run_until_complete(main())

for line in observed:
    print(line)
sys.exit(1 if observed else 0)
