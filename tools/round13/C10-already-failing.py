# -*- coding: utf-8 -*-
"""Histories / inputs for which the UNCHANGED tree already violates C10 (ToContext is a barrier).

Run as:  PYTHONPATH=<tree>/src /venv/bin/python already-failing.py
Prints one line per finding and exits 1 if any of them reproduces.

1. stale future:   ``to_context`` resolves a child process to ``child.future()`` when it is handed over.  A child whose
                   transition into FINISHED fails after ``on_finish`` has resolved that future (a raising ``on_finished``
                   override, any failing ENTERED-state hook, a communicator error while broadcasting) ends EXCEPTED and
                   ``Process.on_except`` REPLACES its future.  The workchain still holds the old, successfully resolved
                   one: the awaited item failed, yet the next step runs with the child's outputs in the context.
2. interruptions:  an awaited item that fails with a ``plumpy.KillInterruption`` / ``PauseInterruption`` instance: the
                   failure comes out of ``Waiting.execute`` and ``Process.step`` takes it for a kill / pause REQUEST.
                   The workchain ends KILLED instead of EXCEPTED, resp. pauses and pauses again after every ``play()``.
3. resume():       the public ``Process.resume()`` called on a workchain that waits for awaitables resolves the wait:
                   the next step starts although no awaited item has completed, and finds no result.
4. key 'self':     ``return ToContext(self=awaitable)`` is expanded into ``self.to_context(**...)`` and fails with
                   "got multiple values for argument 'self'": workchain EXCEPTED although nothing it awaited failed.
"""

import asyncio
import sys

import plumpy
from plumpy import ProcessState, ToContext, WorkChain

FINDINGS = []
SEEN = []


class FailsAfterFinishing(plumpy.Process):
    async def run(self):
        await asyncio.sleep(0.01)

    def on_finished(self):
        super().on_finished()
        raise RuntimeError('hook of the FINISHED state failed')


class AwaitsChild(WorkChain):
    @classmethod
    def define(cls, spec):
        super().define(spec)
        spec.outline(cls.begin, cls.after)

    def begin(self):
        self.child = self.launch(FailsAfterFinishing)
        return ToContext(child=self.child)

    def after(self):
        SEEN.append(('AwaitsChild', dict(self.ctx.__dict__)))


class AwaitsFuture(WorkChain):
    @classmethod
    def define(cls, spec):
        super().define(spec)
        spec.outline(cls.begin, cls.after)

    def begin(self):
        self.awaited = self.loop.create_future()
        return ToContext(item=self.awaited)

    def after(self):
        SEEN.append(('AwaitsFuture', dict(self.ctx.__dict__)))


class KeySelf(WorkChain):
    @classmethod
    def define(cls, spec):
        super().define(spec)
        spec.outline(cls.begin, cls.after)

    def begin(self):
        done = self.loop.create_future()
        done.set_result(1)
        return ToContext(self=done)

    def after(self):
        SEEN.append(('KeySelf', dict(self.ctx.__dict__)))


async def main():
    # 1. stale future
    chain = AwaitsChild()
    await asyncio.wait_for(chain.step_until_terminated(), 5)
    if chain.child.state == ProcessState.EXCEPTED and chain.state != ProcessState.EXCEPTED:
        FINDINGS.append(
            f'1. awaited child ended {chain.child.state} ({chain.child.exception()!r}) but the workchain ended '
            f'{chain.state} and ran the next step: {SEEN}'
        )

    # 2. a failure that is an Interruption
    chain = AwaitsFuture()
    task = asyncio.ensure_future(chain.step_until_terminated())
    await asyncio.sleep(0.02)
    chain.awaited.set_exception(plumpy.KillInterruption('the awaited item failed with this'))
    await asyncio.sleep(0.05)
    if chain.state != ProcessState.EXCEPTED:
        FINDINGS.append(f'2a. awaited item failed with a KillInterruption: workchain is {chain.state}, not EXCEPTED')
    task.cancel()

    chain = AwaitsFuture()
    task = asyncio.ensure_future(chain.step_until_terminated())
    await asyncio.sleep(0.02)
    chain.awaited.set_exception(plumpy.PauseInterruption('the awaited item failed with this'))
    await asyncio.sleep(0.05)
    chain.play()
    await asyncio.sleep(0.05)
    if chain.state != ProcessState.EXCEPTED:
        FINDINGS.append(
            f'2b. awaited item failed with a PauseInterruption: workchain is {chain.state}, paused={chain.paused} '
            '(again after play()), not EXCEPTED'
        )
    task.cancel()

    # 3. resume() from outside
    del SEEN[:]
    chain = AwaitsFuture()
    task = asyncio.ensure_future(chain.step_until_terminated())
    await asyncio.sleep(0.02)
    chain.resume()
    await asyncio.sleep(0.05)
    if SEEN and not chain.awaited.done():
        FINDINGS.append(f'3. resume(): the next step ran while the awaited future is still pending: {SEEN}')
    task.cancel()

    # 4. the context key 'self'
    chain = KeySelf()
    await asyncio.wait_for(chain.step_until_terminated(), 5)
    if chain.state == ProcessState.EXCEPTED:
        FINDINGS.append(f"4. ToContext(self=...): workchain EXCEPTED with {chain.exception()!r}")


if __name__ == '__main__':
    asyncio.run(main())
    for finding in FINDINGS:
        print('ALREADY FAILING:', finding)
    if not FINDINGS:
        print('nothing reproduced')
    sys.exit(1 if FINDINGS else 0)
