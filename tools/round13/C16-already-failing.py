# -*- coding: utf-8 -*-
"""Two histories / inputs for which the UNCHANGED tree already departs from the C16 statement "each completed state
transition is announced exactly once and in order as a broadcast ``state_changed.<from>.<to>``".  Exits 1 if either shows.

1. ``Process.on_entered`` tests the communicator for truth (``if self._communicator:``) while ``Process.init`` tests
   ``is not None``.  A communicator object that has a length (here: the number of its RPC subscribers) is falsy as long as
   it is empty: the process subscribes to it and can be controlled through it, but the transitions made while the
   communicator is "empty" (here ``None -> created``, made before the process has subscribed) are not announced.

2. A hook of the ENTERED stage that raises after the state was entered (a subclass ``on_running`` raising after calling
   super): the process *is* in RUNNING at that point (listeners were told ``on_process_running``, the next announcement
   names ``running`` as its origin), but ``state_changed.created.running`` is never sent: the chain of announcements reads
   ``None.created``, ``running.excepted``.  (Debatable: the transition is reported as failed to ``transition_failed``.)
"""

import asyncio
import sys

import kiwipy

import plumpy


class SizedCommunicator(kiwipy.LocalCommunicator):
    def __len__(self):
        return len(self._rpc_subscribers)


class Plain(plumpy.Process):
    async def run(self):
        return 5


class FailingEnteredHook(plumpy.Process):
    def on_running(self):
        super().on_running()
        raise RuntimeError('boom')

    async def run(self):
        return 5


async def announcements(process_class, communicator):
    seen = []
    communicator.add_broadcast_subscriber(lambda _c, body, sender, subject, correlation_id: seen.append(subject))
    proc = process_class(pid='x', communicator=communicator)
    await proc.step_until_terminated()
    return proc, seen


async def main():
    failed = 0

    _, reference = await announcements(Plain, kiwipy.LocalCommunicator())
    _, seen = await announcements(Plain, SizedCommunicator())
    if seen != reference:
        failed = 1
        print(f'1. falsy communicator: announced {seen}\n   expected {reference}')

    proc, seen = await announcements(FailingEnteredHook, kiwipy.LocalCommunicator())
    chained = all(a.split('.')[2] == b.split('.')[1] for a, b in zip(seen, seen[1:]))
    if not chained:
        failed = 1
        print(f'2. failing ENTERED hook: final state {proc.state}, announced {seen}: the chain is broken')

    return failed


if __name__ == '__main__':
    sys.exit(asyncio.run(main()))
