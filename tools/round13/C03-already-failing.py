# -*- coding: utf-8 -*-
"""Histories for which the UNCHANGED tree violates C03 (run: PYTHONPATH=<tree>/src /venv/bin/python already-failing.py).

1. (clear) A state hook that raises ``StopIteration`` (say ``next(iter(()))`` without a default in ``on_run``).
   ``transition_failed`` routes it to EXCEPTED, ``on_except`` hands it to ``Future.set_exception``, which refuses a
   ``StopIteration`` with a ``TypeError``; that second failure happens while ``_transition_failing`` is set, so it is
   re-raised: the ``TypeError`` escapes from ``step()`` into whoever steps the process (the event loop for a launched
   process), and the process is left between states: still CREATED, its state already exited, future pending, not closed.
   (From a step function the same exception is harmless: PEP 479 turns it into a ``RuntimeError`` inside the coroutine.)

2. (arguable) A process that was closed by hand while still alive and is then failed by a callback scheduled earlier with
   ``call_soon``: ``on_close`` dropped the state event hooks, ``fail()`` enters EXCEPTED without ``on_except``: the process
   is EXCEPTED but its future stays pending for ever.

3. (arguable) A callback scheduled with ``call_soon`` fails the process while its ``async`` step function is blocked in an
   ``await`` of its own: the process ends EXCEPTED and closed, but ``step_until_terminated()`` never returns.

Exit status 1 if history 1 shows the violation (it does on the unchanged tree), 0 otherwise.
"""

import asyncio
import sys

import plumpy


class StopIterationInHook(plumpy.Process):
    def on_run(self):
        super().on_run()
        next(iter(()))  # raises StopIteration

    def run(self):
        return 1


class Plain(plumpy.Process):
    def run(self):
        return 1


class BlockedStep(plumpy.Process):
    async def run(self):
        await asyncio.Event().wait()


def boom():
    raise ValueError('boom')


async def main():
    violated = False

    proc = StopIterationInHook()
    try:
        await asyncio.wait_for(proc.step_until_terminated(), 5)
        print('1. stepping returned normally, state', proc.state)
    except Exception as exception:
        print(f'1. stepping raised {exception!r}')
        violated = True
    print(f'   state={proc.state} in_state={proc._state.in_state} closed={proc._closed} future={proc.future()}')
    if proc.state != plumpy.ProcessState.EXCEPTED or not isinstance(proc.exception(), StopIteration):
        violated = True

    proc = Plain()
    proc.call_soon(boom)
    proc.close()
    await asyncio.sleep(0.05)
    print(f'2. closed by hand, then failed by a callback: state={proc.state} future={proc.future()}')

    proc = BlockedStep()
    asyncio.get_event_loop().call_later(0.05, lambda: proc.call_soon(boom))
    try:
        await asyncio.wait_for(proc.step_until_terminated(), 1)
        print('3. stepping returned, state', proc.state)
    except asyncio.TimeoutError:
        print(f'3. state={proc.state} closed={proc._closed} but step_until_terminated() did not return')

    return violated


if __name__ == '__main__':
    loop = asyncio.new_event_loop()
    asyncio.set_event_loop(loop)
    sys.exit(1 if loop.run_until_complete(main()) else 0)
