"""Histories for which the UNCHANGED tree already violates property C02.

Run as:  PYTHONPATH=<tree>/src /venv/bin/python already-failing.py
Prints one line per scenario; exits 1 if at least one scenario violates the property (which is what happens on the
unchanged tree), 0 if none does.
"""
import asyncio
import sys

import plumpy
from plumpy import Process, ProcessState


class Recorder(plumpy.ProcessListener):
    def __init__(self):
        super().__init__()
        self.terminal = []

    def on_process_finished(self, process, outputs):
        self.terminal.append('finished')

    def on_process_excepted(self, process, reason):
        self.terminal.append('excepted')

    def on_process_killed(self, process, msg):
        self.terminal.append('killed')


class Simple(Process):
    async def run(self):
        return 5


violations = []


def check(name, ok, detail):
    print(('ok       ' if ok else 'VIOLATION') + ' ' + name + ': ' + detail)
    if not ok:
        violations.append(name)


# 1. close() a live process, then kill() it: close() dropped the state event hooks, so the KILLED state is entered without
#    on_kill/on_killed: the process is KILLED, kill() says True, but the future stays pending for ever and no listener is told
proc = Simple()
rec = Recorder()
proc.add_process_listener(rec)
proc.close()
answer = proc.kill('bye')
check(
    'kill-after-close',
    proc.future().done() and rec.terminal == ['killed'],
    f'kill() -> {answer}, state={proc.state}, future done={proc.future().done()}, terminal notifications={rec.terminal}',
)


# 2. a cleanup that closes the process again (close() is documented as safe to call several times): `_closed` is only set
#    after the cleanups ran, so close() re-enters on_close and every cleanup runs again
proc = Simple()
runs = []
proc.add_cleanup(lambda: runs.append('a'))


def closing_cleanup():
    if len(runs) < 10:
        proc.close()


proc.add_cleanup(closing_cleanup)
proc.execute()
check('reentrant-close', runs == ['a'], f'cleanup "a" ran {len(runs)} time(s)')


# 3. a hook that fails after the FINISHED state was entered: on_finish has resolved the future with the outputs and the
#    listeners were told "finished"; the process then becomes EXCEPTED, the future is REPLACED (whoever holds the first one
#    was told "success") and the listeners get a second terminal notification
class FailsLate(Process):
    async def run(self):
        return 5

    def on_finished(self):
        super().on_finished()
        raise RuntimeError('late failure')


async def scenario3():
    proc = FailsLate()
    rec = Recorder()
    proc.add_process_listener(rec)
    waiter_future = proc.future()  # what somebody waiting for the outcome holds
    try:
        await proc.step_until_terminated()
    except Exception:
        pass
    await asyncio.sleep(0)
    seen = 'result %r' % (waiter_future.result(),) if waiter_future.exception() is None else 'exception'
    return proc, rec, seen


proc, rec, seen = asyncio.get_event_loop().run_until_complete(scenario3())
check(
    'late-failure',
    rec.terminal == ['excepted'] and seen == 'exception',
    f'state={proc.state}, waiter saw {seen}, terminal notifications={rec.terminal}',
)

sys.exit(1 if violations else 0)
