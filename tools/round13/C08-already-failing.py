"""Histories for which the UNCHANGED tree already violates C08 (run: PYTHONPATH=<tree>/src /venv/bin/python already-failing.py).

1. aliasing: a value that is both in the context and an emitted output is ONE object in the uninterrupted execution
   (a later in-place change shows in both) but two objects after a restore: Process.save_instance_state deep-copies the
   outputs (encode_input_args) separately from the context, so the shared identity is lost -> emitted outputs differ.
2. a continuation with a name-mangled (double underscore) name: Running/Waiting save ``fn.__name__`` ('__second') but the
   attribute is '_P__second', so the checkpoint cannot be loaded (same for workchain outline steps).
"""
import asyncio
import sys

import plumpy
from plumpy import Continue, Process, WorkChain


class Alias(WorkChain):
    @classmethod
    def define(cls, spec):
        super().define(spec)
        spec.outputs.dynamic = True
        spec.outline(cls.first, cls.second)

    def first(self):
        self.ctx.data = []
        self.out('data', self.ctx.data)

    def second(self):
        self.ctx.data.append(1)


class Mangled(Process):
    def run(self):
        return Continue(self.__second)

    def __second(self):
        return 5


def run(cls, crash_at=None):
    loop = asyncio.new_event_loop()
    proc = cls(loop=loop)
    persister = plumpy.InMemoryPersister()
    k = 0
    while not proc.has_terminated():
        if k == crash_at:
            persister.save_checkpoint(proc)
            pid = proc.pid
            loop.close()
            loop = asyncio.new_event_loop()
            proc = persister.load_checkpoint(pid).unbundle(plumpy.LoadSaveContext(loop=loop))
        loop.run_until_complete(proc.step())
        k += 1
    out = (proc.state.value, proc.result(), proc.outputs)
    loop.close()
    return out


bad = 0
ref = run(Alias)
res = run(Alias, 2)
print('1. uninterrupted', ref, '| checkpoint between the two steps', res)
bad += ref != res

ref = run(Mangled)
try:
    res = run(Mangled, 2)
except Exception as exc:
    res = repr(exc)
print('2. uninterrupted', ref, '| checkpoint before the second step', res)
bad += ref != res
sys.exit(1 if bad else 0)
