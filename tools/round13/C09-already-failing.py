# -*- coding: utf-8 -*-
"""Histories for which the UNCHANGED tree already violates C09 (a recreated WorkChain must execute the outline as written).

1. `_IfStepper.step` counts `_pos` up from whatever it is while it searches for the branch, and `_pos` is persisted: a
   checkpoint written while an elif predicate is being evaluated (`_pos` == 1, no child yet) makes the recreated process
   search again from the first predicate but count on from 1, so it lands one branch too far (here: `else_` although
   `is_b` said yes; with no else_ the whole conditional is skipped).
2. `_FunctionStepper.load_instance_state` looks the step up BY NAME on the class of the workchain: when the outline names a
   function that is not that attribute (here `Base.s2`, overridden in the subclass) the constructed process calls the function
   written in the outline, the recreated one calls the override.

Exits 1 if either is observed.
"""

import copy
import sys

import plumpy
from plumpy.workchains import WorkChain, if_

TRACE = []
BUNDLES = {}


class Cond(WorkChain):
    @classmethod
    def define(cls, spec):
        super().define(spec)
        spec.outline(cls.s1, if_(cls.is_a)(cls.a).elif_(cls.is_b)(cls.b).else_(cls.c), cls.end)

    def s1(self):
        TRACE.append('s1')

    def is_a(self):
        TRACE.append('is_a?')
        return False

    def is_b(self):
        TRACE.append('is_b?')
        if 'mid' not in BUNDLES:
            # e.g. a persister that writes a checkpoint on some event triggered from inside the predicate
            BUNDLES['mid'] = copy.deepcopy(plumpy.Bundle(self))
        return True

    def a(self):
        TRACE.append('a')

    def b(self):
        TRACE.append('b')

    def c(self):
        TRACE.append('c')

    def end(self):
        TRACE.append('end')
        return 7


class Base(WorkChain):
    @classmethod
    def define(cls, spec):
        super().define(spec)
        spec.outline(Base.s1, Base.s2)  # (explicitly the functions of Base)

    def s1(self):
        TRACE.append('Base.s1')

    def s2(self):
        TRACE.append('Base.s2')
        return 1


class Sub(Base):
    def s2(self):
        TRACE.append('Sub.s2')
        return 2


class Saver(plumpy.ProcessListener):
    def __init__(self):
        super().__init__()
        self.bundles = []

    def on_process_running(self, process):
        self.bundles.append(copy.deepcopy(plumpy.Bundle(process)))


def main():
    failed = False

    # 1
    del TRACE[:]
    proc = Cond()
    proc.execute()
    constructed = list(TRACE)
    del TRACE[:]
    loaded = BUNDLES['mid'].unbundle()
    loaded.execute()
    print('1. constructed:', constructed, proc.result())
    print('   loaded from the checkpoint written inside is_b:', TRACE, loaded.result())
    if 'b' not in TRACE or 'c' in TRACE:
        print('   VIOLATION: is_b was true, yet the recreated process did not take that branch')
        failed = True

    # 2
    del TRACE[:]
    saver = Saver()
    proc = Sub()
    proc.add_process_listener(saver)
    proc.execute()
    constructed = list(TRACE)
    bundles = list(saver.bundles)
    del TRACE[:]
    loaded = bundles[-1].unbundle()  # entered RUNNING for the second step
    loaded.execute()
    print('2. constructed:', constructed, proc.result())
    print('   loaded before the second step:', TRACE, loaded.result())
    if TRACE != constructed[1:] or loaded.result() != proc.result():
        print('   VIOLATION: the recreated process calls another function than the one written in the outline')
        failed = True

    return 1 if failed else 0


if __name__ == '__main__':
    sys.exit(main())
