"""Histories for which the UNCHANGED tree does not give a process recreated from a checkpoint what the property
promises (both concern a checkpoint taken while the process is paused).  Borderline: see the remarks at each case.

exit 1 if at least one of them reproduces, 0 otherwise
"""
import asyncio
import sys
import warnings

import plumpy
from plumpy import process_states

warnings.simplefilter('ignore')

FOUND = []


class Proc(plumpy.Process):
    def init(self):
        super().init()
        self.steps = []

    def run(self):
        self.steps.append('s1')
        return process_states.Wait(self.s2, msg='waiting for the value')

    def s2(self, value):
        self.steps.append(('s2', value))
        return 'done'


class TwoSteps(plumpy.Process):
    def run(self):
        return process_states.Continue(self.s2)

    def s2(self):
        return 'done'


async def ticks(n):
    for _ in range(n):
        await asyncio.sleep(0)


async def resume_delivered_while_paused_is_not_in_the_checkpoint():
    """pause (while waiting) -> resume('V') -> checkpoint -> load -> play.

    The original goes on with 'V' after play().  The value delivered while paused only lives in the wait future of the
    state object, which is not part of the checkpoint: the recreated process is played and then waits forever, i.e. its
    steps and result differ from the uninterrupted run.  (Without a pause the window between resume() and the wake-up
    of the step is one loop iteration; while paused it is as long as the pause.)
    """
    proc = Proc()
    task = asyncio.ensure_future(proc.step_until_terminated())
    await ticks(4)
    proc.pause('p')
    await ticks(4)
    assert proc.paused
    proc.resume('V')
    await ticks(2)
    bundle = plumpy.Bundle(proc)

    proc.play()
    await ticks(6)
    assert proc.has_terminated() and proc.steps == ['s1', ('s2', 'V')], 'the original is fine'

    loaded = bundle.unbundle()
    loaded.steps = []
    task = asyncio.ensure_future(loaded.step_until_terminated())
    await ticks(3)
    loaded.play()
    await ticks(8)
    if not loaded.has_terminated():
        FOUND.append(
            'resume() delivered while paused is lost by a checkpoint: the recreated process is '
            f'{loaded.state} after play(), steps {loaded.steps}'
        )
        task.cancel()


async def checkpoint_between_cancellation_and_wake_up():
    """paused, stepping task cancelled, checkpoint taken before the cancelled task woke up -> load -> step -> play.

    The paused-future is saved in the CANCELLED state.  The first task stepping the recreated process dies with
    CancelledError on its own (nobody cancelled it); with ``ProcessLauncher._continue(nowait=True)`` that is the only
    stepping task there is, so the process never runs after play().
    """
    proc = TwoSteps()
    proc.pause()
    task = asyncio.ensure_future(proc.step_until_terminated())
    await ticks(2)
    task.cancel()
    bundle = plumpy.Bundle(proc)  # in the same callback as the cancellation
    await ticks(2)

    loaded = bundle.unbundle()
    stepping = asyncio.ensure_future(loaded.step_until_terminated())
    await ticks(3)
    if stepping.done() and stepping.cancelled():
        loaded.play()
        await ticks(6)
        FOUND.append(
            'the task stepping a process recreated from a checkpoint with a cancelled paused-future was cancelled '
            f'by the process itself; after play() the process is {loaded.state}'
        )
    else:
        stepping.cancel()


async def main():
    await resume_delivered_while_paused_is_not_in_the_checkpoint()
    await checkpoint_between_cancellation_and_wake_up()


if __name__ == '__main__':
    loop = asyncio.new_event_loop()
    asyncio.set_event_loop(loop)
    loop.run_until_complete(main())
    for found in FOUND:
        print('REPRODUCED:', found)
    sys.exit(1 if FOUND else 0)
