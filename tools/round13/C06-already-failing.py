# -*- coding: utf-8 -*-
"""Two histories for which the UNCHANGED tree does not keep the C06 promise for a process recreated from a checkpoint.

Run as ``PYTHONPATH=<tree>/src /venv/bin/python already-failing.py``: prints what happens, exits 1 if any of the two
histories ends with the recreated process not continuing (which is the case on the unchanged tree), 0 otherwise.

H1 (arguably by design, but it is what the statement says must not happen): a paused WAITING process is resumed with a
   value, then a checkpoint is written (``Bundle(proc)``).  The value only lives in ``Waiting._waiting_future``, which is
   not part of the saved state: the process recreated from that checkpoint is WAITING + paused, and after ``play()`` it
   stays WAITING forever, although "it has been resumed" before the checkpoint was taken.  The original continues.

H2 (narrow window, looks like a genuine defect): the task stepping a PAUSED process is cancelled (e.g. a timeout around
   ``step_until_terminated``); asyncio cancels ``Process._paused`` along with it and ``step`` only replaces it when the
   task wakes up.  A checkpoint written in between (same loop iteration, e.g. by the code that timed out) records
   ``_paused`` as CANCELLED.  The recreated process is ``paused`` with a cancelled future: the first task that steps it
   is "cancelled" on the spot by ``await self._paused`` (nobody cancelled it), e.g. a ``ProcessLauncher._continue`` task
   fails with CancelledError; a resume() + play() that follow find nobody stepping the process.
   (candidate fix: in ``Process.load_instance_state``, replace a ``_paused`` that was loaded cancelled by a pending one,
   as ``step`` does; or do not save a cancelled ``_paused`` as such.)
"""

import asyncio
import sys

import plumpy
from plumpy import ProcessState


class WaitProc(plumpy.Process):
    @classmethod
    def define(cls, spec):
        super().define(spec)
        spec.outputs.dynamic = True

    def run(self):
        return plumpy.Wait(self.cont)

    def cont(self, *values):
        self.out('got', values[0] if values else '<no value>')


async def spin(times=5):
    for _ in range(times):
        await asyncio.sleep(0)


async def history_1():
    proc = WaitProc()
    stepper = asyncio.ensure_future(proc.step_until_terminated())
    await spin()
    await proc.pause()
    assert proc.paused and proc.state == ProcessState.WAITING

    proc.resume('the-value')  # the wake-up, while paused
    bundle = plumpy.Bundle(proc)  # checkpoint written after it

    loaded = bundle.unbundle()
    assert loaded.paused and loaded.state == ProcessState.WAITING
    loaded.play()
    try:
        await asyncio.wait_for(loaded.step_until_terminated(), timeout=1)
    except asyncio.TimeoutError:
        pass

    proc.play()
    await asyncio.wait_for(stepper, timeout=1)
    print('H1: original : %s %r' % (proc.state, proc.outputs))
    print('H1: recreated: %s %r' % (loaded.state, loaded.outputs))
    return loaded.state == ProcessState.FINISHED and loaded.outputs == {'got': 'the-value'}


async def history_2():
    proc = WaitProc()
    stepper = asyncio.ensure_future(proc.step_until_terminated())
    await spin()
    await proc.pause()
    await spin()  # the stepping task is now parked on the "paused" future

    stepper.cancel()  # e.g. a timeout
    bundle = plumpy.Bundle(proc)  # checkpoint, before the cancelled task has been woken up
    print('H2: saved state of the "paused" future: %s' % bundle['_paused']['_state'])
    try:
        await stepper
    except asyncio.CancelledError:
        pass

    loaded = bundle.unbundle()
    assert loaded.paused and loaded.state == ProcessState.WAITING
    new_stepper = asyncio.ensure_future(loaded.step_until_terminated())  # what ProcessLauncher._continue does
    await spin()
    print('H2: the task stepping the recreated process, which nobody cancelled: %r' % new_stepper)
    loaded.resume('the-value')
    loaded.play()
    try:
        await asyncio.wait_for(new_stepper, timeout=1)
    except (asyncio.CancelledError, asyncio.TimeoutError) as exception:
        print('H2: stepping task ended with %r' % exception)
    print('H2: recreated: %s paused=%s %r' % (loaded.state, loaded.paused, loaded.outputs))
    return loaded.state == ProcessState.FINISHED and loaded.outputs == {'got': 'the-value'}


def main():
    ok_1 = asyncio.run(history_1())
    ok_2 = asyncio.run(history_2())
    print('H1 %s, H2 %s' % ('holds' if ok_1 else 'VIOLATED', 'holds' if ok_2 else 'VIOLATED'))
    return 0 if ok_1 and ok_2 else 1


if __name__ == '__main__':
    sys.exit(main())
