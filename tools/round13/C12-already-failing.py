# -*- coding: utf-8 -*-
"""Histories / inputs for which the UNCHANGED tree violates the C12 statement.  Exits 1 when a violation is seen.

1. The empty tuple is the ``UNSPECIFIED`` sentinel of ``plumpy.ports`` (``UNSPECIFIED = ()`` and CPython has one empty
   tuple): ``Port.validate`` tests ``value is UNSPECIFIED``.
   - ``out('t', ())`` on a required port declared ``valid_type=tuple`` is refused ("required value was not provided")
     although the spec accepts an (empty) tuple;
   - ``out('i', ())`` on an optional port declared ``valid_type=int`` is accepted and stored, and the process ends
     FINISHED and *successful* with an output that is not an int.

2. ``out('dyn.a.b', value)`` resolves the namespace with ``get_port(..., create_dynamically=True)``, which adds the port
   namespace ``a`` to the (sealed, class level) output spec *before* the value is validated, and for good.  Afterwards,
   for every process of the class, ``out('dyn.a', 5)`` is refused ("not sub class of Mapping") although the declared
   spec (``dyn``: dynamic, ``valid_type=int``) accepts it -- even when the first emission was itself refused and left
   no output behind, and even when it was made by another process.
"""

import sys

import plumpy

FAILURES = []


def check(condition, message):
    if not condition:
        FAILURES.append(message)
        print('VIOLATION:', message)


class Tuples(plumpy.Process):
    @classmethod
    def define(cls, spec):
        super().define(spec)
        spec.output('t', valid_type=tuple)
        spec.output('i', valid_type=int, required=False)

    async def run(self):
        self.notes = {}
        try:
            self.out('t', ())
            self.notes['t'] = 'accepted'
        except ValueError as exception:
            self.notes['t'] = f'refused: {exception}'
            self.out('t', (1,))
        try:
            self.out('i', ())
            self.notes['i'] = 'accepted'
        except ValueError as exception:
            self.notes['i'] = f'refused: {exception}'


class Dyn(plumpy.Process):
    @classmethod
    def define(cls, spec):
        super().define(spec)
        spec.input('first', valid_type=bool, default=False)
        spec.output_namespace('dyn', dynamic=True, valid_type=int)

    async def run(self):
        self.note = None
        if self.inputs.first:
            try:
                self.out('dyn.a.b', 'not an int')
            except ValueError:
                pass  # refused, as it should be: the outputs are unchanged
        else:
            try:
                self.out('dyn.a', 5)
                self.note = 'accepted'
            except ValueError as exception:
                self.note = f'refused: {exception}'


if __name__ == '__main__':
    proc = Tuples()
    proc.execute()
    check(proc.notes['t'] == 'accepted', f"out('t', ()) on a port with valid_type=tuple: {proc.notes['t']}")
    check(
        proc.notes['i'] != 'accepted',
        f"out('i', ()) on a port with valid_type=int was accepted; outputs={proc.outputs}, "
        f'state={proc.state}, successful={proc.is_successful}',
    )

    fresh = Dyn()  # control: before any nested emission the value is accepted
    fresh.execute()
    check(fresh.note == 'accepted' and fresh.outputs == {'dyn': {'a': 5}}, f'control run: {fresh.note}')

    first = Dyn(inputs={'first': True})
    first.execute()
    check(first.outputs == {}, f'the refused emission left outputs behind: {first.outputs}')

    second = Dyn()
    second.execute()
    check(
        second.note == 'accepted',
        f"out('dyn.a', 5) in a later process of the same class, after a REFUSED out('dyn.a.b', ...) in another "
        f'process: {second.note}',
    )

    if FAILURES:
        print(f'{len(FAILURES)} violation(s) on this tree')
        sys.exit(1)
    print('OK')
