# -*- coding: utf-8 -*-
"""UNCHANGED tree: an explicitly supplied empty tuple ``()`` IS the ``UNSPECIFIED`` marker (``ports.UNSPECIFIED = ()`` and
CPython has one empty tuple), so ``Port.validate`` / ``PortNamespace.validate`` take it for "nothing was given":

* an optional port declared ``valid_type=int`` (with a validator that refuses everything) accepts ``()``: no type check,
  no validator call, and ``inputs.x == ()``;
* a declared namespace accepts ``()`` as its value and ``inputs.ns`` is a tuple, not a read-only mapping.

Exits 1 when the violation is present (which it is on the unchanged tree), 0 otherwise.
"""

import asyncio
import sys

import plumpy


def refuse(value, port):
    return 'refused by the validator'


class Proc(plumpy.Process):
    @classmethod
    def define(cls, spec):
        super().define(spec)
        spec.input('x', valid_type=int, required=False, validator=refuse)
        spec.input('ns.y', valid_type=int, required=False)

    async def run(self):
        return None


def main():
    asyncio.set_event_loop(asyncio.new_event_loop())
    problems = []

    for given in ({'x': ()}, {'ns': ()}, {'x': tuple([])}):
        try:
            proc = Proc(inputs=dict(given))
        except (ValueError, TypeError) as exception:
            print(f'{given!r}: rejected ({type(exception).__name__}), fine')
            continue
        problems.append(f'{given!r} was ACCEPTED: inputs = {dict(proc.inputs)!r}')

    # for comparison: any other value of the wrong type is refused
    for given in ({'x': 'a'}, {'x': (1,)}, {'ns': (1,)}, {'ns': []}):
        try:
            Proc(inputs=dict(given))
        except (ValueError, TypeError):
            continue
        problems.append(f'{given!r} was ACCEPTED as well')

    if problems:
        print('PROPERTY VIOLATED on this tree:')
        for problem in problems:
            print(' -', problem)
        return 1
    print('ok')
    return 0


if __name__ == '__main__':
    sys.exit(main())
