# -*- coding: utf-8 -*-
"""Histories for which the UNCHANGED tree already violates C06 (a wake-up is lost, the process stays WAITING forever).

The task stepping a process may be cancelled (e.g. ``asyncio.wait_for(proc.step_until_terminated(), timeout)``) and the
process be stepped again later; ``Waiting.execute`` re-arms the wait for that.  But ``Task.cancel()`` cancels the
waiting future *synchronously*, whereas the re-arming only happens when the cancelled task is woken up one loop
iteration later.  A wake-up that arrives in between meets a cancelled (= "done") future and is dropped:

 1. plain process:  task.cancel(); proc.resume(value)     -> ``Waiting.resume`` returns early (future is done), value lost
 2. work chain:     awaited future completes; task.cancel() in the same loop iteration
                    -> ``_awaitable_done`` calls set_result() on the cancelled future -> InvalidStateError inside the
                       loop callback (only logged); ``_awaiting`` is now empty, nobody will ever resolve the re-armed future

 3. (of a different kind, possibly outside the intended scope) a checkpoint taken of a paused process that has already
    been resumed does not contain the wake-up: the recreated process stays WAITING after play().

Exit code 1 if any of the histories violates the property (which is what happens on the unchanged tree), 0 otherwise.
"""
import asyncio
import logging
import sys

import plumpy
from plumpy import Bundle, Process, ProcessState, ToContext, WorkChain, process_states

logging.disable(logging.CRITICAL)
BAD = []


class WaitProc(Process):
    calls = None

    def run(self):
        type(self).calls = []
        return process_states.Wait(self.after_wait)

    def after_wait(self, *args):
        type(self).calls.append(args)


class Chain(WorkChain):
    @classmethod
    def define(cls, spec):
        super().define(spec)
        spec.outline(cls.first, cls.second)

    def first(self):
        self.awaited = asyncio.get_event_loop().create_future()
        self.seen = None
        return ToContext(answer=self.awaited)

    def second(self):
        self.seen = getattr(self.ctx, 'answer', '<missing>')


async def spin(n=10):
    for _ in range(n):
        await asyncio.sleep(0)


async def finishes(proc, timeout=1.0):
    task = asyncio.ensure_future(proc.step_until_terminated())
    try:
        await asyncio.wait_for(task, timeout)
    except asyncio.TimeoutError:
        return False
    return True


async def history_1():
    proc = WaitProc()
    task = asyncio.ensure_future(proc.step_until_terminated())
    await spin()
    assert proc.state == ProcessState.WAITING
    task.cancel()  # e.g. the timeout of a wait_for() around step_until_terminated() fires ...
    proc.resume('value')  # ... and the wake-up arrives before the cancelled task has been woken up
    await spin()
    if not await finishes(proc):
        BAD.append(f'1: plain process resumed right after its stepping task was cancelled stays {proc.state} (calls: {WaitProc.calls})')
    elif WaitProc.calls != [('value',)]:
        BAD.append(f'1: wrong delivery {WaitProc.calls}')


async def history_2():
    chain = Chain()
    task = asyncio.ensure_future(chain.step_until_terminated())
    await spin()
    assert chain.state == ProcessState.WAITING
    chain.awaited.set_result(42)  # the awaited future completes (its done-callback is now scheduled) ...
    task.cancel()  # ... and the stepping task is cancelled in the same loop iteration
    await spin()
    if not await finishes(chain):
        BAD.append(
            f'2: work chain whose only awaitable is done (ctx.answer={getattr(chain.ctx, "answer", "<missing>")}) stays {chain.state} '
            'after its stepping task was cancelled and restarted'
        )


async def history_3():
    proc = WaitProc()
    task = asyncio.ensure_future(proc.step_until_terminated())
    await spin()
    await proc.pause()
    proc.resume('value')
    bundle = Bundle(proc)
    task.cancel()
    await spin()
    loaded = bundle.unbundle()
    loaded.play()
    if not await finishes(loaded, 0.5):
        BAD.append(f'3: process recreated from a checkpoint taken after resume() (while paused) stays {loaded.state} after play()')


async def main():
    await history_1()
    await history_2()
    await history_3()


if __name__ == '__main__':
    asyncio.run(main())
    for line in BAD:
        print('VIOLATION', line)
    sys.exit(1 if BAD else 0)
