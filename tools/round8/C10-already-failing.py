"""Histories for which the UNCHANGED tree already violates the C10 statement.  Exits 1 listing those that reproduce.

 1. an awaited future fails with a plumpy Interruption (KillInterruption / PauseInterruption): the error set on the waiting
    future is taken by Process.step() for an interruption of the workchain itself -> the workchain is KILLED (not
    EXCEPTED), or paused for ever (every play() re-raises the same PauseInterruption).
 2. an awaited child reaches FINISHED (future resolved with its outputs in on_finish) and then fails in a later hook of the
    same transition (here: on_finished raises) -> the child ends EXCEPTED on a *new* future (on_except replaces a done
    future) while the workchain, holding the old future, sees a success and runs the next step.
 3. the task stepping the waiting workchain is cancelled in the same loop iteration in which an awaitable completes/fails
    (completion callback still queued): the cancelled waiting future refuses the result (InvalidStateError in the
    callback), the completion is lost and after stepping again the workchain waits for ever -- a failed item never
    ends it EXCEPTED.
"""
import asyncio
import sys

import plumpy
from plumpy import ProcessState, WorkChain, process_states

found = []


class Wc(WorkChain):
    @classmethod
    def define(cls, spec):
        super().define(spec)
        spec.outline(cls.s1, cls.s2)

    def s1(self):
        self.ran = []
        self.to_context(**self.futs)

    def s2(self):
        self.ran.append(dict(self.ctx.__dict__))


async def spin(n=10):
    for _ in range(n):
        await asyncio.sleep(0)


async def case1(exc):
    loop = asyncio.get_running_loop()
    wc = Wc()
    wc.futs = {'a': loop.create_future(), 'b': loop.create_future()}
    task = asyncio.ensure_future(wc.step_until_terminated())
    await spin()
    wc.futs['a'].set_exception(exc)
    await spin()
    if wc.state != ProcessState.EXCEPTED:
        found.append(f'1. awaitable failed with {type(exc).__name__}: workchain is {wc.state}, paused={wc.paused} (expected EXCEPTED)')
    if not task.done():
        task.cancel()


async def case2():
    class Child(plumpy.Process):
        def on_finished(self):
            super().on_finished()
            raise RuntimeError('late failure')

    class Parent(WorkChain):
        @classmethod
        def define(cls, spec):
            super().define(spec)
            spec.outline(cls.s1, cls.s2)

        def s1(self):
            self.ran = []
            self.child = self.launch(Child)
            self.to_context(a=self.child)

        def s2(self):
            self.ran.append(self.ctx.a)

    wc = Parent()
    await asyncio.wait_for(wc.step_until_terminated(), 2)
    if wc.child.state == ProcessState.EXCEPTED and (wc.ran or wc.state != ProcessState.EXCEPTED):
        found.append(f'2. child ended {wc.child.state} ({wc.child.exception()!r}) but the workchain ended {wc.state} and the next step ran: {wc.ran}')


async def case3(fail):
    loop = asyncio.get_running_loop()
    wc = Wc()
    wc.futs = {'a': loop.create_future()}
    task = asyncio.ensure_future(wc.step_until_terminated())
    await spin()
    if fail:
        wc.futs['a'].set_exception(ValueError('x'))
    else:
        wc.futs['a'].set_result(1)
    task.cancel()
    await spin()
    task2 = asyncio.ensure_future(wc.step_until_terminated())
    try:
        await asyncio.wait_for(task2, 1)
    except asyncio.TimeoutError:
        what = 'failed' if fail else 'completed'
        found.append(f'3. awaitable {what} in the iteration the stepping task was cancelled: stepped again, the workchain stays {wc.state} for ever')


async def main():
    await case1(process_states.KillInterruption('boo'))
    await case1(process_states.PauseInterruption('boo'))
    await case2()
    await case3(False)
    await case3(True)


loop = asyncio.new_event_loop()
asyncio.set_event_loop(loop)
loop.set_exception_handler(lambda _l, _c: None)
loop.run_until_complete(main())
if found:
    print('already failing on this tree:')
    for line in found:
        print(' -', line)
    sys.exit(1)
print('none of the histories reproduces')
