# -*- coding: utf-8 -*-
"""C18 on the UNCHANGED tree: two overridable hooks of a process run outside any process scope, so
``Process.current()`` is not that process (it is None, or whichever process happens to be creating / scheduling):

 * ``Process.init()`` ("common initialisation logic, after create or load"): called by ``StateMachineMeta.__call__`` and by
   ``Process.recreate_from`` *after* the scope of the initial transition has ended (resp. without any scope at all);
 * ``Process.callback_excepted()``: called by ``events.ProcessCallback.run`` after ``_run_task`` (and its scope) has been left.

Whether these count as "hooks" in the sense of the property statement is debatable (``on_*`` methods are all covered), hence a
report rather than a claim.  Exit code 1 when the deviation is observed, 0 otherwise.
"""

import asyncio
import sys

import plumpy
from plumpy import Process

seen = {}


class Child(plumpy.Process):
    def init(self):
        super().init()
        seen.setdefault('init', []).append((self, Process.current()))

    def on_create(self):
        super().on_create()
        seen.setdefault('on_create', []).append((self, Process.current()))

    def callback_excepted(self, callback, exception, trace):
        seen.setdefault('callback_excepted', []).append((self, Process.current()))
        super().callback_excepted(callback, exception, trace)

    def boom(self):
        raise RuntimeError('boom')


class Parent(plumpy.Process):
    def run(self):
        Child()  # created from inside the step of the parent


async def main():
    child = Child()  # created from plain code
    await Parent().step_until_terminated()
    saved = plumpy.Bundle(child)
    saved.unbundle()  # recreated from a checkpoint
    child.call_soon(child.boom)
    await asyncio.sleep(0.05)


if __name__ == '__main__':
    asyncio.get_event_loop().run_until_complete(main())
    bad = []
    for hook, records in seen.items():
        for proc, current in records:
            print(f'{hook:18} of {proc!r}: Process.current() = {current!r}')
            if current is not proc:
                bad.append(hook)
    if bad:
        print('hooks that ran with a different Process.current():', sorted(set(bad)))
        sys.exit(1)
    sys.exit(0)
