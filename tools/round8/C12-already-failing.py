# -*- coding: utf-8 -*-
"""Histories / inputs for which the UNCHANGED tree already deviates from the C12 statement
("out() stores a value exactly when the output spec accepts it for that port ...; a process is reported successful
only if its collected outputs satisfy the output spec").

Run as:  PYTHONPATH=<tree>/src /venv/bin/python already-failing.py     (exits 1 and lists what it saw)

1. ``ports.UNSPECIFIED`` is the empty tuple ``()``, and CPython has only one empty tuple: ``tuple() is UNSPECIFIED``.
   ``Port.validate`` therefore takes an emitted ``()`` for "no value given": on a port that is not required the type
   check and the validator are skipped, the value is stored, and the process ends successful with a tuple on an
   ``int`` port (on a required port the same value is refused with "required value was not provided").
2. ``out('a.b', v)`` creates the namespace ``a`` in the (class level, sealed) spec when the parent is dynamic
   (``get_port(create_dynamically=True)``) - also if the value is then refused.  From then on EVERY instance of the
   class gets ``out('a', 5)`` refused ("not a sub class of Mapping"), although the declared spec (dynamic, untyped)
   accepts it and a process that runs before that emission does get it stored: whether a value is stored depends on what
   another instance emitted earlier.
3. In a dynamic namespace with ``valid_type=int`` an empty dictionary is stored for an undeclared port
   (``validate_dynamic_ports`` recurses into dictionaries and finds nothing to complain about), and ``None`` is stored
   as the value of a declared output namespace (``PortNamespace.validate`` takes ``None`` for an empty mapping).
"""

import sys

import plumpy

seen = []


def report(text):
    seen.append(text)
    print('DEVIATION:', text)


# -- 1 ----------------------------------------------------------------------------------------------------------
def small(value, port):
    return None if isinstance(value, int) and value < 10 else 'must be an int below 10'


class Typed(plumpy.Process):
    @classmethod
    def define(cls, spec):
        super().define(spec)
        spec.output('opt', valid_type=int, validator=small, required=False)
        spec.output_namespace('dyn', dynamic=True, valid_type=int, required=False)
        spec.output_namespace('ns', required=False)
        spec.output('ns.x', valid_type=int, required=False)

    def run(self):
        self.accepted = {}
        for port, value in (('opt', tuple()), ('dyn.x', {}), ('ns', None)):
            try:
                self.out(port, value)
                self.accepted[port] = value
            except ValueError:
                pass


proc = Typed()
proc.execute()
if 'opt' in proc.accepted:
    report(f"out('opt', ()) was stored on a port with valid_type=int and a validator; outputs {proc.outputs}, successful {proc.is_successful}")
if 'dyn.x' in proc.accepted:
    report("out('dyn.x', {}) was stored in a dynamic namespace with valid_type=int")
if 'ns' in proc.accepted:
    report("out('ns', None) was stored as the value of an output namespace")


# -- 2 ----------------------------------------------------------------------------------------------------------
class Free(plumpy.Process):
    @classmethod
    def define(cls, spec):
        super().define(spec)
        spec.input('nested', valid_type=bool)
        spec.outputs.dynamic = True

    def run(self):
        if self.inputs.nested:
            self.out('a.b', 1)
        else:
            self.out('a', 5)


first = Free(inputs={'nested': False})
first.execute()
assert first.outputs == {'a': 5} and first.is_successful

Free(inputs={'nested': True}).execute()

third = Free(inputs={'nested': False})
try:
    third.execute()
    accepted = third.outputs == {'a': 5}
except ValueError as exception:
    accepted = False
    message = str(exception)
if not accepted:
    report(
        "out('a', 5) is stored by the first instance of the class but refused for a later one, because another instance "
        f"emitted 'a.b' in between (the class level spec now has a namespace 'a'): {message}"
    )

if seen:
    print(f'{len(seen)} deviation(s) on this tree')
    sys.exit(1)
print('nothing to report')
