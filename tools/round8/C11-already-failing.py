"""C11 on the UNCHANGED tree: the empty tuple is accepted for a port of any declared type.

``plumpy.ports.UNSPECIFIED`` is ``()``, and CPython has only one empty tuple: every ``()``, ``tuple()`` or ``tuple([])``
a caller passes *is* ``UNSPECIFIED``. ``Port.validate`` tests ``value is UNSPECIFIED`` before the type check and before
the validator, so for a port that is not required (or has a default) an explicitly supplied ``()`` skips both, while
``PortNamespace.pre_process`` sees the key in the inputs and keeps the value: the process is created with
``inputs.a == ()`` for a port declared ``valid_type=int`` whose validator refuses everything.
(For a required port without default the same value is reported as "required value was not provided".)

Exits 1 if the violation is there (it is, on the unchanged tree), 0 otherwise.
"""

import sys

import plumpy


def refuse(value, port):
    return f'{port.name} refuses {value!r}'


class Proc(plumpy.Process):
    @classmethod
    def define(cls, spec):
        super().define(spec)
        spec.input('a', valid_type=int, required=False, validator=refuse)
        spec.input('b', valid_type=int, default=5)
        spec.input_namespace('ns', valid_type=int)  # dynamic, values have to be int

    async def run(self):
        return None


def main():
    problems = []
    for inputs in ({'a': ()}, {'b': tuple()}, {'a': (), 'b': ()}):
        try:
            proc = Proc(inputs=inputs)
        except ValueError as exc:
            print(f'ok: {inputs!r} rejected: {exc}')
            continue
        for key in inputs:
            if not isinstance(proc.inputs[key], int):
                problems.append(f'Proc({inputs!r}) created, inputs[{key!r}] == {proc.inputs[key]!r} is not an int')

    # for comparison: any other value of the wrong type is refused, also another empty container
    for inputs in ({'a': []}, {'a': (1,)}, {'b': ''}, {'ns': {'k': ()}}):
        try:
            Proc(inputs=inputs)
        except ValueError:
            pass
        else:
            problems.append(f'Proc({inputs!r}) created')

    if problems:
        print('PROPERTY VIOLATED (unchanged tree):')
        for problem in problems:
            print('  -', problem)
        return 1
    print('all good')
    return 0


if __name__ == '__main__':
    sys.exit(main())
