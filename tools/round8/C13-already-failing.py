# -*- coding: utf-8 -*-
"""C13: histories / inputs for which the UNCHANGED tree already violates the property statement.

Run as:  PYTHONPATH=<tree>/src /venv/bin/python already-failing.py
Prints one block per case and exits 1 if at least one case violates the statement (it does on the unchanged tree).
"""

import asyncio
import sys

import plumpy
from plumpy import ProcessState

FOUND = []


def report(case, ok, detail):
    print('[%s] %s\n      %s' % ('ok' if ok else 'VIOLATION', case, detail))
    if not ok:
        FOUND.append(case)


# ---------------------------------------------------------------------------------------------------------------------
# 1. "every choice of keyword arguments": keyword names that the state machinery uses itself cannot be passed on
# ---------------------------------------------------------------------------------------------------------------------
class KwNames(plumpy.Process):
    kw = None

    def run(self):
        return plumpy.Continue(self.step2, **self.kw)

    def step2(self, **kwargs):
        return kwargs


async def case_keyword_names():
    for name in ('run_fn', 'process', 'state_label'):
        proc = KwNames()
        proc.kw = {name: 1}
        await proc.step_until_terminated()
        ok = proc.state == ProcessState.FINISHED and proc.result() == {name: 1}
        detail = 'Continue(step2, %s=1): ended %s' % (name, proc.state)
        if proc.state == ProcessState.EXCEPTED:
            detail += ' with %r' % (proc.exception(),)
        report('keyword argument named %r' % name, ok, detail)


# ---------------------------------------------------------------------------------------------------------------------
# 2. restoring twice from one checkpoint: the loaded state shares its argument objects with the Bundle, so the step
#    of the first restored process modifies the arguments the second one is restored with
# ---------------------------------------------------------------------------------------------------------------------
class Appender(plumpy.Process):
    def run(self):
        return plumpy.Continue(self.step2, [1, 2], extra={'seen': []})

    def step2(self, items, extra):
        got = (tuple(items), tuple(extra['seen']))
        items.append(99)
        extra['seen'].append('x')
        return got


async def case_restore_twice():
    proc = Appender()
    await proc.step()  # CREATED -> RUNNING(run)
    await proc.step()  # run -> RUNNING(step2, [1, 2], extra=...)
    checkpoint = plumpy.Bundle(proc)

    results = []
    for _ in range(2):
        restored = checkpoint.unbundle()
        await restored.step_until_terminated()
        results.append(restored.result())
    expected = ((1, 2), ())
    report(
        'two processes restored from the same Bundle',
        results == [expected, expected],
        'step2 was called with %r and then with %r, expected %r both times' % (results[0], results[1], expected),
    )


# ---------------------------------------------------------------------------------------------------------------------
# 3. a resume value that has arrived but has not been consumed yet (the process is paused) is not part of the checkpoint
# ---------------------------------------------------------------------------------------------------------------------
class Waiter(plumpy.Process):
    def run(self):
        return plumpy.Wait(self.after)

    def after(self, *args):
        return args


async def case_resume_then_checkpoint():
    proc = Waiter()
    await proc.step()
    await proc.step()  # now WAITING
    proc.pause()
    proc.resume('v')  # delivered, the process is paused so after('v') has not run yet
    restored = plumpy.Bundle(proc).unbundle()
    restored.play()
    try:
        await asyncio.wait_for(restored.step_until_terminated(), 0.5)
        ok = restored.result() == ('v',)
        detail = 'restored process finished with %r' % (restored.result(),)
    except asyncio.TimeoutError:
        ok = False
        detail = 'restored process still %s: the value given to resume() before the checkpoint is lost' % restored.state
    report('Wait -> pause -> resume(v) -> checkpoint/restore -> play', ok, detail)


# ---------------------------------------------------------------------------------------------------------------------
# 4. the next step is persisted by ``__name__`` only: after a restore another function (or none) is found under it
# ---------------------------------------------------------------------------------------------------------------------
class Base(plumpy.Process):
    def finish(self, tag):
        return 'Base.finish(%s)' % tag


class Derived(Base):
    def run(self):
        return plumpy.Continue(super().finish, 'a')  # explicitly the implementation of the base class

    def finish(self, tag):
        return 'Derived.finish(%s)' % tag


class Private(plumpy.Process):
    def run(self):
        return plumpy.Continue(self.__hidden, 5)

    def __hidden(self, value):
        return value


async def case_lookup_by_name():
    for cls, expected in ((Derived, 'Base.finish(a)'), (Private, 5)):
        fresh = cls()
        await fresh.step_until_terminated()

        proc = cls()
        await proc.step()
        await proc.step()
        try:
            restored = plumpy.Bundle(proc).unbundle()
            await restored.step_until_terminated()
            outcome = restored.result() if restored.state == ProcessState.FINISHED else restored.exception()
        except Exception as exception:
            outcome = exception
        report(
            '%s: step function looked up by name after a restore' % cls.__name__,
            outcome == expected,
            'without restore: %r, restored before the step: %r' % (fresh.result(), outcome),
        )


# ---------------------------------------------------------------------------------------------------------------------
# 5. (side effect rather than wrong outcome) a pause pending when the step returns Kill(msg) / a value / UnsuccessfulResult
#    is still "carried out" on the terminated process: it reports paused=True and its status is the pause text, not msg
# ---------------------------------------------------------------------------------------------------------------------
class SlowKill(plumpy.Process):
    async def run(self):
        await asyncio.sleep(0.05)
        return plumpy.Kill(plumpy.MessageBuilder.kill('bye'))


async def case_pause_pending_at_kill():
    proc = SlowKill()
    task = asyncio.ensure_future(proc.step_until_terminated())
    await asyncio.sleep(0.01)
    proc.pause('pausing')
    await asyncio.wait_for(task, 2.0)
    ok = proc.state == ProcessState.KILLED and proc.status == 'bye' and not proc.paused
    report(
        'Kill(msg) returned while a pause is pending',
        ok,
        'state %s, killed_msg %r, status %r, paused %r' % (proc.state, proc.killed_msg(), proc.status, proc.paused),
    )


def main():
    loop = asyncio.new_event_loop()
    asyncio.set_event_loop(loop)
    for case in (
        case_keyword_names,
        case_restore_twice,
        case_resume_then_checkpoint,
        case_lookup_by_name,
        case_pause_pending_at_kill,
    ):
        loop.run_until_complete(case())
    print('\n%d violating case(s)' % len(FOUND))
    return 1 if FOUND else 0


if __name__ == '__main__':
    sys.exit(main())
