# -*- coding: utf-8 -*-
"""Observations on the UNCHANGED tree for C16 (both borderline: they hinge on what one takes the communicator contract to be).

1. Reply shape behind a LoopCommunicator: with a process subscribed through ``LoopCommunicator(kiwipy.LocalCommunicator())``
   the coroutine controller does not yield the reply of the direct call: ``RemoteProcessController.get_status`` returns a
   (pending) kiwipy Future instead of the status dictionary and ``pause_process``/``play_process``/``kill_process`` return a
   Future instead of ``True``.  ``convert_to_comm`` adds one level of future nesting (plum_to_kiwi_future around the future
   of ``_schedule_rpc``) and the controller unwraps a fixed number of levels (1 for status, 2 for the others); it only works
   with communicators that flatten nested futures themselves (the RMQ one does, ``LocalCommunicator`` does not).
   Without the LoopCommunicator the same calls give the dictionary / ``True``.

2. Body-less control broadcast: ``broadcast_send(None, subject='play')`` (what ``play_all`` sends) is honoured, but the same
   shape for ``pause``/``kill`` raises AttributeError in ``Process.broadcast_receive`` (``msg.get``): the request is lost, and
   with a plain LocalCommunicator the exception propagates into the sender's ``broadcast_send`` and subscribers registered
   after the process never see the broadcast.

Run: PYTHONPATH=<tree>/src /venv/bin/python already-failing.py   (exit 1 = observations reproduced)
"""
import asyncio
import logging
import sys

import kiwipy

import plumpy
from plumpy import process_comms
from plumpy.communications import LoopCommunicator

logging.disable(logging.CRITICAL)


class Waiter(plumpy.Process):
    def run(self):
        return plumpy.Wait(self.done)

    def done(self):
        pass


async def main():
    found = []
    loop = asyncio.get_event_loop()

    # 1. reply shape behind a LoopCommunicator
    comm = LoopCommunicator(kiwipy.LocalCommunicator(), loop)
    proc = Waiter(communicator=comm)
    task = asyncio.ensure_future(proc.step_until_terminated())
    await asyncio.sleep(0.05)
    controller = process_comms.RemoteProcessController(comm)
    direct = {}
    proc.get_status_info(direct)
    status = await controller.get_status(str(proc.pid))
    if status != direct:
        found.append(f'get_status behind LoopCommunicator returned {status!r}, direct get_status_info gives {direct!r}')
    reply = await controller.pause_process(str(proc.pid))
    if reply is not True:
        found.append(f'pause_process behind LoopCommunicator returned {reply!r}, direct pause() resolves to True')
    proc.kill()
    await task

    # 2. body-less pause/kill broadcast
    comm = kiwipy.LocalCommunicator()
    proc = Waiter(communicator=comm)
    seen = []
    comm.add_broadcast_subscriber(lambda _c, body, sender, subject, correlation_id: seen.append(subject))
    task = asyncio.ensure_future(proc.step_until_terminated())
    await asyncio.sleep(0.05)
    try:
        comm.broadcast_send(None, subject='kill')
    except AttributeError as exc:
        found.append(f"broadcast_send(None, subject='kill') raised in the sender: {exc!r}; later subscribers saw {seen}")
    await asyncio.sleep(0.05)
    if not proc.killed():
        found.append('body-less kill broadcast did not kill the process (a body-less play broadcast does play it)')
        proc.kill()
    await task
    return found


if __name__ == '__main__':
    found = asyncio.run(main())
    for line in found:
        print(' -', line)
    sys.exit(1 if found else 0)
