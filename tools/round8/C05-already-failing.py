"""UNCHANGED tree, borderline observation for C05 ("nothing runs while paused").

A callback registered with ``Process.call_soon`` ("an internal process function": it runs through ``_run_task`` with the
process as the current process and fails the process if it raises) is not held back by a pause: it is executed while
``proc.paused`` is True.  Whether such a callback counts as a "continuation" in the sense of the property statement is
debatable (step functions and Wait/Continue continuations *are* blocked), hence "borderline".

Exits 1 when the callback ran while the process reported paused.
"""

import asyncio
import sys

import plumpy
from plumpy import process_states


class P(plumpy.Process):
    def __init__(self, *args, **kwargs):
        super().__init__(*args, **kwargs)
        self.trace = []

    def run(self):
        self.trace.append('run')
        self.call_soon(self.callback)
        self.pause()  # takes effect at the step boundary, i.e. before the callback gets its turn
        return process_states.Continue(self.second)

    def callback(self):
        self.trace.append(('call_soon callback', f'paused={self.paused}'))

    def second(self):
        self.trace.append('second')


async def main():
    proc = P()
    task = asyncio.ensure_future(proc.step_until_terminated())
    for _ in range(20):
        await asyncio.sleep(0)
    assert proc.paused
    trace_while_paused = list(proc.trace)
    proc.play()
    await asyncio.wait_for(task, 5)
    print('trace while paused:', trace_while_paused)
    print('final trace       :', proc.trace)
    if ('call_soon callback', 'paused=True') in trace_while_paused:
        print('a call_soon callback of the process was executed while the process was paused')
        return 1
    return 0


if __name__ == '__main__':
    loop = asyncio.new_event_loop()
    asyncio.set_event_loop(loop)
    sys.exit(loop.run_until_complete(main()))
