"""Unchanged tree: PicklePersister file names conflate (pid='job', tag='1') with (pid='job.1', tag=None).

A continue task for process 'job' with tag '1' -- for which nothing was ever persisted -- resumes the (untagged)
checkpoint of the unrelated process 'job.1' instead of failing: not "exactly the persisted checkpoint (of the
requested tag)".  With the InMemoryPersister the same history fails with a KeyError, as it should.
"""
import asyncio
import sys
import tempfile

import plumpy
from plumpy import process_comms


class Proc(plumpy.Process):
    @classmethod
    def define(cls, spec):
        super().define(spec)
        spec.input('x', valid_type=int)
        spec.output('y', valid_type=int)

    def run(self):
        self.out('y', self.inputs.x)


async def history(persister):
    launcher = plumpy.ProcessLauncher(persister=persister)
    # two processes are created and persisted, both WITHOUT a tag
    for pid, x in (('job', 1), ('job.1', 2)):
        task = process_comms.create_create_body(Proc, init_kwargs={'inputs': {'x': x}, 'pid': pid}, persist=True)
        assert await launcher(None, task) == pid
    # there is no checkpoint of 'job' tagged '1': this must fail
    try:
        reply = await launcher(None, process_comms.create_continue_body('job', tag='1'))
    except Exception as exc:
        return f'refused ({type(exc).__name__})'
    return f'executed, reply {reply}'


def main():
    failed = False
    for persister in (plumpy.InMemoryPersister(), plumpy.PicklePersister(tempfile.mkdtemp())):
        outcome = asyncio.run(history(persister))
        print(f'{type(persister).__name__}: continue(pid="job", tag="1") -> {outcome}')
        failed |= outcome.startswith('executed')
    if failed:
        print('VIOLATION: a continue task for a tag without checkpoint ran the checkpoint of another process')
    return 1 if failed else 0


if __name__ == '__main__':
    sys.exit(main())
