# -*- coding: utf-8 -*-
"""Histories for which the UNCHANGED tree already violates C09.

Case 1: a checkpoint (Bundle) taken while the if_/elif_ chain is being evaluated, i.e. from inside the second (or a
        later) predicate.  ``_IfStepper._pos`` is auto-persisted and at that moment already counts the predicates found
        false, while no branch stepper exists yet.  The reloaded process evaluates the chain again from the first
        predicate but keeps counting from the stale ``_pos``: it ends up in the body of a LATER branch than the one
        whose predicate is true (or skips the if_ altogether).

Case 2: a step given to the outline as ``Base.step`` explicitly, and overridden in the subclass the outline belongs to.
        The fresh process calls ``Base.step`` (the function written in the outline), the one recreated from a
        checkpoint looks the step up by NAME on the class (``_FunctionStepper.load_instance_state``) and calls the
        override instead.

Exits 0 if neither violation shows, 1 otherwise.
"""
import sys

import plumpy
from plumpy import WorkChain, if_

TRACE = []
BUNDLES = {}


class ElifWc(WorkChain):
    @classmethod
    def define(cls, spec):
        super().define(spec)
        spec.outline(
            cls.first,
            if_(cls.is_a)(cls.in_a).elif_(cls.is_b)(cls.in_b).else_(cls.in_else),
            cls.last,
        )

    def first(self):
        TRACE.append('first')

    def is_a(self):
        TRACE.append('is_a')
        return False

    def is_b(self):
        TRACE.append('is_b')
        if 'elif' not in BUNDLES:
            BUNDLES['elif'] = plumpy.Bundle(self, dereference=True)
        return True

    def in_a(self):
        TRACE.append('in_a')

    def in_b(self):
        TRACE.append('in_b')

    def in_else(self):
        TRACE.append('in_else')

    def last(self):
        TRACE.append('last')
        return 7


class Base(WorkChain):
    @classmethod
    def define(cls, spec):
        super().define(spec)
        spec.outline(cls.begin, cls.work)

    def begin(self):
        TRACE.append('Base.begin')

    def work(self):
        TRACE.append('Base.work')
        if 'sub' not in BUNDLES:
            BUNDLES['sub'] = plumpy.Bundle(self, dereference=True)
        return 1


class Sub(Base):
    @classmethod
    def define(cls, spec):
        super().define(spec)
        # the work of the base class, explicitly
        spec.outline(cls.begin, Base.work)

    def begin(self):
        TRACE.append('Sub.begin')

    def work(self):
        TRACE.append('Sub.work')
        return 2


def main():
    failures = []

    # -- case 1
    del TRACE[:]
    proc = ElifWc()
    proc.execute()
    fresh = list(TRACE)
    assert fresh == ['first', 'is_a', 'is_b', 'in_b', 'last'], fresh
    assert proc.result() == 7

    del TRACE[:]
    loaded = BUNDLES['elif'].unbundle()
    loaded.execute()
    reloaded = list(TRACE)
    # the reloaded process is in the RUNNING state that evaluates the if_: the program continues with is_a, is_b, in_b, last
    expected = ['is_a', 'is_b', 'in_b', 'last']
    if reloaded != expected:
        failures.append(f'case 1: reloaded process called {reloaded}, the outline denotes {expected}')

    # -- case 2
    del TRACE[:]
    proc = Sub()
    proc.execute()
    fresh = list(TRACE)
    assert fresh == ['Sub.begin', 'Base.work'], fresh
    assert proc.result() == 1

    del TRACE[:]
    loaded = BUNDLES['sub'].unbundle()
    loaded.execute()
    reloaded = list(TRACE)
    # the checkpoint was taken during the step ``Base.work``, which the reloaded process carries out (again)
    if reloaded != ['Base.work'] or loaded.result() != 1:
        failures.append(
            f'case 2: reloaded process called {reloaded} with result {loaded.result()!r}, '
            "the outline denotes ['Base.work'] with result 1"
        )

    for failure in failures:
        print('VIOLATION', failure)
    return 1 if failures else 0


if __name__ == '__main__':
    sys.exit(main())
