"""Two histories for which the UNCHANGED tree violates C08 (resume from a checkpoint == uninterrupted execution).

1. AliasWc: step s1 emits as an output the very list it keeps in the context, step s2 appends to that list.  Uninterrupted,
   the output and the context value are one object, so the emitted output ends as [1].  In a checkpoint the outputs are
   deep-copied on their own (``Process.save_instance_state`` -> ``encode_input_args``) while the context is copied with the
   rest of the bundle: after a restore between s1 and s2 they are two lists and the emitted output stays [].
2. Sub: the outline of the base class names its steps through the class (``Base.s2``, not ``cls.s2``) and a subclass
   overrides s2.  A fresh ``_FunctionStepper`` calls the function of the outline (``Base.s2``); one recreated from a
   checkpoint looks the step up by NAME on the class of the work chain (``_FunctionStepper.load_instance_state``) and
   calls ``Sub.s2``: another step is executed after a restore at the boundary before s2.

Run as:  PYTHONPATH=<tree>/src /venv/bin/python already-failing.py   (exits 1 and prints the differences when violated)
"""

import asyncio
import copy
import sys

import plumpy
from plumpy import WorkChain

EXECUTED = []


class AliasWc(WorkChain):
    @classmethod
    def define(cls, spec):
        super().define(spec)
        spec.outputs.dynamic = True
        spec.outline(cls.s1, cls.s2)

    def s1(self):
        EXECUTED.append('s1')
        self.ctx.results = []
        self.out('results', self.ctx.results)

    def s2(self):
        EXECUTED.append('s2')
        self.ctx.results.append(1)


class Base(WorkChain):
    @classmethod
    def define(cls, spec):
        super().define(spec)
        spec.outline(Base.s1, Base.s2)

    def s1(self):
        EXECUTED.append('Base.s1')

    def s2(self):
        EXECUTED.append('Base.s2')


class Sub(Base):
    def s2(self):
        EXECUTED.append('Sub.s2')


def run(cls, crash_points):
    del EXECUTED[:]
    crash_points = set(crash_points)
    persister = plumpy.InMemoryPersister()
    loop = asyncio.new_event_loop()
    asyncio.set_event_loop(loop)
    proc = cls(loop=loop)
    pid = proc.pid
    boundary = 0
    while True:
        crashed = False
        while not proc.has_terminated():
            persister.save_checkpoint(proc)
            if boundary in crash_points:
                crash_points.discard(boundary)
                crashed = True
                break
            boundary += 1
            loop.run_until_complete(proc.step())
        if not crashed:
            break
        loop.close()
        loop = asyncio.new_event_loop()
        asyncio.set_event_loop(loop)
        proc = persister.load_checkpoint(pid).unbundle(plumpy.LoadSaveContext(loop=loop))
    observed = {
        'executed': list(EXECUTED),
        'state': proc.state,
        'outputs': copy.deepcopy(proc.outputs),
        'ctx': copy.deepcopy(proc.ctx.__dict__),
        'result': proc.result(),
        'boundaries': boundary,
    }
    loop.close()
    return observed


def main():
    failures = 0
    for cls in (AliasWc, Sub):
        reference = run(cls, ())
        for crash in range(reference['boundaries']):
            got = run(cls, (crash,))
            if got != reference:
                failures += 1
                print(f'{cls.__name__}, crash at boundary {crash}:')
                print(f'   uninterrupted: {reference}')
                print(f'   resumed      : {got}')
    print('VIOLATED' if failures else 'ok')
    return 1 if failures else 0


if __name__ == '__main__':
    sys.exit(main())
