"""Unchanged tree: a fault of the communicator (no lifecycle hook raises) at the state-change broadcast that follows
the entry into a terminal state turns KILLED (or FINISHED) into EXCEPTED.

Process.on_entered only absorbs ConnectionClosed / ChannelInvalidStateError / kiwipy.TimeoutError from
``broadcast_send``.  The broadcast is sent after ``_state`` has been replaced, and ``transition_failed`` looks at the
state the transition started from, so anything else raised there (here: kiwipy.CommunicatorClosed from a communicator
that was closed while the process was waiting, or an exception of some other broadcast subscriber that
LocalCommunicator delivers synchronously) replaces the terminal state that was just entered by EXCEPTED.
"""
import asyncio
import sys

import kiwipy
import plumpy
from plumpy import ProcessState


class Waiter(plumpy.Process):
    def run(self):
        return plumpy.Wait(self.done)

    def done(self):
        return 1


class Recorder(plumpy.ProcessListener):
    """Records the state the process reports each time it tells its listeners that it entered one"""

    def __init__(self, seen):
        super().__init__()
        self.seen = seen

    def on_process_running(self, process):
        self.seen.append(process.state)

    def on_process_waiting(self, process):
        self.seen.append(process.state)

    def on_process_finished(self, process, outputs):
        self.seen.append(process.state)

    def on_process_killed(self, process, msg):
        self.seen.append(process.state)

    def on_process_excepted(self, process, reason):
        self.seen.append(process.state)


def scenario_closed_communicator():
    loop = asyncio.new_event_loop()
    asyncio.set_event_loop(loop)
    comm = kiwipy.LocalCommunicator()
    proc = Waiter(communicator=comm, loop=loop)
    seen = []
    proc.add_process_listener(Recorder(seen))

    async def main():
        task = loop.create_task(proc.step_until_terminated())
        for _ in range(5):
            await asyncio.sleep(0)
        assert proc.state == ProcessState.WAITING, proc.state
        comm.close()  # the connection goes away while the process waits
        proc.kill('stop')
        for _ in range(5):
            await asyncio.sleep(0)
        task.cancel()

    loop.run_until_complete(main())
    loop.close()
    return seen, proc.state


def scenario_other_subscriber_raises():
    loop = asyncio.new_event_loop()
    asyncio.set_event_loop(loop)
    comm = kiwipy.LocalCommunicator()

    def monitor(_comm, body, sender, subject, correlation_id):
        # some unrelated monitoring tool subscribed to the same communicator chokes on terminal states
        if subject.endswith('.finished'):
            raise ValueError('monitor cannot handle this')

    comm.add_broadcast_subscriber(monitor)
    proc = Waiter(communicator=comm, loop=loop)
    seen = []
    proc.add_process_listener(Recorder(seen))

    async def main():
        task = loop.create_task(proc.step_until_terminated())
        for _ in range(5):
            await asyncio.sleep(0)
        proc.resume()
        for _ in range(10):
            await asyncio.sleep(0)
        task.cancel()

    loop.run_until_complete(main())
    loop.close()
    return seen, proc.state


bad = 0
for scenario in (scenario_closed_communicator, scenario_other_subscriber_raises):
    try:
        seen, final = scenario()
    except Exception as exc:  # noqa
        print(f'{scenario.__name__}: raised {exc!r}')
        bad += 1
        continue
    terminal = {ProcessState.FINISHED, ProcessState.KILLED, ProcessState.EXCEPTED}
    first_terminal = next((i for i, s in enumerate(seen) if s in terminal), None)
    ok = first_terminal is None or first_terminal == len(seen) - 1
    print(f'{scenario.__name__}: entered states {[s.value for s in seen]}, final {final.value}: {"ok" if ok else "VIOLATION"}')
    bad += 0 if ok else 1
sys.exit(1 if bad else 0)
