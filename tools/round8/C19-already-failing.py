# -*- coding: utf-8 -*-
"""Two class shapes for which the UNCHANGED tree already violates C19 (exits 1 and prints them; 0 if both are fine).

1) auto_persist declarations inherited from TWO bases: the `@auto_persist` decorator (and `Savable.auto_persist`) start
   from `cls._auto_persist`, which the MRO resolves to the FIRST base that declares anything; what the second base
   declares is dropped for the subclass, so its member is neither saved nor restored.
2) a subclass of SavableFuture that declares a member of its own: the member IS saved (save_members), but
   `SavableFuture.recreate_from` builds the object with `cls(loop=loop)` and never calls `load_instance_state`,
   so the declared member is not restored on the recreated future.
"""

import asyncio
import sys

import plumpy


@plumpy.auto_persist('a')
class A(plumpy.Savable):
    pass


@plumpy.auto_persist('b')
class B(plumpy.Savable):
    pass


@plumpy.auto_persist('c')
class C(A, B):
    def __init__(self):
        self.a, self.b, self.c = 1, 2, 3


@plumpy.auto_persist('tag')
class TaggedFuture(plumpy.SavableFuture):
    pass


def main():
    problems = []

    state = C().save()
    loaded = plumpy.Savable.load(state)
    if getattr(loaded, 'b', '<<missing>>') != 2:
        problems.append(
            f'C(A, B): member b declared by base B: saved state keys {sorted(k for k in state if k != "!!meta")}, '
            f'restored b={getattr(loaded, "b", "<<missing>>")!r} (C._auto_persist={sorted(C._auto_persist)})'
        )

    loop = asyncio.new_event_loop()
    asyncio.set_event_loop(loop)
    fut = TaggedFuture(loop=loop)
    fut.tag = 'hello'
    fut.set_result(5)
    state = fut.save()
    loaded = plumpy.Savable.load(state)
    if getattr(loaded, 'tag', '<<missing>>') != 'hello':
        problems.append(
            f'TaggedFuture: declared member tag saved as {state.get("tag")!r} but restored as '
            f'{getattr(loaded, "tag", "<<missing>>")!r} (result restored: {loaded.result()!r})'
        )
    loop.close()

    if problems:
        print('C19 violated on the unchanged tree:')
        for problem in problems:
            print('  -', problem)
        return 1
    print('ok')
    return 0


if __name__ == '__main__':
    sys.exit(main())
