# -*- coding: utf-8 -*-
"""Histories / program shapes for which the UNCHANGED tree already violates C07 (save, load, save again).

Run as: PYTHONPATH=<tree>/src /venv/bin/python already-failing.py
Prints one line per case; exits 1 if at least one case reproduces (which it does on the unchanged tree), 0 otherwise.

Case 1  A process that excepted with plumpy's own ``EventError`` (raised by the ``@event`` decorator, e.g. ``self.resume()``
        called from a step while the process is RUNNING) can be saved, but the bundle can neither be copied, unpickled,
        nor loaded from YAML, and ``unbundle()`` of the original bundle fails as well: ``EventError.__init__(evt, msg)``
        passes only ``msg`` to ``Exception.__init__``, so ``args == (msg,)`` and every reconstruction (``copy``/``pickle``
        of the exception held by the process future; ``yaml.load`` of ``ex_value`` in ``Excepted.load_instance_state``)
        calls ``EventError(msg)`` -> TypeError.  (``TransitionFailed`` and ``PortValidationError`` have the same shape of
        constructor.)

Case 2  A continuation that is a private (double underscore) method: ``plumpy.Continue(self.__finish)``.  The states save the
        step function by ``__name__`` ('__finish') and look it up with ``getattr(process, name)`` on load; the attribute is
        really called ``_Private__finish``.  The process is saved at the entry of the RUNNING state of that step, but the
        bundle cannot be loaded (AttributeError).

Case 3  A mixin that declares its persisted members with ``@auto_persist`` and comes before ``Process`` in the bases.
        ``_auto_persist`` is looked up through the MRO and the mixin's set wins, so none of the members declared by
        ``Process`` (``_pid``, ``_creation_time``, ``_future``, ``_paused``, ``_status``, ...) are saved: the loaded
        process has no pid / creation time / status at all.
"""
import asyncio
import copy
import pickle
import sys

import yaml

import plumpy

MEDIA = {
    'in-memory copy': lambda bundle: copy.deepcopy(bundle),
    'pickle': lambda bundle: pickle.loads(pickle.dumps(bundle)),
    'yaml': lambda bundle: yaml.load(yaml.dump(bundle), Loader=yaml.UnsafeLoader),
}


class ResumesItself(plumpy.Process):
    async def run(self):
        self.resume()  # not waiting: plumpy.base.state_machine.EventError


class Private(plumpy.Process):
    async def run(self):
        return plumpy.Continue(self.__finish)

    def __finish(self):
        return 5


class Saver(plumpy.ProcessListener):
    """Saves the process at every entry of the RUNNING state"""

    bundles = []

    def on_process_running(self, process):
        # (not a member: listeners are part of the bundle)
        Saver.bundles.append(plumpy.Bundle(process, dereference=True))


@plumpy.auto_persist('_extra')
class ExtraMixin(plumpy.Savable):
    _extra = None


class Mixed(ExtraMixin, plumpy.Process):
    pass


def case_event_error():
    reproduced = []
    proc = ResumesItself()
    try:
        proc.execute()
    except Exception:
        pass
    assert proc.state == plumpy.ProcessState.EXCEPTED
    bundle = plumpy.Bundle(proc)  # saving works
    try:
        bundle.unbundle()
    except Exception as exception:
        reproduced.append(f'unbundle() of the bundle itself: {type(exception).__name__}: {exception}')
    for medium, travel in MEDIA.items():
        try:
            travel(bundle).unbundle()
        except Exception as exception:
            reproduced.append(f'{medium}: {type(exception).__name__}: {exception}')
    return reproduced


def case_private_continuation():
    reproduced = []
    proc = Private()
    proc.add_process_listener(Saver())
    assert proc.execute() == {} and proc.result() == 5
    # bundles[0]: RUNNING 'run'; bundles[1]: RUNNING '__finish'
    bundle = Saver.bundles[1]
    assert bundle['_state']['run_fn'] == '__finish'
    for medium, travel in MEDIA.items():
        try:
            travel(bundle).unbundle()
        except Exception as exception:
            reproduced.append(f'{medium}: {type(exception).__name__}: {exception}')
    return reproduced


def case_mixin_before_process():
    reproduced = []
    proc = Mixed()
    proc.set_status('something')
    bundle = plumpy.Bundle(proc)
    missing = [key for key in ('_pid', '_creation_time', '_status', '_paused', '_future') if key not in bundle]
    if missing:
        reproduced.append(f'members of Process missing from the bundle: {missing}')
    loaded = copy.deepcopy(bundle).unbundle()
    for name in ('pid', 'creation_time', 'status'):
        try:
            if getattr(loaded, name) != getattr(proc, name):
                reproduced.append(f'{name}: original {getattr(proc, name)!r}, loaded {getattr(loaded, name)!r}')
        except Exception as exception:
            reproduced.append(f'loaded.{name}: {type(exception).__name__}: {exception}')
    return reproduced


def main():
    asyncio.set_event_loop(asyncio.new_event_loop())
    failing = 0
    for title, case in (
        ('1. excepted with EventError', case_event_error),
        ('2. continuation is a private method', case_private_continuation),
        ('3. auto_persist mixin before Process', case_mixin_before_process),
    ):
        reproduced = case()
        print(f'{title}: ' + ('REPRODUCED' if reproduced else 'not reproduced'))
        for line in reproduced:
            print('     ' + line)
        failing += bool(reproduced)
    return 1 if failing else 0


if __name__ == '__main__':
    sys.exit(main())
