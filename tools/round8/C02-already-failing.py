# -*- coding: utf-8 -*-
"""Two histories for which the UNCHANGED tree violates C02.  Exits non-zero (printing the violations) if they reproduce.

1. close() then kill():  ``close()`` is a public, documented call ("this process should not be ran anymore ... the state
   of the process will still be accessible") and ``kill()`` is not guarded by ``ensure_not_closed``.  ``on_close`` drops
   the state event hooks, so the later transition to KILLED runs without ``on_entering``/``on_entered``: the state becomes
   KILLED and kill() returns True, but the future is never resolved (waiters hang) and listeners are never notified.
   (The same happens when the future of a closed, live process is cancelled, or when run() calls self.close().)

2. a cleanup that calls close():  ``close()`` says "It is safe to call this method multiple times", but ``_closed`` is only
   set after the cleanups have run, so a cleanup that calls ``proc.close()`` re-enters ``on_close`` recursively until the
   RecursionError is swallowed by the per-cleanup ``except Exception``; every level then goes on with the rest of the
   list: the registered cleanups run hundreds of times instead of exactly once.
"""
import logging
import sys

import plumpy

logging.disable(logging.CRITICAL)
problems = []


class P(plumpy.Process):
    def run(self):
        return 5


class Recorder(plumpy.ProcessListener):
    def __init__(self):
        super().__init__()
        self.events = []

    def on_process_killed(self, process, msg):
        self.events.append('killed')


# 1 ---------------------------------------------------------------------------------------------------------------
proc = P()
recorder = Recorder()
proc.add_process_listener(recorder)
proc.close()
killed = proc.kill('bye')
if proc.state == plumpy.ProcessState.KILLED:
    if not proc.future().done():
        problems.append(f'close() then kill(): kill() returned {killed}, state is KILLED, but the future is still pending')
    if recorder.events != ['killed']:
        problems.append(f'close() then kill(): listener notifications {recorder.events}, expected exactly one killed')

# 2 ---------------------------------------------------------------------------------------------------------------
proc = P()
calls = {'first': 0, 'second': 0}


def first():
    calls['first'] += 1
    proc.close()  # "safe to call multiple times"


def second():
    calls['second'] += 1


proc.add_cleanup(first)
proc.add_cleanup(second)
proc.execute()
if calls != {'first': 1, 'second': 1}:
    problems.append(f'cleanup calling close(): cleanups ran {calls} times, expected exactly once each')

if problems:
    print('C02 violated on this tree:')
    for problem in problems:
        print(' -', problem)
    sys.exit(1)
print('ok')
