# -*- coding: utf-8 -*-
"""Histories for which the UNCHANGED tree already violates (a strict reading of) property C04.

Run as: PYTHONPATH=<tree>/src /venv/bin/python already-failing.py
Prints one line per history; exits 1 if at least one violation was observed (which is the case on the unchanged tree).

H1  cancelling the process future from a listener during the transition at the end of a step does NOT have the same
    effect as kill() from the same callback: kill() is honoured before the next step starts, the cancellation only by
    the asynchronous done-callback (or the check at the end of the NEXT step), so one more (synchronous) step runs.
H2  kill() issued between the cancellation of the task stepping a waiting process and the wake-up of that task
    (same loop iteration): the request is accepted (pending action), the interruption is not delivered because the
    wait future is already cancelled, and when the step unwinds its ``finally`` cancels the action: the kill is lost,
    the process stays WAITING.
H3  kill() issued from a state-event callback (``add_state_event_callback(EXITING_STATE, ...)``) while a *direct*
    transition (kill()/fail() on a process that is not stepping) is in progress raises
    ``AssertionError: Cannot call transition_to when already transitioning state`` instead of never raising.
H4  (status text only) a process killed while paused and then ``play()``-ed has its status -- where on_kill records
    the kill text -- replaced by the pre-pause status; ``killed_msg()`` keeps the text.
"""
import asyncio
import sys

import plumpy
from plumpy import ProcessState, process_states
from plumpy.base.state_machine import StateEventHook


class WaitProcess(plumpy.Process):
    def run(self):
        return process_states.Wait(self.last_step)

    def last_step(self):
        pass


class TwoSteps(plumpy.Process):
    ran_second = False

    def run(self):
        return process_states.Continue(self.second)

    def second(self):
        self.ran_second = True


def h1():
    outcomes = {}
    for mode in ('kill', 'cancel'):
        proc = TwoSteps()

        class Listener(plumpy.ProcessListener):
            count = 0

            def on_process_running(self, process):
                # second time: the transition at the end of the first step
                self.count += 1
                if self.count == 2:
                    if mode == 'kill':
                        process.kill('stop')
                    else:
                        process.future().cancel()

        listener = Listener()
        proc.add_process_listener(listener)
        try:
            proc.execute()
        except BaseException:
            pass
        outcomes[mode] = (proc.state, proc.ran_second)

    violated = outcomes['kill'] != outcomes['cancel']
    print(f'H1 kill() -> {outcomes["kill"]}, future().cancel() -> {outcomes["cancel"]} (state, second step ran): '
          + ('VIOLATION: not the same effect' if violated else 'ok'))
    return violated


def h2(loop):
    async def history():
        proc = WaitProcess()
        task = asyncio.ensure_future(proc.step_until_terminated())
        while proc.state != ProcessState.WAITING:
            await asyncio.sleep(0)
        await asyncio.sleep(0)
        task.cancel()
        result = proc.kill('bye')  # same loop iteration, before the cancelled task wakes up
        for _ in range(5):
            await asyncio.sleep(0)
        return proc, result

    proc, result = loop.run_until_complete(history())
    violated = proc.state != ProcessState.KILLED
    print(f'H2 kill() returned {result!r}; afterwards the process is {proc.state}: ' + ('VIOLATION: kill lost' if violated else 'ok'))
    if not proc.has_terminated():
        proc.kill()
    return violated


def h3():
    proc = WaitProcess()
    seen = {}

    def callback(_machine, _hook, _state):
        try:
            seen['result'] = proc.kill('inner')
        except BaseException as exception:
            seen['raised'] = repr(exception)

    proc.add_state_event_callback(StateEventHook.EXITING_STATE, callback)
    proc.kill('outer')
    violated = 'raised' in seen
    print(f'H3 kill() from an EXITING_STATE callback during a direct kill: {seen}: ' + ('VIOLATION: kill() raised' if violated else 'ok'))
    return violated


def h4():
    proc = WaitProcess()
    proc.set_status('working')
    proc.pause('taking a break')
    proc.kill('farewell')
    before = proc.status
    proc.play()
    after = proc.status
    violated = before == 'farewell' and after != 'farewell'
    print(f'H4 status after kill: {before!r}, after a later play(): {after!r}: ' + ('VIOLATION (status text only)' if violated else 'ok'))
    return violated


def main():
    loop = asyncio.new_event_loop()
    asyncio.set_event_loop(loop)
    results = [h1(), h2(loop), h3(), h4()]
    return 1 if any(results) else 0


if __name__ == '__main__':
    sys.exit(main())
