# -*- coding: utf-8 -*-
"""Histories / inputs for which the UNCHANGED tree already seems to violate the C15 statement.

Run as: PYTHONPATH=<tree>/src /venv/bin/python already-failing.py
Each finding is reported on its own; the exit status is non-zero when at least one is observed.
"""
import sys

import plumpy
from plumpy.ports import PortNamespace

findings = []


def report(observed, title):
    print(('VIOLATION: ' if observed else 'ok:        ') + title)
    if observed:
        findings.append(title)


# 1. "unless overridden by namespace options": the override `dynamic=False` is undone when the source has a valid_type
#    (absorb sets the properties in alphabetical order, `dynamic` before `valid_type`, and the valid_type setter switches
#    `dynamic` back on)
source = plumpy.ProcessSpec()
source.input('a')
source.inputs.valid_type = int  # (makes the source dynamic)
destination = plumpy.ProcessSpec()
destination._expose_ports(None, source.inputs, destination.inputs, destination._exposed_inputs, 'sub', None, None,
                          {'dynamic': False})
report(destination.inputs['sub'].dynamic is not False,
       "namespace_options={'dynamic': False} is ignored when the source namespace has a valid_type "
       f"(dynamic={destination.inputs['sub'].dynamic})")

# 2. "with the source namespace's properties": a source that has a valid_type but was explicitly made non dynamic is
#    exposed as a dynamic namespace, at the top level of the exposure and for a nested namespace
source = plumpy.ProcessSpec()
source.input('nested.a')
source.inputs.valid_type = int
source.inputs.dynamic = False
source.inputs['nested'].valid_type = int
source.inputs['nested'].dynamic = False
destination = plumpy.ProcessSpec()
destination._expose_ports(None, source.inputs, destination.inputs, destination._exposed_inputs, 'sub', None, None)
report(destination.inputs['sub'].dynamic is not False,
       'source (valid_type=int, dynamic=False) is exposed with dynamic=True (top level of the exposure)')
report(destination.inputs['sub']['nested'].dynamic is not False,
       'source (valid_type=int, dynamic=False) is exposed with dynamic=True (nested namespace)')

# 3. "the copy is independent": the default of a namespace (top level and nested) is shared, not copied, whereas the
#    default of an ordinary port is deep-copied
source = plumpy.ProcessSpec()
source.input('plain', default={'k': 1}, valid_type=dict)
source.input_namespace('nested', default={'k': 1}, dynamic=True)
source.inputs.default = {'k': 1}
destination = plumpy.ProcessSpec()
destination._expose_ports(None, source.inputs, destination.inputs, destination._exposed_inputs, 'sub', None, None)
source.inputs['plain'].default['k'] = 2
source.inputs['nested'].default['k'] = 2
source.inputs.default['k'] = 2
report(destination.inputs['sub']['plain'].default['k'] != 1, 'default of an exposed ordinary port shows an in place change of the source default')
report(destination.inputs['sub']['nested'].default['k'] != 1,
       'default of an exposed nested namespace is shared with the source (in place change shows through)')
report(destination.inputs['sub'].default['k'] != 1,
       'default of the source namespace is shared with the namespace it is exposed in')

# 4. an empty include rule set selects nothing, but everything is exposed
source = plumpy.ProcessSpec()
source.input('a')
source.input('ns.b')
destination = plumpy.ProcessSpec()
destination._expose_ports(None, source.inputs, destination.inputs, destination._exposed_inputs, 'sub', None, ())
report(len(destination.inputs['sub']) != 0,
       f"include=() exposes {sorted(destination.inputs['sub'].keys())} instead of nothing")

# 5. a rejected request (include together with an empty exclude) still adds the requested namespace
destination = plumpy.ProcessSpec()
try:
    destination._expose_ports(None, source.inputs, destination.inputs, destination._exposed_inputs, 'sub', (), ('a',))
except ValueError:
    report('sub' in destination.inputs, 'include + exclude=() is rejected, but the namespace `sub` was added all the same')
else:
    report(True, 'include together with exclude=() is not rejected')

# 6. "leaves other ports of the destination in place": a nested namespace of the destination with the name of a nested
#    namespace of the source is replaced as a whole, whereas the namespace the exposure goes in is merged
source = plumpy.ProcessSpec()
source.input('ns.b')
destination = plumpy.ProcessSpec()
destination.input('ns.own')
destination.input('other')
destination._expose_ports(None, source.inputs, destination.inputs, destination._exposed_inputs, None, None, None)
report('own' not in destination.inputs['ns'],
       f"port `ns.own` of the destination is gone after exposing a source with `ns.b`: {sorted(destination.inputs['ns'])}")

assert isinstance(destination.inputs, PortNamespace)
sys.exit(1 if findings else 0)
