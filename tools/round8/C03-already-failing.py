"""Histories for which the UNCHANGED tree already violates C03 (exits 1 when at least one of them is reproduced).

1. A (synchronous) state hook raises ``StopIteration``: ``on_except`` hands it to ``Future.set_exception``, which refuses
   it with a ``TypeError``; that second failure is re-raised by ``transition_to`` -> it escapes from ``step`` and the
   process stays in the state it was in (future pending, not closed).
2. The handle returned by ``call_soon`` is cancelled while its (asynchronous) callback is in flight, and the callback then
   fails: ``ProcessCallback.cancel`` has dropped the process reference, so ``run`` fails with an ``AttributeError`` on
   ``None.callback_excepted`` -> the failure escapes into the event loop (task exception never retrieved).
3. Re-entrant loop policy: a state hook runs the loop (``loop.run_until_complete``) while a scheduled callback fails:
   ``callback_excepted`` -> ``fail`` -> ``transition_to`` trips over ``assert not self._transitioning`` -> the
   ``AssertionError`` escapes into the event loop, the callback's exception is lost and the process finishes normally.
"""
import asyncio
import sys

import plumpy
from plumpy import Process, ProcessState

found = []


def case_stop_iteration():
    loop = asyncio.new_event_loop()
    asyncio.set_event_loop(loop)

    class P(Process):
        def on_run(self):
            super().on_run()
            raise StopIteration('from on_run')

        async def run(self):
            pass

    proc = P(loop=loop)
    try:
        loop.run_until_complete(proc.step_until_terminated())
    except Exception as exc:  # noqa: BLE001
        found.append(f'1. stepping raised {type(exc).__name__}: {exc}; state={proc.state}, future done={proc.future().done()}')
    else:
        if proc.state != ProcessState.EXCEPTED or not isinstance(proc.exception(), StopIteration):
            found.append(f'1. state={proc.state} exception={proc.exception()!r}')
    loop.close()


def case_cancelled_handle():
    loop = asyncio.new_event_loop()
    asyncio.set_event_loop(loop)
    errors = []
    loop.set_exception_handler(lambda _l, ctx: errors.append(ctx))

    class P(Process):
        async def run(self):
            async def callback():
                await asyncio.sleep(0.01)
                raise ValueError('callback failed')

            handle = self.call_soon(callback)
            await asyncio.sleep(0.001)  # the callback is now in flight
            handle.cancel()
            await asyncio.sleep(0.05)

    proc = P(loop=loop)
    loop.run_until_complete(proc.step_until_terminated())
    del proc
    import gc

    gc.collect()
    loop.run_until_complete(asyncio.sleep(0))
    for ctx in errors:
        found.append(f"2. escaped into the event loop: {ctx.get('message')}: {ctx.get('exception')!r}")
    loop.close()


def case_reentrant_loop():
    plumpy.set_event_loop_policy()
    loop = asyncio.get_event_loop()
    errors = []
    loop.set_exception_handler(lambda _l, ctx: errors.append(ctx))

    class P(Process):
        def on_run(self):
            super().on_run()

            def bad():
                raise ValueError('callback failed')

            self.call_soon(bad)
            self.loop.run_until_complete(asyncio.sleep(0.01))  # legal with the re-entrant loop

        async def run(self):
            pass

    proc = P()
    try:
        proc.execute()
    except ValueError:
        pass
    if proc.state != ProcessState.EXCEPTED:
        found.append(f'3. state={proc.state} (the failing callback did not fail the process)')
    import gc

    gc.collect()
    loop.run_until_complete(asyncio.sleep(0))
    for ctx in errors:
        found.append(f"3. escaped into the event loop: {ctx.get('message')}: {ctx.get('exception')!r}")
    plumpy.reset_event_loop_policy()


case_stop_iteration()
case_cancelled_handle()
case_reentrant_loop()
for line in found:
    print('VIOLATION on the unchanged tree:', line)
sys.exit(1 if found else 0)
