# -*- coding: utf-8 -*-
"""Histories for which the UNCHANGED tree already departs from the statement of C14 (exit 1 = departure shown).

1. A PicklePersister whose directory contains the directory of another PicklePersister: ``get_checkpoints`` walks into
   the subdirectory (``os.walk``) but joins every file name with the TOP directory, so a key stored in both is listed
   twice by the outer persister, and a key stored only in the inner one makes every listing (and with it
   ``delete_process_checkpoints``) of the outer one raise FileNotFoundError.
2. (weaker) a value that can be deep-copied but not pickled (a lambda in the context of a WorkChain): the in-memory
   persister saves it, the pickle persister raises, so the two are not equivalent for that history.
"""
import asyncio
import os
import sys
import tempfile

import plumpy


class Proc(plumpy.Process):
    def run(self):
        pass


class Chain(plumpy.WorkChain):
    @classmethod
    def define(cls, spec):
        super().define(spec)
        spec.outline(cls.step)

    def step(self):
        pass


def main():
    asyncio.set_event_loop(asyncio.new_event_loop())
    problems = []

    with tempfile.TemporaryDirectory() as top:
        outer = plumpy.PicklePersister(top)
        inner = plumpy.PicklePersister(os.path.join(top, 'inner'))
        proc = Proc(pid=1)
        outer.save_checkpoint(proc, 5)
        inner.save_checkpoint(proc, 5)
        listed = outer.get_checkpoints()
        if len(listed) != 1:
            problems.append(f'outer persister stores one key but lists {listed}')
        inner.save_checkpoint(Proc(pid=2), 5)
        try:
            outer.get_checkpoints()
        except Exception as exc:
            problems.append(f'outer persister: get_checkpoints raised {exc!r} because of a file of the inner persister')

    chain = Chain(pid=3)
    chain.ctx.fn = lambda: None
    plumpy.InMemoryPersister().save_checkpoint(chain)
    with tempfile.TemporaryDirectory() as directory:
        try:
            plumpy.PicklePersister(directory).save_checkpoint(chain)
        except Exception as exc:
            problems.append(f'in-memory persister saved the process, pickle persister raised {type(exc).__name__}')

    for problem in problems:
        print(problem)
    return 1 if problems else 0


if __name__ == '__main__':
    sys.exit(main())
