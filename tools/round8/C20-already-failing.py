# -*- coding: utf-8 -*-
"""UNCHANGED tree: a CancellableAction whose function raises ``StopIteration`` does not report its outcome through
itself, and then accepts being run a second time.

``run`` hands the exception of the function to ``asyncio.Future.set_exception``, which refuses ``StopIteration``
with a ``TypeError`` ("StopIteration interacts badly with generators and cannot be raised into a Future").  That
TypeError escapes from ``run`` (in a process: out of ``Process.step``), the action stays pending, and because ``run``
has dropped its function by then (``_action = None``) a second ``run`` is not refused with ``InvalidStateError``:
it "runs" ``None`` and the action ends with "'NoneType' object is not callable".

Reachable from a process: a pause/kill requested during a step whose hook (``on_pausing``, ``on_killed``, ...) has
the classic ``next(iterator)`` bug.

Exits 0 if the property held, 1 if violated (it is violated on the unchanged tree).
"""

import asyncio
import sys

from plumpy import futures


async def main() -> int:
    calls = []

    def fn():
        calls.append(1)
        return next(iter(()))  # raises StopIteration

    action = futures.CancellableAction(fn)
    bad = 0
    try:
        action.run()
    except Exception as exc:
        print('VIOLATION: run() did not report the outcome through the action, it raised %s: %s' % (type(exc).__name__, exc))
        bad = 1
    if not action.done():
        print('VIOLATION: the function has run (%d call) and failed, but the action is still pending' % len(calls))
        bad = 1

    try:
        action.run()
    except futures.InvalidStateError:
        print('ok: second run refused')
    else:
        print('VIOLATION: a second run() was not refused; the action now ends with: %r' % (action.exception(),))
        bad = 1
    return bad


if __name__ == '__main__':
    sys.exit(asyncio.run(main()))
