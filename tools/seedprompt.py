#!/venv/bin/python
"""usage: tools/seedprompt.py <round dir, e.g. /tmp/seed4> [extra sentence]

Writes one prompt file per property (<round dir>/prompts/Cxx.txt) for the sub-agents that produce seeded
changes, and creates <round dir>/Cxx/out.  The agents get the text of the property, their own scratch
worktree (<round dir>/Cxx/wt, created by the caller with `git -C /repo worktree add --detach`) and the one-line
titles of the changes produced for that property in earlier rounds (so that they do not repeat them) --
nothing about the checks.
"""
import glob
import json
import os
import sys

HERE = os.path.dirname(os.path.dirname(os.path.abspath(__file__)))
root = sys.argv[1]
extra_all = sys.argv[2] if len(sys.argv) > 2 else ''

T = '''You are helping test a verification framework by producing realistic "seeded defects" for the open-source Python library plumpy (asyncio workflow library: Process state machine, pause/play/kill, checkpoints, WorkChain outline, typed port namespaces).

You have your own scratch git worktree of the repository at {wt} (source under {wt}/src/plumpy, tests under {wt}/tests). Work ONLY inside {wt} and {out}. Do NOT touch /repo or /verif, and do not read anything under /verif or other directories under /tmp.

How to run things against your worktree (the system install points elsewhere, so you must set PYTHONPATH):
  cd {wt} && PYTHONPATH={wt}/src /venv/bin/python -m pytest -q -p no:cacheprovider -x --timeout=900 --deselect tests/rmq tests/ 2>&1 | tail -5
(the tests under tests/rmq need a RabbitMQ broker and always fail offline: ignore them; all other tests (186) pass on the unchanged tree.) There is no network.

The semantic property under study:

  id: {id}
  title: {title}
  statement: {statement}
  quantified over: {quant}
  code it is anchored in: {files}; mechanisms: {mech}

YOUR TASK: produce TWO different, independent changes (call them "a" and "b") to the plumpy source (src/plumpy only, not tests) each of which BREAKS this property while the package still imports and the whole existing test suite (minus tests/rmq) still passes. Each change should look like a plausible mistake or well-meant refactoring/optimisation a maintainer could make, be small (a few lines), and - importantly - need something SPECIFIC to manifest: a particular interleaving of requests and event-loop callbacks, a fault or crash at a particular point, a multi-step sequence of operations, an unusual input shape, or two cooperating sites that each look fine alone. Do NOT produce changes that ordinary everyday use would expose at once (e.g. every process failing). The two changes must use different mechanisms / touch different code sites. The repository code around these mechanisms has been hardened with several defensive checks (read the current code carefully, including comments), so make sure your change really has an observable effect through the public API and is not masked by a second line of defence.{extra}

Changes of the following kinds were already produced for this property in earlier rounds; do NOT repeat them or close variants of them (choose other code sites, other mechanisms, other kinds of history or input):
{earlier}

If, while studying the code, you find a history or input for which the UNCHANGED tree already violates the property statement, say so in your final report (with a small reproducer saved as {out}/already-failing.py); that is valuable too, but still produce the two changes.

For each change X in (a, b), write into {out}/X/ :
  - patch.diff : `git diff` output from the worktree root (paths like src/plumpy/...), applying cleanly with `git apply` to the unchanged tree. It must contain only that one change.
  - demo.py : a small standalone program (run as `PYTHONPATH=<tree>/src /venv/bin/python demo.py`) that exits 0 on the unchanged tree and exits non-zero (printing what went wrong) when the change is applied. It must demonstrate a violation of the PROPERTY STATEMENT above (observable through the public API), not merely that the code differs.
  - notes.md : 5-15 lines, the first line a one-line title of the change: what was changed, why it breaks the property, what specific conditions are needed for it to manifest, and the exact commands you ran with their outcome (test suite result with the change applied: must be all passing; demo result with and without the change).

Procedure: read the anchored code first; design the change; apply it in the worktree; run the full suite (command above, drop -x if you like) and confirm it passes; write and run demo.py with the change (must fail); save the diff; then `git -C {wt} checkout -- .` to revert, run demo.py again (must pass), and go on to the second change. Leave the worktree clean (reverted) at the end.

Finish with a brief report: for each of a/b one line on the change and whether suite passed / demo fails-with / passes-without.
'''

EXTRA = {
    'C16': ' Note: no RabbitMQ broker is available; for your demo use an in-process communicator (e.g. kiwipy.LocalCommunicator, or a small stub object implementing add_rpc_subscriber/add_broadcast_subscriber/remove_*/broadcast_send/rpc_send that calls the subscribers directly, positionally).',
    'C17': ' Note: no RabbitMQ broker is available; for your demo you can await plumpy.ProcessLauncher(...)(communicator, task) directly with tasks built by plumpy.process_comms.create_launch_body / create_continue_body / create_create_body, passing None or a stub as the communicator.',
}

os.makedirs(os.path.join(root, 'prompts'), exist_ok=True)
for line in open(os.path.join(HERE, 'properties.jsonl')):
    p = json.loads(line)
    i = p['id']
    titles = []
    for d in sorted(glob.glob(os.path.join(HERE, 'seeded', i + '-*'))):
        try:
            first = open(os.path.join(d, 'notes.md')).read().strip().splitlines()[0].lstrip('# ').strip()
        except (OSError, IndexError):
            continue
        titles.append('  - ' + first[:160])
    os.makedirs(os.path.join(root, i, 'out'), exist_ok=True)
    text = T.format(wt='%s/%s/wt' % (root, i), out='%s/%s/out' % (root, i), id=i, title=p['title'], statement=p['statement'],
                    quant=p['quantifier']['text'], files=', '.join(p['anchors']['files']),
                    mech='; '.join('%s (%s)' % (m['name'], m['where']) for m in p['anchors']['mechanism']),
                    extra=(' ' + extra_all if extra_all else '') + EXTRA.get(i, ''), earlier='\n'.join(titles) or '  (none)')
    with open(os.path.join(root, 'prompts', i + '.txt'), 'w') as fh:
        fh.write(text)
print('prompts written to', os.path.join(root, 'prompts'))
