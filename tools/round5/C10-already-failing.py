# -*- coding: utf-8 -*-
"""Histories/inputs for which the UNCHANGED tree already departs from the C10 statement.

Run as: PYTHONPATH=<tree>/src /venv/bin/python already-failing.py    (exits 1 and lists the findings)

 1. awaitables handed to the context by the LAST outline step are not awaited at all: the workchain FINISHES at
    once; an awaited item failing afterwards does not make it EXCEPTED (``WorkChain._do_step``: ``if not finished and``).
 2. a child process that ends EXCEPTED *after* its future was resolved (a failing ``on_finished`` hook; ``on_except``
    then replaces the process future) is seen as successful by the parent: the following step runs.
 3. an awaited future failing with a BaseException that is not an Exception: ``Waiting._awaitable_done`` lets it escape
    into the event loop after having popped the awaitable; when the remaining items complete the barrier opens and the
    following step runs although an awaited item failed.
 4. an awaited future failing with a plumpy ``KillInterruption`` is taken for a kill request by ``Process.step``:
    the workchain ends KILLED, not EXCEPTED with that error.
"""
import asyncio
import sys
import warnings

warnings.simplefilter('ignore')

import plumpy
from plumpy import Process, ToContext, WorkChain

loop = asyncio.get_event_loop()
loop.set_exception_handler(lambda _loop, context: None)
findings = []


async def spin(n=40):
    for _ in range(n):
        await asyncio.sleep(0)


class Boom(Exception):
    pass


# 1 ------------------------------------------------------------------------------------------------
class LastStepRegisters(WorkChain):
    @classmethod
    def define(cls, spec):
        super().define(spec)
        spec.outline(cls.first, cls.last)

    def first(self):
        pass

    def last(self):
        self.fut = self.loop.create_future()
        self.to_context(item=self.fut)


async def finding_1():
    chain = LastStepRegisters()
    loop.create_task(chain.step_until_terminated())
    await spin()
    state_before = chain.state
    chain.fut.set_exception(Boom('late'))
    await spin()
    if chain.state != plumpy.ProcessState.EXCEPTED:
        findings.append(
            f'1. last step registered an awaitable: workchain was {state_before} before the item completed and is '
            f'{chain.state} after the item failed (expected EXCEPTED)'
        )


# 2 ------------------------------------------------------------------------------------------------
class LateFailingChild(Process):
    def run(self):
        return 5

    def on_finished(self):
        super().on_finished()
        raise Boom('hook failed')


class AwaitsLateFailingChild(WorkChain):
    ran = []

    @classmethod
    def define(cls, spec):
        super().define(spec)
        spec.outline(cls.register, cls.after)

    def register(self):
        self.child = self.launch(LateFailingChild)
        return ToContext(child=self.child)

    def after(self):
        type(self).ran.append(self.child.state)


async def finding_2():
    chain = AwaitsLateFailingChild()
    loop.create_task(chain.step_until_terminated())
    await spin(80)
    if chain.child.state == plumpy.ProcessState.EXCEPTED and chain.state != plumpy.ProcessState.EXCEPTED:
        findings.append(
            f'2. awaited child ended {chain.child.state} but the workchain is {chain.state}; the following step ran '
            f'and saw the child in state {AwaitsLateFailingChild.ran}'
        )


# 3 ------------------------------------------------------------------------------------------------
class NotAnException(BaseException):
    pass


class TwoFutures(WorkChain):
    ran = None

    @classmethod
    def define(cls, spec):
        super().define(spec)
        spec.outline(cls.register, cls.after)

    def register(self):
        type(self).ran = []
        self.first = self.loop.create_future()
        self.second = self.loop.create_future()
        return ToContext(first=self.first, second=self.second)

    def after(self):
        type(self).ran.append(sorted(self.ctx.__dict__))


async def finding_3():
    chain = TwoFutures()
    loop.create_task(chain.step_until_terminated())
    await spin()
    chain.first.set_exception(NotAnException('not an Exception'))
    await spin()
    chain.second.set_result(1)
    await spin()
    if TwoFutures.ran or chain.state != plumpy.ProcessState.EXCEPTED:
        findings.append(
            f'3. awaited future failed with a BaseException: workchain is {chain.state}, following step ran with '
            f'context keys {TwoFutures.ran}'
        )
    if not chain.has_terminated():
        chain.kill()
        await spin()


# 4 ------------------------------------------------------------------------------------------------
async def finding_4():
    chain = TwoFutures()
    loop.create_task(chain.step_until_terminated())
    await spin()
    chain.first.set_exception(plumpy.KillInterruption('not a kill request, just the error of an awaited item'))
    await spin()
    if chain.state != plumpy.ProcessState.EXCEPTED:
        findings.append(f'4. awaited future failed with a KillInterruption: workchain is {chain.state} instead of EXCEPTED')
    if not chain.has_terminated():
        chain.kill()
        await spin()


for finding in (finding_1, finding_2, finding_3, finding_4):
    loop.run_until_complete(finding())

if findings:
    print('unchanged tree departs from the C10 statement:')
    for line in findings:
        print('  -', line)
    sys.exit(1)
print('nothing found')
