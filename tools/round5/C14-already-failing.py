# -*- coding: utf-8 -*-
"""C14: violations on the UNCHANGED tree (exit 1 and a report when observed, exit 0 otherwise).

1. Two PicklePersisters, the directory of one inside the directory of the other (e.g. one store per user below a
   common root).  ``PicklePersister.get_checkpoints`` walks the directory tree with ``os.walk`` but joins every file
   name with the *top* directory, so the outer persister
     - raises FileNotFoundError from get_checkpoints / get_process_checkpoints / delete_process_checkpoints as soon as
       the inner one stores a key the outer one does not have, and
     - lists a key twice when both store the same (pid, tag).
   Two InMemoryPersisters are independent maps, whatever they are called, so this is neither "listing returns exactly
   the keys currently stored" nor equivalent to the in-memory persister.

2. (minor) Loading a key that is not stored raises KeyError in memory and FileNotFoundError from the pickle persister
   (the interface documents PersistenceError): a caller that handles the one does not handle the other.
"""

import os
import sys
import tempfile

import plumpy


def main():
    problems = []

    with tempfile.TemporaryDirectory() as directory:
        outer = plumpy.PicklePersister(directory)
        inner = plumpy.PicklePersister(os.path.join(directory, 'inner'))

        shared, only_inner = plumpy.Process(), plumpy.Process()

        outer.save_checkpoint(shared, 'tag')
        inner.save_checkpoint(shared, 'tag')
        listing = outer.get_checkpoints()
        if listing != [plumpy.PersistedCheckpoint(shared.pid, 'tag')]:
            problems.append(f'outer persister stores one key but lists {len(listing)}: {listing}')

        inner.save_checkpoint(only_inner, 'tag')
        try:
            outer.get_checkpoints()
        except Exception as exception:
            problems.append(f'outer.get_checkpoints() raised {exception!r}')
        try:
            outer.delete_process_checkpoints(shared.pid)
        except Exception as exception:
            problems.append(f'outer.delete_process_checkpoints(pid) raised {exception!r}')

        errors = []
        for persister in (plumpy.InMemoryPersister(), plumpy.PicklePersister(os.path.join(directory, 'other'))):
            try:
                persister.load_checkpoint(shared.pid, 'missing')
            except Exception as exception:
                errors.append(type(exception).__name__)
        if len(set(errors)) != 1:
            problems.append(f'loading a key that is not stored raises different errors: {errors}')

    if problems:
        print('VIOLATIONS ON THIS TREE')
        for problem in problems:
            print(' -', problem)
        return 1
    print('nothing observed')
    return 0


if __name__ == '__main__':
    sys.exit(main())
