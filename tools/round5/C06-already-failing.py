# -*- coding: utf-8 -*-
"""UNCHANGED tree: two histories in which a wake-up of a WAITING process is lost (exit 1 if either reproduces).

1. The task stepping a WAITING process is cancelled (e.g. ``asyncio.wait_for(proc.step_until_terminated(), timeout)``
   timing out).  asyncio cancels the future the task is blocked on, i.e. ``Waiting._waiting_future``.  From then on
   ``resume()`` is swallowed (the future is "done") and every later ``step()`` raises ``CancelledError`` from
   ``Waiting.execute`` straight away: the process stays WAITING forever, whatever is done through the public API.

2. A process is resumed with a value while paused (the value only lives in the state's runtime future) and is then
   checkpointed (``Bundle``) and re-loaded: the loaded process is WAITING + paused, and after ``play()`` it waits
   forever, the resume (and its value) is gone.
"""

import asyncio
import sys

import plumpy
from plumpy import process_states


class Proc(plumpy.Process):
    delivered = None

    async def run(self):
        return process_states.Wait(self.proceed, 'waiting')

    def proceed(self, *args):
        self.delivered = args
        return 5


async def until_waiting(proc):
    for _ in range(20):
        if proc.state == plumpy.ProcessState.WAITING:
            return
        await asyncio.sleep(0)
    raise AssertionError(proc.state)


async def cancelled_stepper():
    proc = Proc()
    try:
        await asyncio.wait_for(proc.step_until_terminated(), timeout=0.2)  # the driver gives up for now
    except asyncio.TimeoutError:
        pass
    assert proc.state == plumpy.ProcessState.WAITING
    proc.resume('v')
    try:
        await asyncio.wait_for(proc.step_until_terminated(), timeout=1.0)  # drive it again
    except (asyncio.TimeoutError, asyncio.CancelledError) as exc:
        return f'1. stepping task cancelled while WAITING, then resume(): still {proc.state}, new stepper got {exc!r}'
    return None if proc.delivered == ('v',) else f'1. delivered {proc.delivered!r}'


async def resumed_then_checkpointed():
    proc = Proc()
    task = asyncio.ensure_future(proc.step_until_terminated())
    await until_waiting(proc)
    await proc.pause()
    proc.resume('v')
    await asyncio.sleep(0)
    loaded = plumpy.Bundle(proc).unbundle()
    task.cancel()
    loaded.play()
    try:
        await asyncio.wait_for(loaded.step_until_terminated(), timeout=1.0)
    except asyncio.TimeoutError:
        return f'2. resumed while paused, saved, loaded, played: still {loaded.state} (paused={loaded.paused})'
    return None if loaded.delivered == ('v',) else f'2. delivered {loaded.delivered!r}'


if __name__ == '__main__':
    loop = asyncio.get_event_loop()
    found = [p for p in (loop.run_until_complete(cancelled_stepper()), loop.run_until_complete(resumed_then_checkpointed())) if p]
    for problem in found:
        print(problem)
    sys.exit(1 if found else 0)
