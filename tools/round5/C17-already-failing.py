# -*- coding: utf-8 -*-
"""C17: two histories/inputs for which the UNCHANGED tree already violates the property statement.

Run as:  PYTHONPATH=<tree>/src /venv/bin/python already-failing.py     (exits 1 when a violation is observed)

1. "the configured object loader is the one used": a launcher (and persister) configured with a loader INSTANCE.  On a
   continue task only the top-level process class is loaded with that instance; the process state (and every other nested
   Savable loaded through `Process.recreate_state`, which builds a fresh `LoadSaveContext(process=self)`) is loaded by
   `_ensure_object_loader` with a NEW instance made by calling the loader's class without arguments
   (`default_loader.load_object(loader_identifier)()`).  A loader that needs constructor arguments therefore makes
   every continue task fail with a TypeError, a stateful one is silently replaced by an unconfigured twin.

2. "a launch task runs a fresh instance [of the requested class]": `DefaultObjectLoader.identify_object` only checks
   that `module:name` can be loaded, not that it loads the object that was identified.  A process class whose
   `__name__` coincides with another module level name (e.g. a class made in a factory function) is identified as
   that other object, and the launch task then runs the other class.
"""

import asyncio
import sys

import plumpy
from plumpy import process_comms


class Simple(plumpy.Process):
    @classmethod
    def define(cls, spec):
        super().define(spec)
        spec.outputs.dynamic = True

    def run(self):
        self.out('who', 'module level Simple')


class PrefixLoader(plumpy.DefaultObjectLoader):
    """A loader that has to be configured (here: with a prefix that all its identifiers carry)"""

    created = 0

    def __init__(self, prefix):
        PrefixLoader.created += 1
        self.prefix = prefix

    def load_object(self, identifier):
        if not identifier.startswith(self.prefix):
            raise ValueError(f'`{identifier}` is not one of mine')
        return super().load_object(identifier[len(self.prefix):])

    def identify_object(self, obj):
        identifier = f'{obj.__module__}:{obj.__name__}'
        plumpy.DefaultObjectLoader.load_object(self, identifier)  # make sure that it can be loaded
        return self.prefix + identifier


def make_local_class():
    class Simple(plumpy.Process):  # same __name__ as the module level class
        @classmethod
        def define(cls, spec):
            super().define(spec)
            spec.outputs.dynamic = True

        def run(self):
            self.out('who', 'Simple made by make_local_class()')

    return Simple


async def main():
    violations = []

    # 1. configured loader instance is not the one that loads the nested state on continue
    loader = PrefixLoader('site-a/')
    persister = plumpy.InMemoryPersister(loader=loader)
    launcher = plumpy.ProcessLauncher(persister=persister, loader=loader)
    pid = await launcher(None, process_comms.create_create_body(Simple, persist=True, loader=loader))
    try:
        reply = await launcher(None, process_comms.create_continue_body(pid))
        print('1. continue replied', reply, '; loader instances in existence:', PrefixLoader.created)
        if PrefixLoader.created != 1:
            violations.append('continue used a loader instance other than the configured one')
    except TypeError as exc:
        print('1. continue with a configured loader instance failed:', repr(exc))
        violations.append(f'continue did not use the configured loader but tried to construct its own: {exc}')

    # 2. launch of a class that shares its name with a module level object runs that other object
    local_class = make_local_class()
    plain = plumpy.ProcessLauncher()
    body = process_comms.create_launch_body(local_class, nowait=False)
    reply = await plain(None, body)
    print('2. identified as', body[process_comms.TASK_ARGS][process_comms.PROCESS_CLASS_KEY], '-> reply', reply)
    if reply != {'who': 'Simple made by make_local_class()'}:
        violations.append(f'launch task for the local class ran another class: {reply}')

    for violation in violations:
        print('VIOLATION:', violation)
    return 1 if violations else 0


if __name__ == '__main__':
    sys.exit(asyncio.run(main()))
