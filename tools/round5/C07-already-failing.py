"""C07 on the UNCHANGED tree: a process whose continuation / outline step is a private (name-mangled) method can be
saved, but the bundle cannot be loaded.

States and steppers record the function they will run by ``fn.__name__`` and look it up again with ``getattr`` on
load.  For a method written as ``self.__second`` in the class body ``__name__`` is ``'__second'`` while the attribute
is called ``_Proc__second``, so ``Running.load_instance_state`` (``Waiting`` for a ``done_callback``,
``_FunctionStepper`` for an outline step) raises AttributeError: "saving in any state in which it can be saved, loading
the bundle ..." does not hold for these (legal, running fine) programs.

Run as:  PYTHONPATH=<tree>/src /venv/bin/python already-failing.py    (exit 1 = the violation reproduces)
"""
import asyncio
import copy
import sys

import plumpy
from plumpy import process_states


class Proc(plumpy.Process):
    async def run(self):
        return process_states.Continue(self.__second)

    def __second(self):
        return process_states.Wait(self.__third)

    def __third(self):
        return 5


class Chain(plumpy.WorkChain):
    @classmethod
    def define(cls, spec):
        super().define(spec)
        spec.outline(cls.__one, cls.__two)

    def __one(self):
        self.ctx.a = 1

    def __two(self):
        self.ctx.a = 2


def try_round_trip(proc, where, failures):
    bundle = plumpy.Bundle(proc, dereference=True)  # saving works
    try:
        loaded = copy.deepcopy(bundle).unbundle()
    except Exception as exception:
        failures.append(f'{where}: saved, but loading the bundle raises {type(exception).__name__}: {exception}')
    else:
        assert loaded.state == proc.state


async def main():
    failures = []

    proc = Proc()
    try_round_trip(proc, 'Proc CREATED', failures)  # fine: run_fn is 'run'
    await proc.step()
    await proc.step()  # now RUNNING, about to call __second
    try_round_trip(proc, 'Proc RUNNING (continuation __second)', failures)
    await proc.step()  # now WAITING with done_callback __third
    try_round_trip(proc, 'Proc WAITING (done_callback __third)', failures)
    proc.resume()
    await proc.step_until_terminated()
    assert proc.result() == 5  # the program itself is fine

    chain = Chain()
    try_round_trip(chain, 'Chain CREATED (outline step __one)', failures)
    await chain.step_until_terminated()
    assert chain.ctx.a == 2  # the program itself is fine

    for failure in failures:
        print(failure)
    print(f'{len(failures)} violation(s) on this tree')
    return 1 if failures else 0


if __name__ == '__main__':
    sys.exit(asyncio.run(main()))
