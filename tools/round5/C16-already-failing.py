# -*- coding: utf-8 -*-
"""Two borderline observations on the UNCHANGED tree for property C16 (run with PYTHONPATH=<tree>/src).

1. Broken announcement chain when an "entered" hook fails.
   ``on_entered`` first runs ``on_waiting`` (user overridable) and only then broadcasts.  If ``on_waiting`` raises, the
   state machine has already switched to WAITING (``proc.state`` was WAITING, ``on_wait`` ran), the transition
   running->waiting is never announced, but the follow-up is announced as ``state_changed.waiting.excepted``.  A
   subscriber therefore sees ``created.running`` followed by ``waiting.excepted``: a <from> that was never a <to>.
   (Whether running->waiting counts as a "completed" transition is debatable; the chain is inconsistent either way.)

2. A broadcast ``pause``/``kill`` with a ``None`` body is not equivalent to ``pause()``/``kill()``.
   ``play_all`` sends ``body=None``, so ``None`` bodies are an accepted shape for control broadcasts, and the RPC side
   treats the text as optional (``msg.get(..., None)``).  ``broadcast_receive`` however does ``msg.get`` on the body:
   ``broadcast_send(None, subject='pause')`` raises AttributeError (out of the sender's ``broadcast_send`` with a
   ``LocalCommunicator``, cutting off the remaining subscribers) and the process is not paused, whereas the direct
   ``proc.pause()`` pauses.

Exit code 1 if either observation reproduces, 0 otherwise.
"""

import asyncio
import logging
import sys

import kiwipy

import plumpy

logging.disable(logging.CRITICAL)


class Waiter(plumpy.Process):
    fail_hook = False

    async def run(self):
        return plumpy.Wait(self.carry_on)

    def carry_on(self, *_args):
        return 1

    def on_waiting(self):
        super().on_waiting()
        if self.fail_hook:
            raise ValueError('on_waiting failed')


async def main():
    found = 0

    # --- 1
    communicator = kiwipy.LocalCommunicator()
    subjects = []
    communicator.add_broadcast_subscriber(lambda _c, body, sender, subject, correlation_id: subjects.append(subject))
    proc = Waiter(communicator=communicator)
    proc.fail_hook = True
    await asyncio.wait_for(proc.step_until_terminated(), 5)
    froms = [s.split('.')[1] for s in subjects]
    tos = [s.split('.')[2] for s in subjects]
    if froms[1:] != tos[:-1]:
        found += 1
        print('1. inconsistent announcement chain:', subjects)

    # --- 2
    communicator = kiwipy.LocalCommunicator()
    remote, twin = Waiter(communicator=communicator), Waiter(communicator=communicator)
    tasks = [asyncio.ensure_future(p.step_until_terminated()) for p in (remote, twin)]
    await asyncio.sleep(0.1)
    # only `remote` listens to the broadcast in this comparison
    communicator.remove_broadcast_subscriber(str(twin.pid))
    try:
        communicator.broadcast_send(None, subject='pause')
        error = None
    except Exception as exc:
        error = repr(exc)
    result = twin.pause()
    while asyncio.isfuture(result):
        result = await result
    await asyncio.sleep(0.1)
    if remote.paused != twin.paused:
        found += 1
        print(f'2. broadcast pause with body None: paused={remote.paused} (error: {error}); direct pause(): paused={twin.paused}')
    communicator.add_broadcast_subscriber(lambda *a, **k: None, str(twin.pid))  # for the cleanup on termination
    for p in (remote, twin):
        p.kill()
    await asyncio.wait_for(asyncio.gather(*tasks), 5)

    return 1 if found else 0


if __name__ == '__main__':
    sys.exit(asyncio.run(main()))
