"""Candidate: on the unchanged tree the empty tuple is accepted (and stored, and the process reported successful) on an
optional output port whose valid_type is int, because ports.UNSPECIFIED is the empty tuple `()` and CPython has a single
empty-tuple object: `() is UNSPECIFIED` is True, so Port.validate() takes the value for "nothing specified" and skips
the type check and the validator."""
import sys
import plumpy


def never(value, port):
    return 'this validator rejects every value'


class P(plumpy.Process):
    @classmethod
    def define(cls, spec):
        super().define(spec)
        spec.output('n', valid_type=int, required=False, validator=never)

    async def run(self):
        # sanity: an ordinary wrong value is rejected
        try:
            self.out('n', 'text')
        except ValueError:
            pass
        else:
            raise AssertionError('str accepted on int port?')
        self.out('n', ())   # not an int, and the validator rejects everything: must raise ValueError
        return 'done'


proc = P()
proc.execute()
print('state', proc.state, 'successful', proc.is_successful, 'outputs', proc.outputs)
if proc.outputs.get('n', None) == () and proc.is_successful:
    print('VIOLATION: () stored on an int port with an always-failing validator; process reported successful')
    sys.exit(1)
sys.exit(0)
