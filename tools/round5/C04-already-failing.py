# -*- coding: utf-8 -*-
"""Two borderline histories on the UNCHANGED tree (arguable violations of C04, see the notes printed below).

Run as: PYTHONPATH=<tree>/src /venv/bin/python already-failing.py   (exits 1 if either shows up)
"""
import asyncio
import sys
import warnings

warnings.simplefilter('ignore')

import plumpy
from plumpy import Process, ProcessState

loop = asyncio.new_event_loop()
asyncio.set_event_loop(loop)
loop.set_exception_handler(lambda _loop, _context: None)


class WaitingProcess(Process):
    async def run(self):
        return plumpy.Wait(self.after_wait)

    def after_wait(self, *_args):
        return 'done'


async def settle(turns=30):
    for _ in range(turns):
        await asyncio.sleep(0)


async def main():
    found = []

    # 1. Two requesters kill the same process inside a waiting step: both get the SAME future back.  The first one
    #    withdraws its request by cancelling what it was handed; the second requester never withdrew anything, but its
    #    kill is lost as well (the process keeps waiting and its future is cancelled).
    proc = WaitingProcess()
    task = loop.create_task(proc.step_until_terminated())
    await settle()
    assert proc.state == ProcessState.WAITING
    first = proc.kill('first requester')
    second = proc.kill('second requester')
    first.cancel()
    await settle()
    if proc.state != ProcessState.KILLED:
        found.append(
            f'shared kill future: first is second = {first is second}; after the first requester cancelled its future '
            f'the process is {proc.state} and the second requester\'s future is '
            f'{"cancelled" if second.cancelled() else second}: the second kill() was lost'
        )
    proc.kill('cleanup')
    await settle()
    task.cancel()

    # 2. A process killed while paused: play() is still accepted afterwards, restores the pre-pause status over the
    #    status in which the kill text was recorded, and notifies listeners that a KILLED process "was played".
    proc = WaitingProcess()
    proc.pause('paused by operator')
    proc.kill('kill text')
    status_after_kill = proc.status
    played = []
    listener = plumpy.ProcessListener()
    listener.on_process_played = lambda _proc: played.append(True)
    proc.add_process_listener(listener)
    proc.play()
    if proc.status != status_after_kill or played:
        found.append(
            f'play() after kill-while-paused: status went from {status_after_kill!r} to {proc.status!r}, '
            f'on_process_played fired on a {proc.state} process: {bool(played)} (killed_msg() still has the text)'
        )
    return found


found = loop.run_until_complete(main())
for item in found:
    print('-', item)
sys.exit(1 if found else 0)
