# -*- coding: utf-8 -*-
"""Histories / inputs for which the UNCHANGED tree already violates the C02 statement.

Run: PYTHONPATH=<tree>/src /venv/bin/python already-failing.py   (exits 1 and lists the violations found)

E1  an exception object that is falsy (legal: e.g. defines __len__) -> the future raises the original exception but
    Process.result() raises a generic Exception('process excepted') (``self._state.exception or Exception(...)``).
E2  a hook that fails after the FINISHED notification (here an on_finished override raising after super()): listeners get
    TWO terminal notifications (finished, excepted) and the future handed out before resolves to the outputs although
    the process ends EXCEPTED (it was resolved while the process had not terminated; on_except swaps in a new future).
E3  a cleanup that calls close() ("safe to call this method multiple times"): on_close re-enters itself, the cleanups
    run ~200 times and the process, which had FINISHED, ends EXCEPTED with an AssertionError.
E4  close() on a live process followed by kill(): kill() returns True, state is KILLED, but the future stays pending and
    no listener is told (close() dropped the state hooks).
"""

import logging
import sys

import plumpy
from plumpy import ProcessState

logging.disable(logging.CRITICAL)
VIOLATIONS = []


class Seen(plumpy.ProcessListener):
    def __init__(self):
        super().__init__()
        self.seen = []

    def on_process_finished(self, process, outputs):
        self.seen.append('finished')

    def on_process_excepted(self, process, reason):
        self.seen.append('excepted')

    def on_process_killed(self, process, msg):
        self.seen.append('killed')


# E1 -------------------------------------------------------------------------------------------------------------
class EmptyErrors(Exception):
    def __len__(self):
        return 0


class RaisesFalsy(plumpy.Process):
    def run(self):
        raise EmptyErrors('boom')


proc = RaisesFalsy()
try:
    proc.execute()
except EmptyErrors:
    pass
try:
    proc.result()
except EmptyErrors:
    pass
except Exception as exc:
    VIOLATIONS.append(f'E1: future raises EmptyErrors but result() raises {exc!r}')


# E2 -------------------------------------------------------------------------------------------------------------
class LateFailure(plumpy.Process):
    def run(self):
        return 5

    def on_finished(self):
        super().on_finished()
        raise RuntimeError('late failure')


proc = LateFailure()
listener = Seen()
proc.add_process_listener(listener)
early = proc.future()
try:
    proc.execute()
except RuntimeError:
    pass
if proc.state == ProcessState.EXCEPTED:
    if len(listener.seen) != 1:
        VIOLATIONS.append(f'E2: listener got terminal notifications {listener.seen} for one process')
    if early.done() and not early.cancelled() and early.exception() is None:
        VIOLATIONS.append(f'E2: process is EXCEPTED but the future obtained before running resolved to {early.result()!r}')

# E3 -------------------------------------------------------------------------------------------------------------
proc = plumpy.Process()
count = {'closer': 0, 'other': 0}


def closer():
    count['closer'] += 1
    proc.close()


def other():
    count['other'] += 1


proc.add_cleanup(closer)
proc.add_cleanup(other)
try:
    proc.execute()
except BaseException as exc:  # noqa
    VIOLATIONS.append(f'E3: execute() of a trivially finishing process raised {type(exc).__name__}; state {proc.state}')
if count != {'closer': 1, 'other': 1}:
    VIOLATIONS.append(f'E3: cleanups ran {count} times')

# E4 -------------------------------------------------------------------------------------------------------------
proc = plumpy.Process()
listener = Seen()
proc.add_process_listener(listener)
proc.close()
killed = proc.kill('bye')
if proc.state == ProcessState.KILLED and (not proc.future().done() or listener.seen != ['killed']):
    VIOLATIONS.append(
        f'E4: kill() -> {killed}, state KILLED, but future done={proc.future().done()} and listener saw {listener.seen}'
    )

if VIOLATIONS:
    print('violations on this tree:')
    for violation in VIOLATIONS:
        print('  -', violation)
    sys.exit(1)
print('no violation')
