"""Inputs for which the UNCHANGED tree already violates C11. Exits 1 if any of the violations shows, 0 otherwise."""
import collections
import copy
import sys

import plumpy


class Proc(plumpy.Process):
    @classmethod
    def define(cls, spec):
        super().define(spec)
        spec.input('a', valid_type=int, required=False, validator=lambda value, port: 'must be 1' if value != 1 else None)
        spec.input_namespace('ns', required=False)
        spec.input('ns.x', valid_type=int, default=3)


violations = []

# 1. The empty tuple IS the ``UNSPECIFIED`` sentinel of plumpy.ports (``UNSPECIFIED = ()``, compared with ``is``, and
#    ``()`` is a singleton in CPython): given for an optional port it passes as "not specified", skipping both the type
#    check and the port validator, and yet it ends up in ``inputs``.
try:
    proc = Proc({'a': ()})
except ValueError:
    pass
else:
    violations.append(f"1. created with a=() for a port of valid_type int with a validator: inputs={proc.inputs!r}")

# 2. A namespace value that is a mutable mapping but not a ``dict`` (here a ``UserDict``) is not cloned before
#    ``pre_process`` fills in the defaults in place: the caller's object, and ``raw_inputs`` with it, are changed.
value = collections.UserDict()
proc = Proc({'ns': value})
if dict(value) != {} or dict(proc.raw_inputs['ns']) != {}:
    violations.append(f"2. caller's UserDict is now {dict(value)!r}, raw_inputs={proc.raw_inputs!r} (given: empty)")

# 3. ``raw_inputs`` is a shallow snapshot: its nested dictionaries are the caller's, so a later change of a nested
#    dictionary by the caller shows in ``raw_inputs`` (and in checkpoints taken afterwards).
inputs = {'a': 1, 'ns': {'x': 5}}
given = copy.deepcopy(inputs)
proc = Proc(inputs)
inputs['ns']['x'] = 'changed later'
if proc.raw_inputs['ns'] != given['ns']:
    violations.append(f"3. raw_inputs changed after construction: {proc.raw_inputs!r} (given: {given!r})")

# 4. Attribute style assignment on the read-only mapping is silently accepted and shadows the attribute style read.
proc = Proc({'a': 1})
try:
    proc.inputs.a = 99
except (TypeError, AttributeError):
    pass
else:
    if proc.inputs.a != proc.inputs['a']:
        violations.append(f"4. inputs.a = 99 accepted: inputs.a == {proc.inputs.a}, inputs['a'] == {proc.inputs['a']}")

for violation in violations:
    print('VIOLATION', violation)
sys.exit(1 if violations else 0)
