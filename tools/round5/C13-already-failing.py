# -*- coding: utf-8 -*-
"""Histories / inputs for which the UNCHANGED tree already violates the C13 statement.

Run as:  PYTHONPATH=<tree>/src /venv/bin/python already-failing.py
Prints one line per case (VIOLATED / ok) and exits 1 if any case is violated.

 1. Continue(f, **k) with a keyword named like a parameter of the machinery (run_fn, process, state_label,
    continue_fn): f(**k) is never called, the process ends EXCEPTED with a TypeError raised by
    Running.__init__ / create_state / Continue.__init__.
 2. Continue(self.__private_step, x): fine without a checkpoint, but the state stores ``__name__`` ('__step')
    while the attribute is name-mangled ('_P__step'), so a checkpoint restore before that step fails with
    AttributeError (same mechanism: ``super().step`` restores to the override, a method of a helper object
    restores to whatever the process has under that name).
 3. Wait(f) + resume(v) delivered while the process is paused (or simply not being stepped), then checkpoint
    and restore before the next step: the resume value lives only in the un-persisted future of the Waiting
    state, so the restored process waits for ever; f(v) never runs.
 4. The task stepping a process that is blocked in a Wait is cancelled (the process itself is left alone): the
    cancellation cancels the Waiting state's future, so every later step raises CancelledError at once and
    resume(v) is silently ignored; f(v) can never run.
"""

import asyncio
import sys

import plumpy
from plumpy import process_states as ps
from plumpy.persistence import Bundle

plumpy.set_event_loop_policy()
LOOP = asyncio.get_event_loop()


class KwargNames(plumpy.Process):
    def run(self):
        return ps.Continue(self.nxt, run_fn=1)

    def nxt(self, run_fn=None):
        return ('nxt', run_fn)


class Private(plumpy.Process):
    def run(self):
        return ps.Continue(self.__step, 5)

    def __step(self, x):
        return ('step', x)


class Waiter(plumpy.Process):
    def run(self):
        return ps.Wait(self.after)

    def after(self, value=None):
        return ('after', value)


async def case1():
    proc = KwargNames()
    await proc.step_until_terminated()
    if proc.state == ps.ProcessState.FINISHED and proc.result() == ('nxt', 1):
        return None
    return f'Continue(f, run_fn=1): state={proc.state}, exception={proc.exception()!r}'


async def case2():
    proc = Private()
    await proc.step()  # CREATED -> RUNNING(run)
    await proc.step()  # run() -> RUNNING(__step, 5)
    try:
        restored = Bundle(proc).unbundle()
        await restored.step_until_terminated()
    except Exception as exc:
        return f'restore before Continue(self.__step, 5): {type(exc).__name__}: {exc}'
    if restored.result() != ('step', 5):
        return f'restored result {restored.result()!r}'
    return None


async def case3():
    proc = Waiter()
    await proc.step()
    await proc.step()  # now WAITING, nobody is stepping
    proc.pause()
    proc.resume(7)
    restored = Bundle(proc).unbundle()
    restored.play()
    task = asyncio.ensure_future(restored.step_until_terminated())
    done, _ = await asyncio.wait([task], timeout=0.5)
    if not done:
        state = restored.state
        restored.kill()
        await task
        return f'resume(7), checkpoint, restore, play: restored process still {state}, after(7) never ran'
    if restored.result() != ('after', 7):
        return f'restored result {restored.result()!r}'
    return None


async def case4():
    proc = Waiter()
    task = asyncio.ensure_future(proc.step_until_terminated())
    await asyncio.sleep(0.05)
    assert proc.state == ps.ProcessState.WAITING
    task.cancel()
    try:
        await task
    except asyncio.CancelledError:
        pass
    task = asyncio.ensure_future(proc.step_until_terminated())  # somebody else takes over stepping
    await asyncio.sleep(0.05)
    proc.resume(8)
    try:
        await asyncio.wait_for(task, 0.5)
    except BaseException as exc:
        return f'stepping task cancelled during the wait, new stepping task + resume(8): {type(exc).__name__}, state={proc.state}'
    if proc.state != ps.ProcessState.FINISHED or proc.result() != ('after', 8):
        return f'state={proc.state}'
    return None


def main():
    failed = 0
    for number, case in enumerate((case1, case2, case3, case4), start=1):
        problem = LOOP.run_until_complete(case())
        if problem:
            failed += 1
            print(f'case {number}: VIOLATED - {problem}')
        else:
            print(f'case {number}: ok')
    return 1 if failed else 0


if __name__ == '__main__':
    sys.exit(main())
