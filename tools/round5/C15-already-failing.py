# -*- coding: utf-8 -*-
"""C15: inputs for which the UNCHANGED tree already departs from the property statement (exit 1 = departures found).

Run: PYTHONPATH=<tree>/src /venv/bin/python already-failing.py
Each finding is printed with a verdict of how clear-cut it is; F1 and F2 are the clearest.
"""
import sys

from plumpy.process_spec import ProcessSpec

findings = []


class Holder:
    """Stands in for a Process class: `expose_inputs` only needs `.spec()`."""

    def __init__(self, spec):
        self._spec = spec

    def spec(self):
        return self._spec


def make_source():
    spec = ProcessSpec()
    spec.input('a')
    spec.input('b')
    spec.input('ns.x')
    spec.input('ns.y')
    return spec


def report(tag, failed, message):
    print(f"{tag}: {'DEPARTS' if failed else 'holds'} - {message}")
    if failed:
        findings.append(tag)


# F1. Independence: the `default` of a namespace (top level AND nested) is shared by reference with the copy, whereas the
# default of a leaf port is deep-copied. A later in-place change of the source namespace default shows through.
# Mechanism: absorb does setattr(self, 'default', getattr(port_namespace, 'default')); nested: copy.copy(port).
source = make_source()
source.inputs.default = {'k': 1}
source.inputs['ns'].default = {'x': 1}
source.inputs['a'].default = {'leaf': 1}
destination = ProcessSpec()
destination.expose_inputs(Holder(source), namespace='t')
source.inputs.default['k'] = 99
source.inputs['ns'].default['x'] = 99
source.inputs['a'].default['leaf'] = 99
top, nested, leaf = (
    destination.inputs['t'].default,
    destination.inputs['t']['ns'].default,
    destination.inputs['t']['a'].default,
)
report(
    'F1',
    top != {'k': 1} or nested != {'x': 1},
    f'after changing the source defaults in place the copy has: namespace {top}, nested namespace {nested}, leaf {leaf}',
)

# F2. Properties: `dynamic` of the source / of namespace_options is lost when `valid_type` is set. The properties are
# applied in the alphabetical order of dir(): `dynamic` first, then `valid_type`, whose setter forces dynamic = True.
source = make_source()
source.inputs['ns'].valid_type = int
source.inputs['ns'].dynamic = False  # legal through the public setter: typed, but closed
destination = ProcessSpec()
destination.expose_inputs(Holder(source))
report(
    'F2a',
    destination.inputs['ns'].dynamic is not source.inputs['ns'].dynamic,
    f'source ns.dynamic={source.inputs["ns"].dynamic}, copy ns.dynamic={destination.inputs["ns"].dynamic}',
)
source = make_source()
source.inputs.valid_type = int
destination = ProcessSpec()
destination.expose_inputs(Holder(source), namespace='t', namespace_options={'dynamic': False})
report(
    'F2b',
    destination.inputs['t'].dynamic is not False,
    f"namespace_options={{'dynamic': False}} gave dynamic={destination.inputs['t'].dynamic} (source has a valid_type)",
)

# F3. (debatable) An empty include rule set selects nothing, yet everything is exposed: `if include and ...` treats the
# empty sequence as "no rules". (The same emptiness is what makes include=('ns',) take all of `ns`.)
source = make_source()
destination = ProcessSpec()
destination.expose_inputs(Holder(source), include=[])
report('F3', len(destination.inputs) != 0, f'include=[] exposed {sorted(destination.inputs)}')

# F4. (debatable) "leaves other ports of the destination in place": a port of the destination nested in a namespace that
# also exists in the source is dropped, because the namespace is replaced wholesale (documented for same-key ports).
source = make_source()
destination = ProcessSpec()
destination.input('ns.mine')
destination.expose_inputs(Holder(source))
report('F4', 'mine' not in destination.inputs['ns'], f'destination ns holds {sorted(destination.inputs["ns"])}')

sys.exit(1 if findings else 0)
