# -*- coding: utf-8 -*-
"""UNCHANGED tree: after a checkpoint is loaded, a step is looked up again *by name on the class of the work chain*
(``_FunctionStepper.load_instance_state``: ``getattr(self._workchain.__class__, saved_state['_fn'])``) instead of being
taken from the outline.  When the function written in the outline is not the attribute of that name on the class --
here: the outline names ``Base.report`` explicitly and a subclass overrides ``report`` -- the continued chain calls a
function that is not in its outline, while the uninterrupted chain calls the one that is.

(The same lookup makes the load *fail* for steps whose ``__name__`` is not an attribute of the class, e.g. steps made
by a factory or wrapped by a decorator without ``functools.wraps``.)

Exits 1 when the discrepancy is observed (which it is on the unchanged tree), 0 otherwise.
"""

import asyncio
import sys

import plumpy
from plumpy import WorkChain


class Base(WorkChain):
    @classmethod
    def define(cls, spec):
        super().define(spec)
        # The outline explicitly names the functions of Base
        spec.outline(Base.prepare, Base.report)

    def on_create(self):
        super().on_create()
        self.ctx.calls = []

    def prepare(self):
        self.ctx.calls.append('Base.prepare')

    def report(self):
        self.ctx.calls.append('Base.report')
        return 'base'


class Child(Base):
    def report(self):  # not part of the outline
        self.ctx.calls.append('Child.report')
        return 'child'


def main():
    loop = asyncio.new_event_loop()
    asyncio.set_event_loop(loop)

    straight = Child()
    straight.execute()
    print('uninterrupted:           calls', straight.ctx.calls, 'result', repr(straight.result()))

    proc = Child()
    loop.run_until_complete(proc.step())  # created -> running
    loop.run_until_complete(proc.step())  # prepare
    copy = plumpy.Bundle(proc, dereference=True).unbundle(plumpy.LoadSaveContext(loop=loop))
    copy.execute()
    print('continued from checkpoint: calls', copy.ctx.calls, 'result', repr(copy.result()))

    if (copy.ctx.calls, copy.result()) != (straight.ctx.calls, straight.result()):
        print('DISCREPANCY: the continued chain called a function that is not the one written in the outline')
        return 1
    return 0


if __name__ == '__main__':
    sys.exit(main())
