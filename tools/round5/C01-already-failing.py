# -*- coding: utf-8 -*-
"""Unchanged tree: a fault in the communicator while the state change INTO a terminal state is being broadcast
(``Process.on_entered`` only tolerates ConnectionClosed / ChannelInvalidStateError / kiwipy.TimeoutError) is routed to
``transition_failed`` with the *previous* (live) state as initial state, so the process goes FINISHED -> EXCEPTED
(likewise KILLED -> EXCEPTED): the terminal state that had been entered -- listeners were told, the future was
resolved with the outputs -- is left again.  No lifecycle hook of the process raises; the failing party is the
communicator (here: closed while the process was running, any other transport error does the same).

Exits 1 when the violation shows (it does on the unchanged tree), 0 otherwise.
"""

import sys

import kiwipy
import plumpy
from plumpy import ProcessState

notified = []


class Listener(plumpy.ProcessListener):
    def on_process_finished(self, process, outputs):
        notified.append(('finished', process.state))

    def on_process_excepted(self, process, reason):
        notified.append(('excepted', process.state, reason))


class P(plumpy.Process):
    async def run(self):
        # the connection goes away while the process is running
        COMM.close()
        return 5


COMM = kiwipy.LocalCommunicator()
proc = P(communicator=COMM)
listener = Listener()
proc.add_process_listener(listener)
original_future = proc.future()
try:
    proc.execute()
except Exception as exc:  # noqa: BLE001
    print(f'execute() raised {exc!r}')

print('listener:', notified)
print('final   :', proc.state)
print('original future resolved with a result:', original_future.done() and original_future.exception() is None)

if [n[0] for n in notified] == ['finished', 'excepted'] and proc.state == ProcessState.EXCEPTED:
    print('PROPERTY VIOLATED on the unchanged tree: FINISHED was entered and then left for EXCEPTED')
    sys.exit(1)
print('no violation seen')
sys.exit(0)
