"""Histories for which the UNCHANGED tree already violates C03 (run: PYTHONPATH=<tree>/src python already-failing.py).

1. A state hook raising StopIteration: asyncio refuses StopIteration in Future.set_exception, so entering EXCEPTED fails
   too, a TypeError escapes from step() and the process is left half transitioned (still CREATED, not closed).
2. A call_soon callback whose handle is cancelled once it is running (by itself, or by someone else while an async
   callback is suspended) and that then raises: ProcessCallback.cancel() drops the process reference, run() then does
   ``None.callback_excepted`` -> AttributeError escapes into the event loop, the process is not failed.
3. WorkChain waiting on an awaitable; a call_soon callback resolves that awaitable and then raises: the process is
   failed (state left, wait woken up) and the already scheduled ``Waiting._awaitable_done`` then does set_result on the
   finished wait -> InvalidStateError escapes into the event loop.
"""
import asyncio
import gc
import sys

import plumpy
from plumpy import Process, ProcessState, WorkChain

found = []


class StopIterHook(Process):
    def on_run(self):
        super().on_run()
        raise StopIteration('boom')

    async def run(self):
        return 1


class SelfCancel(Process):
    async def run(self):
        async def callback():
            await asyncio.sleep(0)
            self.handle.cancel()  # e.g. "I am obsolete"
            raise RuntimeError('callback failed')

        self.handle = self.call_soon(callback)
        await asyncio.sleep(0.05)
        return 1


class Chain(WorkChain):
    @classmethod
    def define(cls, spec):
        super().define(spec)
        spec.outline(cls.first, cls.second)

    def first(self):
        self.awaited = asyncio.Future()

        def callback():
            self.awaited.set_result(5)
            raise RuntimeError('callback failed')

        self.loop.call_later(0.01, lambda: self.call_soon(callback))
        return plumpy.ToContext(x=self.awaited)

    def second(self):
        pass


async def main():
    loop = asyncio.get_event_loop()
    escaped = []
    loop.set_exception_handler(lambda _l, ctx: escaped.append(ctx.get('exception')))

    # 1
    proc = StopIterHook()
    try:
        await proc.step_until_terminated()
    except Exception as exc:  # noqa: BLE001
        found.append(f'1. StopIteration in on_run: {type(exc).__name__} escaped from stepping ({exc}); state={proc.state}, closed={proc._closed}')

    # 2
    del escaped[:]
    proc = SelfCancel()
    await proc.step_until_terminated()
    await asyncio.sleep(0.05)
    gc.collect()
    await asyncio.sleep(0)
    if proc.state != ProcessState.EXCEPTED or escaped:
        found.append(f'2. cancelled-while-running callback that raises: state={proc.state}, escaped into the loop: {escaped!r}')

    # 3
    del escaped[:]
    proc = Chain()
    await asyncio.wait_for(proc.step_until_terminated(), 3)
    await asyncio.sleep(0.05)
    if escaped:
        found.append(f'3. callback resolving the awaited future then raising: state={proc.state}, escaped into the loop: {escaped!r}')


asyncio.run(main())
for line in found:
    print(line)
sys.exit(1 if found else 0)
