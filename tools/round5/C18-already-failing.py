"""Observations on the UNCHANGED tree: overridable process methods that run outside any process scope.

Whether these count as "hooks" in the sense of C18 is debatable (they are not state/pause/play/close hooks), but
they are process code designed to be overridden, and ``Process.current()`` is not the process while they run:

 1. ``Process.init()`` ("common initialisation logic, after create or load, goes here"): called by the metaclass
    after the initial transition, and by ``recreate_from``, without a process scope.  Created from inside another
    process' step it reports that other process.
 2. ``Process.callback_excepted()``: called by ``ProcessCallback.run`` when a callback scheduled with ``call_soon``
    raised, after ``_run_task`` has already left the scope.

Exits 1 if any such observation is made, 0 otherwise.
"""

import asyncio
import sys

import plumpy
from plumpy import Process

findings = []


def check(owner, where):
    current = Process.current()
    if current is not owner:
        got = None if current is None else f'the process with pid {current.pid!r}'
        findings.append(f'{where}: Process.current() is {got}, expected the process with pid {owner.pid!r}')


class Child(plumpy.Process):
    def init(self):
        super().init()
        check(self, f'[{self.pid}] init')

    async def run(self):
        await asyncio.sleep(0.05)

    def broken(self):
        check(self, f'[{self.pid}] scheduled callback')
        raise RuntimeError('scheduled callback failed')

    def callback_excepted(self, callback, exception, trace):
        check(self, f'[{self.pid}] callback_excepted')
        super().callback_excepted(callback, exception, trace)


class Parent(plumpy.Process):
    def run(self):
        child = Child(pid='nested-child')
        try:
            child.execute()
        except RuntimeError:
            pass


async def fail_from_outside():
    proc = Child(pid='top-level')
    stepping = asyncio.ensure_future(proc.step_until_terminated())
    await asyncio.sleep(0.01)
    # scheduled by code that is not running in the process (so the callback's task does not start with the process on its stack)
    proc.call_soon(proc.broken)
    await stepping
    assert proc.state == plumpy.ProcessState.EXCEPTED


def main():
    asyncio.get_event_loop().run_until_complete(fail_from_outside())
    Parent(pid='parent').execute()

    if findings:
        print('process code that ran while Process.current() was not the process (unchanged tree):')
        for line in findings:
            print('  -', line)
        return 1
    print('nothing observed')
    return 0


if __name__ == '__main__':
    sys.exit(main())
