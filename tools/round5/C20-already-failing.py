"""Candidate violations of C20 on the UNCHANGED tree.

1. futures.create_task: a scheduled coroutine that ends by cancellation (it awaits a loop future that gets cancelled,
   i.e. it raises asyncio.CancelledError, a BaseException which kiwipy.capture_exceptions does not catch) leaves the
   returned future pending for ever; through LoopCommunicator the communicator-side reply never arrives either.
2. futures.CancellableAction.run: if the function raises a BaseException that is not an Exception (e.g.
   asyncio.CancelledError) the action stays pending with ``_action = None``; a second ``run`` is then NOT refused, it
   "runs" ``None(...)`` and the action ends with a TypeError nobody raised.

Exits 1 if any of the violations is observed, 0 otherwise.
"""
import asyncio
import sys
import threading

import kiwipy

from plumpy import communications, futures

problems = []


def start_loop():
    loop = asyncio.new_event_loop()
    thread = threading.Thread(target=loop.run_forever, daemon=True)
    thread.start()
    return loop


def on_loop(loop, fn):
    """Run fn on the loop thread and hand back its return value"""
    done = kiwipy.Future()

    def call():
        with kiwipy.capture_exceptions(done):
            done.set_result(fn())

    loop.call_soon_threadsafe(call)
    return done.result(5)


loop = start_loop()

# -- 1. create_task with a coroutine that is cancelled from the inside
inner = on_loop(loop, loop.create_future)


async def waits_for_inner():
    return await inner


task_future = futures.create_task(waits_for_inner, loop)
mirror = communications.plum_to_kiwi_future(task_future)
on_loop(loop, lambda: None)
loop.call_soon_threadsafe(inner.cancel)
try:
    mirror.result(2)
    problems.append('1: mirror gave a result?!')
except kiwipy.CancelledError:
    pass  # faithful
except asyncio.CancelledError:
    pass
except TimeoutError:
    problems.append(
        '1: create_task: the coroutine ended (cancelled via the future it awaited) but the returned future is still '
        'pending after 2s: done=%s' % task_future.done()
    )
except Exception as exc:  # an exception would be acceptable too
    print('1: ended with', repr(exc))


# -- 2. CancellableAction whose function raises a BaseException
def make_and_run():
    calls = []

    def fn():
        calls.append(1)
        raise asyncio.CancelledError()

    action = futures.CancellableAction(fn)
    try:
        action.run()
    except BaseException as exc:
        first = repr(exc)
    else:
        first = 'returned'
    try:
        action.run()
    except futures.InvalidStateError:
        second = 'refused'
    except BaseException as exc:
        second = 'raised %r' % exc
    else:
        second = 'accepted; done=%s exception=%r' % (action.done(), action.exception() if action.done() else None)
    return first, second, len(calls)


first, second, ncalls = on_loop(loop, make_and_run)
if second != 'refused':
    problems.append('2: CancellableAction.run: first run %s, second run was not refused: %s' % (first, second))

for problem in problems:
    print('VIOLATION', problem)
sys.exit(1 if problems else 0)
