# -*- coding: utf-8 -*-
"""Histories/inputs for which the UNCHANGED tree already violates C19.

Run as: PYTHONPATH=<tree>/src /venv/bin/python already-failing.py
Prints one line per case; exits 1 if any of the cases violates the property (it does on the unchanged tree).

Case 1: a subclass of SavableFuture that declares a further member with auto_persist.  The member is written to the
        saved state, but SavableFuture.recreate_from builds the object with cls(loop=...) and never calls
        load_instance_state/load_members, so the declared member is not restored (it keeps the constructor default).
Case 2: DefaultObjectLoader.identify_object only checks that `module:__name__` can be loaded, not that it loads the
        SAME object.  A class that shares its __name__ with another module level attribute (class factory, local class)
        is saved without complaint and comes back as an instance of the other class: a wrong object, not a ValueError.
Case 3: multiple inheritance of two classes that both declare members: only the declarations of the first base in the
        MRO are inherited (the `_auto_persist` attribute of the second base is shadowed), the members of the other
        base are silently not saved.
"""

import asyncio
import sys

import plumpy
from plumpy import persistence


@plumpy.auto_persist('label')
class LabelledFuture(persistence.SavableFuture):
    def __init__(self, label=None, loop=None):
        super().__init__(loop=loop)
        self.label = label


def make_thing():
    @plumpy.auto_persist('x')
    class Thing(plumpy.Savable):
        def __init__(self):
            self.x = 1

    return Thing


Thing = make_thing()  # the module level `Thing`
OtherThing = make_thing()  # a different class that is also called `Thing`


@plumpy.auto_persist('left')
class Left(plumpy.Savable):
    def __init__(self):
        super().__init__()
        self.left = 'L'


@plumpy.auto_persist('right')
class Right(plumpy.Savable):
    def __init__(self):
        super().__init__()
        self.right = 'R'


@plumpy.auto_persist('own')
class Both(Left, Right):
    def __init__(self):
        super().__init__()
        self.own = 'O'


async def main():
    violations = 0

    # Case 1
    future = LabelledFuture(label='hello')
    future.set_result(5)
    loaded = plumpy.Savable.load(future.save())
    label = getattr(loaded, 'label', '<missing>')
    print(f'case 1: declared member `label` of the SavableFuture subclass: saved "hello", restored {label!r}')
    violations += label != 'hello'

    # Case 2
    other = OtherThing()
    try:
        loaded = plumpy.Savable.load(other.save())
    except ValueError as exc:
        print(f'case 2: ValueError ({exc})')
    else:
        print(f'case 2: saved an instance of OtherThing, loaded an instance of the same class: {type(loaded) is OtherThing}')
        violations += type(loaded) is not OtherThing

    # Case 3
    both = Both()
    state = both.save()
    loaded = plumpy.Savable.load(state)
    right = getattr(loaded, 'right', '<missing>')
    print(f'case 3: members saved for Both(Left, Right): {sorted(k for k in state if not k.startswith("!!"))}; right={right!r}')
    violations += right != 'R'

    return 1 if violations else 0


if __name__ == '__main__':
    sys.exit(asyncio.run(main()))
