"""Histories / inputs for which the UNCHANGED tree does not reproduce the uninterrupted execution after a resume.

Run as:  PYTHONPATH=<tree>/src /venv/bin/python already-failing.py     (exits 1 if any case below is violated)
"""
import asyncio
import pickle
import sys

import plumpy
from plumpy import Continue, LoadSaveContext, Process, WorkChain


def new_loop():
    loop = asyncio.new_event_loop()
    asyncio.set_event_loop(loop)
    return loop


def outcome(proc):
    if proc.state == plumpy.ProcessState.FINISHED:
        return (proc.state.value, proc.result(), dict(proc.outputs))
    return (proc.state.value, repr(proc.exception()), dict(proc.outputs))


def crash_resume(proc_class, nsteps):
    """Outcome of an uninterrupted run, and of a run abandoned after ``nsteps`` steps and resumed from a pickled bundle"""
    loop = new_loop()
    proc = proc_class(loop=loop)
    loop.run_until_complete(proc.step_until_terminated())
    reference = outcome(proc)

    loop = new_loop()
    proc = proc_class(loop=loop)
    for _ in range(nsteps):
        loop.run_until_complete(proc.step())
    data = pickle.dumps(plumpy.Bundle(proc))
    del proc
    loop = new_loop()
    try:
        proc = pickle.loads(data).unbundle(LoadSaveContext(loop=loop))
        loop.run_until_complete(proc.step_until_terminated())
        return reference, outcome(proc)
    except Exception as exception:
        return reference, ('could not be resumed', repr(exception))


# -- 1. steps / continuations that are private (name mangled) methods: saved under ``__name__`` ('__second'), looked up
#       with getattr on load, where the attribute is called '_PrivateSteps__second'
class PrivateSteps(WorkChain):
    @classmethod
    def define(cls, spec):
        super().define(spec)
        spec.outline(cls.first, cls.__second)

    def first(self):
        self.ctx.value = 1

    def __second(self):
        return self.ctx.value + 1


class PrivateContinuation(Process):
    async def run(self):
        return Continue(self.__last)

    def __last(self):
        return 3


# -- 2. the same Bundle unbundled more than once (`Bundle.unbundle` is what persisters hand out; InMemoryPersister copies on
#       load, a Bundle kept by the caller does not): mutable context values are shared between the bundle and every
#       process recreated from it, so the second resume starts from the context the first one left behind
class Accumulate(WorkChain):
    @classmethod
    def define(cls, spec):
        super().define(spec)
        spec.outline(cls.first, cls.second)

    def first(self):
        self.ctx.items = [1]

    def second(self):
        self.ctx.items.append(2)
        return len(self.ctx.items)


def same_bundle_twice():
    loop = new_loop()
    proc = Accumulate(loop=loop)
    loop.run_until_complete(proc.step())
    loop.run_until_complete(proc.step())  # ``first`` done
    bundle = pickle.loads(pickle.dumps(plumpy.Bundle(proc)))  # no reference to the live process left
    loop.run_until_complete(proc.step_until_terminated())
    results = [proc.result()]
    for _ in range(2):
        loop = new_loop()
        resumed = bundle.unbundle(LoadSaveContext(loop=loop))
        loop.run_until_complete(resumed.step_until_terminated())
        results.append(resumed.result())
    return results


def main():
    bad = 0
    for proc_class, nsteps in ((PrivateSteps, 2), (PrivateContinuation, 2)):
        reference, resumed = crash_resume(proc_class, nsteps)
        ok = reference == resumed
        bad += not ok
        print(f'{"ok  " if ok else "FAIL"} {proc_class.__name__}: uninterrupted {reference}, resumed {resumed}')

    results = same_bundle_twice()
    ok = len(set(results)) == 1
    bad += not ok
    print(f'{"ok  " if ok else "FAIL"} Accumulate: result uninterrupted / 1st resume / 2nd resume of the same bundle: {results}')
    return 1 if bad else 0


if __name__ == '__main__':
    sys.exit(main())
