"""Process-program DSL, generated Process classes and a reference interpreter.

A program is ``{'steps': [step, ...]}``; a step is::

    {'sync': bool, 'yields': int,
     'fx':  [[pos, effect], ...],      # pos 0 = at entry, k = after the k-th yield
     'ret': [...]}

effects : ['out', port, value] | ['soon', 'ok'|'raise', tag] | ['ctl', 'pause'|'play'|'kill', text]
returns : ['cont', args, kwargs] | ['wait', msg, data] | ['value', v] | ['stop', v, ok]
          | ['unsucc', code] | ['kill', text] | ['raise', tag]

Every step sets a unique status ``S<i>`` at entry and appends to ``self.trace`` (an
auto-persisted member, so the trace survives checkpoints).
"""
import asyncio
import collections
import copy
import json

import plumpy
from plumpy import process_states as ps
from plumpy.process_comms import MessageBuilder

from . import generated

MAX_STEPS = 8

#: recorder the next constructed / loaded process attaches to (set by the engine)
CURRENT_REC = None
#: every generated process constructed or loaded (harnesses that do not construct the processes themselves clear and read this)
INSTANCES = collections.deque(maxlen=256)


class ProgError(Exception):
    """Unique, comparable exception raised by generated programs."""

    def __init__(self, tag):
        super().__init__(tag)
        self.tag = tag

    def __eq__(self, other):
        return type(other) is type(self) and other.args == self.args

    def __hash__(self):
        return hash(self.args)

    def __len__(self):
        # a "collected errors" kind of exception: an instance whose tag contains 'falsy' is falsy (an exception object must be
        # recognised by what it is, not by its truth value)
        return 0 if 'falsy' in str(self.tag) else 1


class ProgKeyError(ProgError, KeyError):
    """A failure of a program that is also a KeyError (a missing entry somewhere in the step's own work): the program's failure,
    whatever built-in exception class it derives from."""


class UnprintableError(ProgError):
    """An exception that has no printable form: handling it must not depend on printing it."""

    def __str__(self):
        raise IndexError('this exception has no printable form')

    __repr__ = __str__


class Recorder:
    """Single logical clock for everything observed in one execution."""

    def __init__(self):
        self.events = []
        self.hooks = {}  # name -> callable(proc, *info) for engine-side triggers

    def ev(self, *item):
        self.events.append(list(item))

    def fire(self, name, proc, *info):
        fn = self.hooks.get(name)
        if fn is not None:
            fn(proc, *info)


class _MyContinue(ps.Continue):
    pass


class _MyWait(ps.Wait):
    pass


class _MyStop(ps.Stop):
    pass


class _MyKill(ps.Kill):
    pass


def _cur_ok(proc):
    return plumpy.Process.current() is proc


class StrictChild(plumpy.Process):
    @classmethod
    def define(cls, spec):
        super().define(spec)
        spec.input('x', valid_type=int)


@plumpy.auto_persist('trace')
class ProgBase(plumpy.Process):
    PROGRAM = None

    @classmethod
    def define(cls, spec):
        super().define(spec)
        spec.inputs.dynamic = True
        spec.outputs.dynamic = True

    def __init__(self, *args, **kwargs):
        super().__init__(*args, **kwargs)
        self.trace = []
        self._attach()

    def load_instance_state(self, saved_state, load_context):
        super().load_instance_state(saved_state, load_context)
        self._attach()

    def _attach(self):
        INSTANCES.append(self)
        self._rec = CURRENT_REC
        rec = self._rec
        if rec is not None:
            from plumpy.base.state_machine import StateEventHook

            def entered(_sm, _hook, from_state):
                rec.ev('state', from_state.LABEL.value if from_state is not None else None, self.state.value)
                rec.fire('entered', self, from_state.LABEL.value if from_state is not None else None, self.state.value)

            self.add_state_event_callback(StateEventHook.ENTERED_STATE, entered)

    def save_instance_state(self, out_state, save_context):
        # (a process whose own save fails before it reaches the base class, when the harness arms it: ``_fail_save``)
        pending, self._fail_save = getattr(self, '_fail_save', None), None
        if pending is not None:
            raise pending
        super().save_instance_state(out_state, save_context)

    def on_paused(self, msg=None):
        super().on_paused(msg)
        rec = getattr(self, '_rec', None)
        if rec is not None:
            rec.ev('hook', 'paused')
            rec.fire('paused', self)

    def on_playing(self):
        super().on_playing()
        rec = getattr(self, '_rec', None)
        if rec is not None:
            rec.ev('hook', 'played')

    # (exit hooks that do not raise: the harness may act from inside them -- plan position ['exit', <state>, <n>])
    def on_exit_running(self):
        super().on_exit_running()
        rec = getattr(self, '_rec', None)
        if rec is not None:
            rec.fire('exit', self, 'running')

    def on_exit_waiting(self):
        super().on_exit_waiting()
        rec = getattr(self, '_rec', None)
        if rec is not None:
            rec.fire('exit', self, 'waiting')

    # -- recording --------------------------------------------------------------------------
    def _t(self, *item):
        item = list(item)
        self.trace.append(item)
        rec = getattr(self, '_rec', None)
        if rec is not None:
            rec.ev('trace', *item)

    # -- interpretation -------------------------------------------------------------------
    async def run(self, *args, **kwargs):
        st = self.PROGRAM['steps'][0]
        if st.get('sync'):
            return self._exec_sync(0, args, kwargs)
        return await self._exec_async(0, args, kwargs)

    def _enter(self, i, args, kwargs):
        self._t('enter', i, self.paused, self.status, _jsonable(args), _jsonable(kwargs), _cur_ok(self))
        self.set_status('S%d' % i)
        if self.PROGRAM.get('mutate_args'):
            # the step modifies its (mutable) arguments in place -- a checkpoint taken before must not see this
            for value in list(args) + list(kwargs.values()):
                if isinstance(value, list):
                    value.append('mutated-by-step-%d' % i)
                elif isinstance(value, dict):
                    value['mutated-by-step'] = i
        rec = getattr(self, '_rec', None)
        if rec is not None:
            rec.fire('step', self, i)
        self._effects(i, 0)

    def _effects(self, i, pos):
        for p, fx in self.PROGRAM['steps'][i].get('fx', ()):
            if p != pos:
                continue
            kind = fx[0]
            if kind == 'out':
                try:
                    self.out(fx[1], special(fx[2]))
                    self._t('out', fx[1], fx[2])
                except ValueError as exc:  # a rejected value; anything else (e.g. a failing output hook) is not the program's business
                    self._t('outerr', fx[1], type(exc).__name__)
            elif kind == 'inp':
                # the step looks at its (parsed) inputs
                self._t('inp', fx[1], _jsonable(self.inputs.get(fx[1], '<default>')))
            elif kind == 'ident':
                # the step looks at its own identity (for a process constructed without a pid the pid is the uuid)
                self._t('ident', repr(self.pid) == repr(self.uuid), self.pid is not None)
            elif kind == 'soon':
                cb = _make_cb(self, fx[1], fx[2])
                cb.handle = self.call_soon(cb)  # (the callback knows its own handle: it may take itself off)
            elif kind == 'ctl':
                try:
                    ret = getattr(self, fx[1])(*([fx[2]] if fx[1] != 'play' else []))
                    self._t('ctl', fx[1], 'future' if asyncio.isfuture(ret) else ret)
                except Exception as exc:  # noqa: BLE001
                    self._t('ctlerr', fx[1], type(exc).__name__)

    def _leave(self, i):
        ret = self.PROGRAM['steps'][i]['ret']
        kind = ret[0]
        self._t('leave', i, kind)
        # (a program may use its own subclasses of the command classes: a command is what it is an instance of)
        Continue, Wait, Stop, Kill = (_MyContinue, _MyWait, _MyStop, _MyKill) if self.PROGRAM.get('own_commands') else (ps.Continue, ps.Wait, ps.Stop, ps.Kill)
        if kind == 'cont':
            # ('@NOCOPY' among the arguments: an object that cannot be copied -- the continuation is handed what the step named)
            return Continue(self._next_fn(i), *[special(a) for a in copy.deepcopy(ret[1])], **{k: special(v) for k, v in copy.deepcopy(ret[2]).items()})
        if kind == 'wait':
            return Wait(self._next_fn(i), ret[1], copy.deepcopy(ret[2]))
        if kind == 'value':
            return special(ret[1])
        if kind == 'stop':
            return Stop(ret[1], ret[2])
        if kind == 'unsucc':
            return plumpy.UnsuccessfulResult(ret[1])
        if kind == 'kill':
            # (text None: the bare ``Kill()`` command, without any message)
            if ret[1] == '@NOTEXT':
                # a message that says how, not why: it has no text of its own (and must keep having none)
                return Kill(MessageBuilder.kill(force_kill=True))
            return Kill() if ret[1] is None else Kill(MessageBuilder.kill(text=ret[1]))
        if kind == 'raise':
            raise (ProgKeyError if str(ret[1]).startswith('key:') else ProgError)(ret[1])
        if kind == 'badchild':
            # the step gives invalid inputs to another process it wants to start: the library's own validation error, wrapped in the
            # ValueError the constructor raises, ends the process
            StrictChild(inputs={'x': 'not-an-int'}, loop=self.loop)
        if kind == 'misuse':
            # the step makes a control call that is not valid in the state it runs in: the library's own EventError ends the process
            self.resume(ret[1])
        raise AssertionError(kind)

    def _next_fn(self, i):
        nxt = self.PROGRAM['steps'][i + 1]
        return getattr(self, ('sstep_%d' if nxt.get('sync') else 'step_%d') % (i + 1))

    async def _exec_async(self, i, args, kwargs):
        self._enter(i, args, kwargs)
        for y in range(self.PROGRAM['steps'][i].get('yields', 0)):
            await asyncio.sleep(0)
            self._t('mid', i, y + 1, self.paused, _cur_ok(self))
            self._effects(i, y + 1)
        return self._leave(i)

    def _exec_sync(self, i, args, kwargs):
        self._enter(i, args, kwargs)
        return self._leave(i)


def _make_cb(proc, mode, tag):
    def callback():
        proc._t('cb', tag, _cur_ok(proc))
        if mode == 'raise':
            raise ProgError(tag)
        if mode == 'kill':
            # a watchdog: the callback the step left behind kills the process (it runs later, e.g. while the process waits)
            ret = proc.kill(tag)
            proc._t('cbkill', tag, 'future' if asyncio.isfuture(ret) else ret)

    callback.__name__ = 'cb_%s' % tag
    return callback


def _mk_async(i):
    async def step(self, *args, **kwargs):
        return await self._exec_async(i, args, kwargs)

    step.__name__ = 'step_%d' % i
    return step


def _mk_sync(i):
    def step(self, *args, **kwargs):
        return self._exec_sync(i, args, kwargs)

    step.__name__ = 'sstep_%d' % i
    return step


for _i in range(MAX_STEPS):
    setattr(ProgBase, 'step_%d' % _i, _mk_async(_i))
    setattr(ProgBase, 'sstep_%d' % _i, _mk_sync(_i))

generated.register(ProgBase, 'ProgBase')


def _used_before():
    """Every generated class is built in an interpreter in which a plain ``plumpy.Process`` and a ``plumpy.WorkChain`` have been used
    already (as in any application that has run something before): what a class is -- its states, its spec -- must not depend on which
    other classes were used before it."""
    loop = asyncio.new_event_loop()
    try:
        plumpy.Process(loop=loop)

        class _EarlierChain(plumpy.WorkChain):
            @classmethod
            def define(cls, spec):
                super().define(spec)
                spec.outline(cls.only)

            def only(self):
                pass

        _EarlierChain(loop=loop)
    finally:
        loop.close()


_used_before()

_CLASS_CACHE = {}


class CodecMixin:
    """A process class that stores its inputs / outputs in an encoded form (the documented extension point)."""

    def encode_input_args(self, inputs):
        return {'__encoded__': copy.deepcopy(inputs)}

    def decode_input_args(self, encoded):
        return copy.deepcopy(encoded['__encoded__'])


class AnyEq:
    """A value that compares equal to anything (like unittest.mock.ANY)."""

    def __eq__(self, other):
        return True

    def __ne__(self, other):
        return False

    __hash__ = object.__hash__

    def __repr__(self):
        return '@ANYEQ'


class _NoBool:
    def __bool__(self):
        raise ValueError('The truth value of an array with more than one element is ambiguous')


class NoBoolEq:
    """A value whose == gives something without a truth value (like a numpy array)."""

    def __eq__(self, other):
        return _NoBool()

    def __ne__(self, other):
        return _NoBool()

    __hash__ = object.__hash__

    def __repr__(self):
        return '@NOBOOL'


class NoCopy:
    """A value that can be neither copied nor pickled (a lock, a socket, a generator ...)."""

    def __deepcopy__(self, memo):
        raise TypeError('cannot copy a NoCopy object')

    __copy__ = __reduce__ = __reduce_ex__ = lambda self, *a: (_ for _ in ()).throw(TypeError('cannot copy a NoCopy object'))

    def __repr__(self):
        return '@NOCOPY'


class Outcome:
    """A plain value that happens to have an attribute called ``result`` (a record of what a step measured)."""

    def __init__(self):
        self.result = 6
        self.log = ['measured']

    def __eq__(self, other):
        return isinstance(other, Outcome)

    __hash__ = object.__hash__

    def __repr__(self):
        return '@HASRESULT'


class ExcValue(Exception):
    """An exception object that is somebody's *result* (an error reported as a value, ``gather(return_exceptions=True)`` style)."""

    def __repr__(self):
        return '@EXCVAL'


class _FutureMarker:
    def __repr__(self):
        return '@FUTURE'


class QuietFuture(asyncio.Future):
    """A (pending) loop future handed over as a plain value -- the handle of work going on elsewhere: nobody here is to wait for it."""

    def __repr__(self):
        return '@FUTURE'


class Handle:
    """An awaitable that is nobody's business to await (the handle of work started elsewhere), returned as a plain value."""

    def __await__(self):
        raise RuntimeError('the handle returned as a plain value was awaited')
        yield  # pragma: no cover

    def __eq__(self, other):
        return isinstance(other, Handle)

    __hash__ = object.__hash__

    def __repr__(self):
        return '@AWAITABLE'


def special(value):
    """Markers in generated cases standing for values with an unusual ``==``."""
    if isinstance(value, str) and value == '@ANYEQ':
        return AnyEq()
    if isinstance(value, str) and value == '@NOBOOL':
        return NoBoolEq()
    if isinstance(value, str) and value == '@AWAITABLE':
        return Handle()
    if isinstance(value, str) and value == '@NOCOPY':
        return NoCopy()
    if isinstance(value, str) and value == '@FUTURE':
        try:
            return QuietFuture(loop=asyncio.get_event_loop())
        except RuntimeError:
            return _FutureMarker()  # (asked for outside any loop, for the expected trace only: it prints the same)
    if isinstance(value, str) and value == '@EXCOBJ':
        return ProgError('an exception object handed over as a value')
    if isinstance(value, str) and value == '@HASRESULT':
        return Outcome()
    if isinstance(value, str) and value == '@EXCVAL':
        return ExcValue('reported as a value, not raised')
    if isinstance(value, str) and value == '@T12':
        return (1, 2)  # a single value that happens to be a tuple
    if isinstance(value, str) and value == '@T0':
        return ()
    return value


def _jsonable(value):
    if isinstance(value, tuple):
        return [_jsonable(v) for v in value]
    if isinstance(value, list):
        return [_jsonable(v) for v in value]
    if isinstance(value, dict):
        return {str(k): _jsonable(v) for k, v in value.items()}
    if value is None or isinstance(value, (bool, int, float, str)):
        return value
    return repr(value)


def program_class(program, base=None):
    """Return (cached) Process subclass interpreting ``program``."""
    base = base or ProgBase
    key = (base.__name__, json.dumps(program, sort_keys=True))
    cls = _CLASS_CACHE.get(key)
    if cls is None:
        name = '%s_%d' % (base.__name__, len(_CLASS_CACHE))
        cls = type(name, (base,), {'PROGRAM': program})
        generated.register(cls, name)
        _CLASS_CACHE[key] = cls
    return cls


# ---------------------------------------------------------------------------------------
# reference interpreter (oracle): what the program text says must happen
# ---------------------------------------------------------------------------------------

def expected_run(program, resume_values=()):
    """Interpret the program text.  ``resume_values``: list of (has_value, value) per wait.

    Returns dict(enters=[(i, args, kwargs)], outputs={...}, final=(state, payload), waits=n)
    Only valid for programs without 'ctl' effects and raising callbacks."""
    steps = program['steps']
    enters = []
    outputs = {}
    i, args, kwargs = 0, [], {}
    waits = 0
    final = None
    while True:
        st = steps[i]
        enters.append([i, list(args), dict(kwargs)])
        for _pos, fx in st.get('fx', ()):
            if fx[0] == 'out':
                _store(outputs, fx[1], fx[2])
        ret = st['ret']
        kind = ret[0]
        if kind == 'cont':
            i, args, kwargs = i + 1, list(ret[1]), dict(ret[2])
            continue
        if kind == 'wait':
            if waits >= len(resume_values):
                final = ('waiting', waits)
                break
            has, val = resume_values[waits]
            waits += 1
            i, args, kwargs = i + 1, ([val] if has else []), {}
            continue
        if kind == 'value':
            final = ('finished', {'result': ret[1], 'successful': True})
        elif kind == 'stop':
            final = ('finished', {'result': ret[1], 'successful': bool(ret[2])})
        elif kind == 'unsucc':
            final = ('finished', {'result': ret[1], 'successful': False})
        elif kind == 'kill':
            final = ('killed', {'text': None if ret[1] == '@NOTEXT' else ret[1]})
        elif kind == 'raise':
            final = ('excepted', {'tag': ret[1]})
        elif kind in ('badchild', 'misuse'):
            final = ('excepted', {'tag': '<%s>' % kind})
        break
    return {'enters': enters, 'outputs': outputs, 'final': final, 'waits': waits}


def _store(outputs, port, value):
    ns = outputs
    parts = port.split('.')
    for part in parts[:-1]:
        ns = ns.setdefault(part, {})
    ns[parts[-1]] = value


def is_plain(program):
    """No self-issued control requests and no raising callbacks (reference interpreter applies)."""
    for st in program['steps']:
        for _pos, fx in st.get('fx', ()):
            if fx[0] == 'ctl' or (fx[0] == 'soon' and fx[1] == 'raise'):
                return False
    return True


def count_waits(program):
    return sum(1 for st in program['steps'] if st['ret'][0] == 'wait')


# ---------------------------------------------------------------------------------------
# program generators
# ---------------------------------------------------------------------------------------

def step(ret, sync=False, yields=0, fx=()):
    return {'sync': bool(sync), 'yields': int(yields), 'fx': [[f[0], list(f[1])] for f in fx], 'ret': list(ret)}


def awkward_programs():
    """Programs that only the checks without persistence use: an output that cannot be copied, a bare Kill() command."""
    return {
        'nocopy_out': {'steps': [step(['cont', [], {}], yields=1, fx=[(0, ['out', 'o1', '@NOCOPY'])]), step(['value', 3], yields=1, fx=[(0, ['out', 'ns.o2', '@NOCOPY'])])]},
        'killbare': {'steps': [step(['cont', [], {}], yields=1), step(['kill', None], yields=1)]},
        'killbare_sync': {'steps': [step(['kill', None], sync=True)]},
        # a failure whose message is the empty string
        'raise_empty': {'steps': [step(['cont', [], {}], yields=1), step(['raise', ''], yields=1)]},
    }


def basic_programs():
    """Small hand-picked family covering every command, sync and async steps, waits."""
    V = ['value', 7]
    progs = {
        'sync1': [step(V, sync=True)],
        'async1': [step(V, yields=1)],
        'cont_sync': [step(['cont', [1], {}], sync=True), step(V, sync=True)],
        'cont_async': [step(['cont', ['a'], {}], yields=1), step(['cont', [], {}], yields=2), step(V, yields=1)],
        'wait1': [step(['wait', 'w0', None], sync=True), step(V, sync=True)],
        'wait_async': [step(['cont', [], {}], yields=1), step(['wait', 'w1', {'d': 1}], yields=1), step(['value', 5], yields=1)],
        'wait2': [step(['wait', 'wa', None], yields=1), step(['wait', 'wb', None], sync=True), step(['stop', 'r', True], yields=1)],
        'out_async': [step(['cont', [], {}], yields=1, fx=[(0, ['out', 'o1', 11]), (1, ['out', 'ns.o2', 'x'])]),
                      step(['unsucc', 3], yields=1, fx=[(0, ['out', 'o3', 12])])],
        'raise_async': [step(['cont', [], {}], yields=1), step(['raise', 'boom'], yields=1)],
        'raise_sync': [step(['raise', 'boom0'], sync=True)],
        'killcmd': [step(['cont', [], {}], yields=1), step(['kill', 'by-program'], yields=1)],
        'soon_ok': [step(['cont', [], {}], yields=1, fx=[(0, ['soon', 'ok', 'c1'])]), step(V, yields=2)],
        'wait_then_raise': [step(['wait', 'w', None], yields=1), step(['raise', 'late'], sync=True)],
        'long': [step(['cont', [], {}], yields=2), step(['wait', 'w', None], sync=True), step(['cont', [2], {}], yields=1),
                 step(['wait', 'w2', None], yields=1), step(V, yields=2)],
    }
    return {k: {'steps': v} for k, v in progs.items()}


def random_program(rng, max_steps=5, allow_fx=True, allow_fail=True):
    n = rng.randint(1, max_steps)
    steps = []
    for i in range(n):
        last = i == n - 1
        sync = rng.random() < 0.35
        yields = 0 if sync else rng.randint(0, 2)
        fx = []
        if allow_fx and rng.random() < 0.4:
            pos = rng.randint(0, yields)
            choice = rng.random()
            if choice < 0.6:
                fx.append((pos, ['out', rng.choice(['o1', 'o2', 'ns.a', 'ns.b']), rng.randint(0, 99)]))
            else:
                fx.append((pos, ['soon', 'ok', 'c%d' % i]))
        if last:
            r = rng.random()
            if r < 0.5:
                ret = ['value', rng.choice([None, 0, 7, 'r'])]
            elif r < 0.65:
                ret = ['stop', rng.choice([1, 'x']), rng.random() < 0.5]
            elif r < 0.8:
                ret = ['unsucc', rng.randint(1, 9)]
            elif r < 0.9 or not allow_fail:
                ret = ['kill', 'prog-kill-%d' % i]
            else:
                ret = ['raise', 'err%d' % i]
        else:
            if rng.random() < 0.4:
                ret = ['wait', 'w%d' % i, rng.choice([None, {'k': i}])]
            else:
                args = [rng.randint(0, 9) for _ in range(rng.randint(0, 2))]
                ret = ['cont', args, {}]
        steps.append(step(ret, sync=sync, yields=yields, fx=fx))
    return {'steps': steps}


class ProgBaseReq(ProgBase):
    """Same interpreter, but the output spec has a required port ``req`` (int): a normal return
    without it must end FINISHED, result preserved, unsuccessful."""

    @classmethod
    def define(cls, spec):
        super().define(spec)
        spec.output('req', valid_type=int, required=True)


generated.register(ProgBaseReq, 'ProgBaseReq')


class ProgOwnStatus(ProgBase):
    """Same interpreter; the status message is kept in a store of the subclass's own (as a subclass that writes it to a database
    record would): the public ``status`` / ``set_status`` accessors are overridden and the base attribute is never written."""

    @property
    def status(self):
        return self.__dict__.get('_status_record')

    def set_status(self, status):
        self.__dict__['_status_record'] = status


generated.register(ProgOwnStatus, 'ProgOwnStatus')


def outputs_valid_req(outputs):
    return isinstance(outputs.get('req'), int)
