"""Workchains whose step runs another process to completion before it returns (C10).

plumpy documents this use: with ``plumpy.set_event_loop_policy()`` the loop is re-entrant and a step may call
``Other(...).execute()``.  While the inner process runs, the outer step is suspended in the middle of its body -- after
some of its awaitables were handed to the context with ``to_context()`` and before others are returned as ``ToContext``.
The barrier of the outer step (and of the inner one, if it is a workchain) must hold all the same.

case = {'kind': 'nested', 'outer': [[how, when], ...], 'inner': 'wc' | 'wc-noawait' | 'proc', 'depth': 1 | 2, 'where': 'mid' | 'first' | 'last'}
  how  'call' (to_context) | 'ret' (returned ToContext);  when  'soon' (resolved while the inner process runs) | 'later' (after)
"""
import asyncio

import plumpy
from plumpy import ToContext, WorkChain

LOG = None


def _execute(proc):
    """``proc.execute()`` (run to completion on the re-entrant loop, inside the caller's step) with a watchdog: an inner process that
    never terminates must not hang the outer step for ever."""
    try:
        proc.loop.run_until_complete(asyncio.wait_for(proc.step_until_terminated(), 3))
    except asyncio.TimeoutError:
        LOG.append([proc.inputs.get('tag', 'inner') if proc.inputs else 'inner', '<never terminated>', False, None, 'terminated'])


class _Inner(WorkChain):
    @classmethod
    def define(cls, spec):
        super().define(spec)
        spec.inputs.dynamic = True
        spec.outline(cls.a, cls.b)

    def a(self):
        if self.inputs.get('awaits', True):
            self.f = self.loop.create_future()
            self.loop.call_soon(self.f.set_result, 'inner-value')
            self.to_context(ik=self.f)
        if self.inputs.get('depth', 1) > 1:
            _execute(_Inner(inputs={'awaits': True, 'depth': 1, 'tag': 'inner2'}))

    def b(self):
        if self.inputs.get('awaits', True):
            LOG.append([self.inputs.get('tag', 'inner'), 'ik', self.f.done(), getattr(self.ctx, 'ik', None), 'inner-value'])


class _Plain(plumpy.Process):
    def run(self):
        return None


class _Outer(WorkChain):
    @classmethod
    def define(cls, spec):
        super().define(spec)
        spec.inputs.dynamic = True
        spec.outline(cls.s1, cls.s2)

    def _fut(self, i, when):
        f = self.loop.create_future()
        if when == 'soon':
            self.loop.call_soon(f.set_result, 'outer-%d' % i)
        else:
            self.loop.call_later(0.005, f.set_result, 'outer-%d' % i)
        return f

    def _inner(self):
        kind = self.inputs['inner']
        _execute(_Plain() if kind == 'proc' else _Inner(inputs={'awaits': kind == 'wc', 'depth': self.inputs['depth']}))

    def s1(self):
        self.futs = {}
        items = self.inputs['outer']
        where = self.inputs['where']
        if where == 'first':
            self._inner()
        ret = {}
        for i, (how, when) in enumerate(items):
            f = self.futs[i] = self._fut(i, when)
            if how == 'call':
                self.to_context(**{'k%d' % i: f})
            else:
                ret['k%d' % i] = f
            if where == 'mid' and i == 0:
                self._inner()
        if where == 'last':
            self._inner()
        return ToContext(**ret) if ret else None

    def s2(self):
        for i, f in sorted(self.futs.items()):
            LOG.append(['outer', 'k%d' % i, f.done(), getattr(self.ctx, 'k%d' % i, None), 'outer-%d' % i])


def run(case):
    """-> {'log': [[who, key, done, ctx value, expected value], ...], 'state': ..., 'inconclusive': None | reason}"""
    global LOG
    LOG = []
    plumpy.set_event_loop_policy()
    incon = None
    state = None
    exc = None
    try:
        loop = asyncio.new_event_loop()
        asyncio.set_event_loop(loop)
        outer = _Outer(inputs={'outer': [list(x) for x in case['outer']], 'inner': case['inner'], 'depth': case.get('depth', 1), 'where': case['where']}, loop=loop)
        try:
            loop.run_until_complete(asyncio.wait_for(outer.step_until_terminated(), 6))
        except asyncio.TimeoutError:
            incon = 'watchdog'
        state = outer.state.value
        exc = repr(outer.exception()) if state == 'excepted' else None
        loop.close()
    finally:
        plumpy.reset_event_loop_policy()
        asyncio.set_event_loop(None)
    log, LOG = LOG, None
    return {'log': log, 'state': state, 'exception': exc, 'inconclusive': incon}
