"""Module on which generated classes are registered, so that plumpy's
DefaultObjectLoader (identifier ``module:name``) can name and re-load them."""
import sys

_THIS = sys.modules[__name__]


def register(cls, name=None):
    name = name or cls.__name__
    cls.__module__ = __name__
    cls.__name__ = name
    cls.__qualname__ = name
    setattr(_THIS, name, cls)
    return cls
