import sys

import pv  # noqa: F401
from pv import runner

if __name__ == '__main__':
    sys.exit(runner.main())
